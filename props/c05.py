"""C05 Record framing — DESIGN.md §4/C05: consumed bytes == declared bytes for every admissible count / length."""
from props import records
from props.c04 import TRUST


def run(ses):
    for unit in ("leader", "volume", "trailer"):
        records.check_unit(ses, unit, ["framing"])
    # low-resolution image i = data[sum(len_<i) : +len_i]: the windows are part of the trailer's record contract
    records.check_unit(ses, "trailer", ["table", "frame"])
    ses.trust(*TRUST[:4])
    ses.assume("admissible inputs: attitude 1 <= N, 16+120N <= L; 1..16 channels; facility 1-4 L >= 66; map projection "
               "count 0/1; file-pointer count >= 0; low-resolution image count 0..7 (the property's quantifier)",
               "Python ints are mathematical integers")
