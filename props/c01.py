"""C01 Pixel fidelity — DESIGN.md §4/C01: values[i, j] = dec_T(F[720 + i*R + P + j*S : +S]), bit for bit.

Chain of contracts, each decided on the real code:
  1 metadata pass   for symbolic n, R and any records_per_chunk: byte_ranges[k] = (720 + k*R + P, 720 + (k+1)*R), P = 544 / 192;
                    shape = (declared lines, declared pixels); type code = descriptor bytes 429-432; dtype of the sample type
  2 open_image      builds the Array for this image's url / filesystem root / records_per_chunk from exactly that metadata (C07)
  3 Array           __post_init__ establishes the chunk invariant; __getitem__(k0, k1) == M[k0, k1] with
                    M[r, j] = dec_T(F[start(r) + j*S : +S]) for every int / slice key, both sample types
  4 decode          raw_dtypes are big-endian >u2 / (>f4, >f4) at offsets 0 / 4; parse_data reinterprets without arithmetic
                    (numpy view / byte-swapping astype: T5, validated on every special bit pattern — bounded)
"""
import numpy as np

from props import records
from props.c04 import TRUST
from pyvc.harness import run_cases


def run(ses):
    from pyvc import frame as _frame

    _frame.purity_obligation(ses)
    from ceos_alos2 import array as A
    from props import arraychain

    quick = ses.tier == "quick"
    units = ("image10q", "image11q")
    table_of = {u: u.rstrip("q") + "s" for u in units}
    records.check_units(ses, units, ["pixels"], table_of=table_of)
    kinds = ("int", "slice_sym", "slice_none")
    cases = [("C*8", "slice_sym", "slice_none"), ("C*8", "int", "slice_none"), ("IU2", "slice_sym", "slice_sym")]
    if not quick:
        cases = [(tc, a, b) for tc in ("IU2", "C*8") for a in kinds for b in kinds]
    run_cases(ses, "props.arraychain", "case_getitem", cases)
    run_cases(ses, "props.arraychain", "case_post_init", [("IU2",), ("C*8",)])
    from props import arraychain as _ac

    _ac.resolve_limits(ses)
    # raw sample layouts: big-endian, real before imaginary
    fn = ses.under_contract(A.parse_data)
    iu2, c8 = A.raw_dtypes["IU2"], A.raw_dtypes["C*8"]
    ses.decided("C01/raw_dtypes/IU2-is-big-endian-u2", iu2 == np.dtype(">u2") and iu2.byteorder in (">",), function=fn,
                detail={"dtype": str(iu2)}, backend="finite-exhaustive")
    ok = c8.names == ("real", "imag") and c8.fields["real"][1] == 0 and c8.fields["imag"][1] == 4 and c8.itemsize == 8 and \
        c8.fields["real"][0] == np.dtype(">f4") and c8.fields["imag"][0] == np.dtype(">f4")
    ses.decided("C01/raw_dtypes/C*8-is-(real>f4@0,imag>f4@4)", ok, function=fn, detail={"dtype": str(c8)}, backend="finite-exhaustive")
    from native import arraycheck as ac

    okd, n, info = ac.check_decode(seed=ses.seed)
    ses.bounded_check("C01/bounded/parse_data-is-bit-exact", okd,
                      bound="every combination of special float32 bit patterns (0, -0, denormals, inf, quiet and signalling NaNs with "
                            "payloads, extremes) in the real / imaginary part; all 65536 IU2 values", function="ceos_alos2.array.parse_data",
                      evaluations=n, replay=(lambda m: {"confirmed": True, "input": info.get("input"), "observed": info.get("observed"),
                                                        "expected": info.get("expected")}) if info else None)
    arraychain.trusted(ses)
    ses.trust(*TRUST[:3])
    ses.assume("well-formed image file: R - prefix = pixels * sample size; the descriptor's line count equals its record count")
