"""C19 Concurrent reads are safe — DESIGN.md §4/C19.

What contracts can state is the hypothesis of the race-freedom theorem, not the schedules (no interleaving is enumerated;
a failure is reported as `no-failing-input-found`):
  frame      a load (LazilyIndexedWrapper._raw_indexing_method -> Array.__getitem__ -> helpers), interpreted for symbolic
             image geometry and keys, writes nothing that outlives the call: no store to the Array, the wrapper, the
             filesystem object or any pre-existing module-level object (effect log)
  ownership  the file handle is obtained from fs.open inside the call, closed on exit and does not escape (not stored,
             not part of the result)
  locking    the wrapper's lock is acquired exactly once around the backend access and released on every path, nothing
             else is acquired while it is held; to_variable pairs one fresh lock with each Array
With independent handles being independent (fsspec, T7) and the textbook theorem (disjoint or lock-protected footprints
=> every interleaving equals a serial one, T10) this gives the property. Pickled copies carry no handle (Array has no
open-file field) and get their own lock object.
"""
from __future__ import annotations

import z3

KINDS = ("int", "slice_sym", "slice_none")


class LockSpy:
    """stands in for the SerializableLock in the interpreted wrapper: records acquire / release in the lock log"""

    def __init__(self, log):
        self.log = log
        self.held = 0

    def __enter__(self):
        self.held += 1
        self.log.append(("acquire", self.held))
        return self

    def __exit__(self, *exc):
        self.log.append(("release", self.held, exc[0].__name__ if exc and exc[0] else None))
        self.held -= 1
        return False


def case_load(ses, case):
    import pyvc  # noqa: F401
    from ceos_alos2 import array as A
    from ceos_alos2 import xarray as X
    from props.arraychain import World, make_key
    from pyvc import frame
    from pyvc.absobj import SymFile
    from pyvc.harness import explore_checked
    from pyvc.interp import Interp

    tc, k0kind, k1kind = case
    fn = ses.under_contract(X.LazilyIndexedWrapper._raw_indexing_method, "ceos_alos2.xarray.LazilyIndexedWrapper._raw_indexing_method")
    ses.under_contract(A.Array.__getitem__, "ceos_alos2.array.Array.__getitem__")
    ses.under_contract(A.read_chunk)
    shared = frame.shared_objects()
    w = World(tc)
    hyps = w.hyps()
    key0, v0 = make_key(k0kind, "row", hyps)
    key1, v1 = make_key(k1kind, "col", hyps)
    if k0kind == "int":
        hyps += [v0[0] >= 0, v0[0] < w.n]
    if k1kind == "int":
        hyps += [v1[0] >= 0, v1[0] < w.W]
    tag = f"{tc}/{k0kind},{k1kind}"

    def run(path, extra):
        it = Interp(path)
        arr = w.make_array(it)
        lock_log = []
        # the wrapper as the real constructor leaves it (every attribute the current source gives it), with a spy as its lock
        wrapper = object.__new__(X.LazilyIndexedWrapper)
        it.call(it.getattr(wrapper, "__init__"), [arr, LockSpy(lock_log)], {})
        extra.update(it=it, arr=arr, wrapper=wrapper, lock_log=lock_log, fs=arr.fs, n_effects=len(it.effects))
        n_before = len(it.io_log)
        res = it.call(it.getattr(wrapper, "_raw_indexing_method"), [(key0, key1)], {})
        extra["log"] = it.io_log[n_before:]
        return res

    partial = []

    def on_limit(r):
        # stores made before the path left the verified subset are facts about the code, whatever follows
        ex = r.extra
        if "wrapper" not in ex:
            return
        it, arr, wrapper = ex["it"], ex["arr"], ex["wrapper"]
        own = [e for e in it.effects[ex.get("n_effects", 0):] if e[1] is arr or e[1] is wrapper or e[1] is ex["fs"]]
        sh = frame.shared_state_writes(it, shared)
        if own or sh:
            partial.append((own, sh))
            ses.decided(f"{ses.prop}/load/{tag}/prefix{len(partial)}/no-store-to-shared-objects-before-leaving-the-verified-subset", False,
                        function=fn, kind="frame", backend="effect-log",
                        detail={"effects": [(e[0], type(e[1]).__name__, str(e[2])) for e in own][:4], "module_state": sh[:3]})

    ok = explore_checked(ses, f"{ses.prop}/load/{tag}", run, hyps, function=fn, timeout_ms=800, limit_group="load", on_limit=on_limit)
    for pi, r in enumerate(ok):
        ex = r.extra
        it, arr, wrapper = ex["it"], ex["arr"], ex["wrapper"]
        pid = f"{ses.prop}/load/{tag}/path{pi}"
        own = [e for e in it.effects[ex["n_effects"]:] if e[1] is arr or e[1] is wrapper or e[1] is ex["fs"] or e[1] is arr.chunk_offsets
               or e[1] is arr.byte_ranges]
        ses.decided(f"{pid}/no-store-to-the-array-wrapper-or-filesystem", not own, function=fn, kind="frame", backend="effect-log",
                    detail={"effects": [(e[0], type(e[1]).__name__, str(e[2])) for e in own][:4]})
        sh = frame.shared_state_writes(it, shared)
        ses.decided(f"{pid}/no-store-to-module-level-state", not sh, function=fn, kind="frame", backend="effect-log",
                    detail={"writes": sh[:3]})
        kinds = [e[0] for e in ex["log"]]
        opened = kinds.count("open")
        ses.decided(f"{pid}/handle-opened-and-closed-inside-the-call", opened == 1 and kinds[0] == "open" and kinds[-1] == "close",
                    function=fn, kind="frame", backend="io-log", detail={"log": kinds})
        files = [o for o in it.state_objects if isinstance(o, SymFile)]
        escaped = [k_ for k_, v in list(vars(arr).items()) + list(vars(wrapper).items()) if isinstance(v, SymFile)]
        ses.decided(f"{pid}/handle-does-not-escape", not escaped and not isinstance(r.value, SymFile) and all(f.closed for f in files),
                    function=fn, kind="frame", backend="effect-log", detail={"stored_in": escaped})
        ll = ex["lock_log"]
        ses.decided(f"{pid}/lock-acquired-once-and-released", [e[0] for e in ll] == ["acquire", "release"] and ll[0][1] == 1,
                    function=fn, kind="frame", backend="lock-log", detail={"lock_log": ll})


def run(ses):
    import inspect

    from ceos_alos2 import array as A
    from ceos_alos2 import xarray as X
    from pyvc.harness import run_cases

    from pyvc import frame as _frame

    _frame.purity_obligation(ses)  # a memo (lru_cache) anywhere in the package is state shared by all threads
    cases = [("IU2", k0, "slice_none") for k0 in KINDS] + ([("C*8", "slice_sym", "slice_sym")] if ses.tier == "thorough" else [])
    run_cases(ses, "props.c19", "case_load", cases)
    from native import arraycheck as ac

    ses.resolve_engine_limits("load", lambda: ac.check_concurrent_loads(seed=ses.seed),
                              bound_text="8 threads x 40 loads of overlapping selections of 3 lazily wrapped images and a pickled copy "
                                         "(sampled schedules of the real threads, not an enumeration)")
    # the lock is held around the backend access only (no second lock below it): call-graph scan of the load path
    fn = "ceos_alos2.xarray.LazilyIndexedWrapper._raw_indexing_method"
    src = inspect.getsource(A)
    ses.decided("C19/no-lock-acquired-below-the-wrapper", "Lock" not in src and "threading" not in src and "acquire(" not in src,
                function="ceos_alos2.array", kind="frame", backend="syntactic")
    # to_variable: one fresh lock per Array
    from xarray.backends.locks import SerializableLock

    from ceos_alos2.hierarchy import Variable

    arrs = []
    for i in range(2):
        a = object.__new__(A.Array)
        # two products with identical image names, shapes and chunking: only the filesystem differs
        for k_, v in dict(fs=("filesystem-of-product", i), url="IMG-HH-same-name", byte_ranges=[(0, 2)], shape=(1, 1), dtype="uint16", type_code="IU2",
                          records_per_chunk=1, chunk_offsets={0: {"offset": 0, "size": 2}}).items():
            object.__setattr__(a, k_, v)
        arrs.append(a)
    vs = [X.to_variable(Variable(["rows", "columns"], a, {})) for a in arrs]
    wraps = [v._data.array for v in vs]
    locks = [w_.lock for w_ in wraps]
    ses.decided("C19/to_variable/one-fresh-lock-per-array", all(isinstance(l, SerializableLock) for l in locks) and locks[0] is not locks[1]
                and wraps[0].array is arrs[0] and wraps[1].array is arrs[1], function="ceos_alos2.xarray.to_variable", kind="frame",
                backend="finite-exhaustive")
    fields = {f.name for f in __import__("dataclasses").fields(A.Array)}
    ses.decided("C19/array-has-no-handle-field(pickled-copies-are-handle-free)",
                fields == {"fs", "url", "byte_ranges", "shape", "dtype", "type_code", "records_per_chunk", "chunk_offsets"},
                function="ceos_alos2.array.Array", kind="frame", backend="syntactic", detail={"fields": sorted(fields)})
    ses.trust("pyvc engine and its write-effect / I/O / lock logs", "fsspec: handles returned by distinct open() calls are "
              "independent (T7)", "race-freedom theorem: disjoint or lock-protected footprints => interleavings equal a serial "
              "execution (T10, not mechanised)")
    ses.assume("no schedule is enumerated by this family: violations are reported without a failing interleaving")
