"""C04 SAR leader metadata equals the field values stored in the leader file — DESIGN.md §4/C04."""
from props import records

TRUST = ["pyvc engine (AST interpreter of the real sources, VC generation); z3/cvc5",
         "construct combinators and atomic codecs as modelled in pyvc.layout (Struct = sequential, Array(count), "
         "PaddedString = fixed width ASCII, Int*ub big-endian, Tell/Seek/Computed) — T3",
         "toolz / builtins executed natively on concrete structure, axiomatised on symbolic sequences (pyvc.models) — T4",
         "Python int()/float()/str.strip()/strptime/isoformat and numpy datetime64/timedelta64 as uninterpreted or "
         "integer-arithmetic functions (pyvc.ops) — T2/T5",
         "specification tables spec/tables/*.json: authored from the pinned layout, cross-checked against the CEOS "
         "record lengths and the anchor positions in spec/anchors.json — T8"]


def run(ses):
    from pyvc import frame as _frame

    _frame.purity_obligation(ses)
    records.check_unit(ses, "leader", ["table", "frame", "wf"])
    from props import analyses

    analyses.bounded_tables(ses, ('leader',), 12 if ses.tier == "quick" else 300)
    ses.trust(*TRUST)
