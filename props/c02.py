"""C02 Indexing equivalence — see DESIGN.md §4/C02."""
from pyvc.harness import run_cases

CASES_QUICK = [(tc, k0, k1) for tc in ("IU2",) for k0 in ("int", "slice_sym", "slice_none") for k1 in ("int", "slice_sym", "slice_none")]
CASES_THOROUGH = [(tc, k0, k1) for tc in ("IU2", "C*8") for k0 in ("int", "slice_sym", "slice_none") for k1 in ("int", "slice_sym", "slice_none")]


def run(ses):
    cases = CASES_QUICK if ses.tier == "quick" else CASES_THOROUGH
    run_cases(ses, "props.arraychain", "case_getitem", cases)
