"""C02 Indexing equivalence — see DESIGN.md §4/C02.

Deductive part: Array.__getitem__ ≡ NumPy indexing of the decoded matrix for every backend key the BASIC adapter
can send (int in range; slice with arbitrary start/stop and positive step), all n, W, records_per_chunk.
Bounded part (labelled): the xarray adapter contract (T6) and the end-to-end statement on small images.
"""
from pyvc.harness import run_cases

KINDS = ("int", "slice_sym", "slice_none")
CASES_QUICK = [("IU2", k0, k1) for k0 in KINDS for k1 in KINDS]
CASES_THOROUGH = [(tc, k0, k1) for tc in ("IU2", "C*8") for k0 in KINDS for k1 in KINDS]


def run(ses):
    from props import arraychain

    cases = CASES_QUICK if ses.tier == "quick" else CASES_THOROUGH
    run_cases(ses, "props.arraychain", "case_getitem", cases)
    from props import arraychain as _ac

    _ac.resolve_limits(ses)
    arraychain.trusted(ses)
    arraychain.bounded_getitem(ses, "C02")
    arraychain.bounded_xarray_indexing(ses, "C02")
