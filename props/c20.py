"""C20 Blank fields mean 'missing' and padding never influences the result — DESIGN.md §4/C20."""
from props import records
from props.c04 import TRUST

UNITS = ("leader", "volume", "image10s", "image11s")


def run(ses):
    records.check_units(ses, UNITS, ["deps", "blank", "wf", "table"])  # table: blank => absent / NaN / -1 exactly as specified, nothing derived
    ses.trust(*TRUST)
    ses.assume("spare / blank / reserved areas hold content of their declared character class (ASCII text, numeric text "
               "for numeric spares): decoding them does not raise",
               "float('nan') is NaN; NaN * factor is NaN (IEEE-754, z3 FloatingPoint)")
