"""C20 Blank fields mean 'missing' and padding never influences the result — DESIGN.md §4/C20."""
from props import records
from props.c04 import TRUST

UNITS = ("leader", "volume", "image10s", "image11s")


def run(ses):
    records.check_units(ses, UNITS, ["deps", "blank", "wf", "table"])  # table: blank => absent / NaN / -1 exactly as specified, nothing derived
    # bounded, on the real readers: files whose spare / blank / reserved areas hold random content of their DECLARED class
    # (pinned declarations: raw bytes 0..255 where the format says bytes, text where it says text) decode to the contract's
    # values, which mention no spare byte - and decoding them does not raise
    from props import analyses

    analyses.bounded_tables(ses, UNITS, 16 if ses.tier == "quick" else 300)
    ses.trust(*TRUST)
    ses.assume("spare / blank / reserved areas hold content of their declared character class (ASCII text, numeric text "
               "for numeric spares): decoding them does not raise",
               "float('nan') is NaN; NaN * factor is NaN (IEEE-754, z3 FloatingPoint)")
