"""C11 Reads are bounded and grouped — DESIGN.md §4/C11: postconditions over the ghost I/O log.

Load time:  Array.__getitem__ (interpreted for symbolic n, chunk size, byte ranges and every int / slice row key) issues
one open of its own url, then per touched chunk exactly one seek to the chunk's offset and one read of the chunk's size,
confined to the chunk's rows' bytes and to the file, chunk numbers strictly increasing, every chunk read is the chunk of a
selected row (arraychain.io_log_obligations).
Open time:  read_metadata reads 720 bytes, then ceil(n/rpc) chunk reads front to back at 720 + R*rpc*j, no seek.
Array.__post_init__ establishes the class invariant the load-time proof assumes (chunk span = [min start, max stop]).
"""
from props import records
from props.c04 import TRUST
from pyvc.harness import run_cases

KINDS = ("int", "slice_sym", "slice_none")


def run(ses):
    from props import arraychain

    cases = [("IU2", k0, "slice_none") for k0 in KINDS]
    run_cases(ses, "props.arraychain", "case_getitem", cases)
    run_cases(ses, "props.arraychain", "case_post_init", [("IU2",)])
    from props import arraychain as _ac

    _ac.resolve_limits(ses)
    for unit in (("image11q",) if ses.tier == "quick" else ("image10q", "image11q")):
        records.check_unit(ses, unit, ["iolog"])
    arraychain.trusted(ses)
    arraychain.bounded_getitem(ses, "C11")
    ses.trust(*TRUST[:3])
