"""Image units: sar_image.io.read_metadata(f, rpc) followed by sar_image.metadata.transform_metadata, interpreted on
a symbolic image file (n records of length R, record type 10 or 11, rpc symbolic).

Well-formedness precondition of the file (the property's "well-formed CEOS image file"), stated over the anchor
positions of the image file descriptor that are known independently of the code:
   n := int(bytes 181-186)  >= 1        (number of SAR data records)
   R := int(bytes 187-192)  >= 13       (SAR data record length)
   |file| = 720 + n*R
   every data record's preamble: record_length = R, record_type = 10 | 11 (the unit's type)
"""
from __future__ import annotations

import z3

from pyvc import ops
from pyvc.absobj import SymFS
from pyvc.core import Sym
from pyvc.interp import Interp
from pyvc.models import IS_INT_TEXT
from pyvc.ops import PY_INT, STRIP, TXT, IS_EMPTY, floordiv_axioms

FID = 100


def header_int(off, width):
    t = STRIP(TXT(z3.IntVal(FID), z3.IntVal(off), z3.IntVal(width)))
    return z3.If(IS_EMPTY(t), z3.IntVal(-1), PY_INT(t))


N = header_int(180, 6)
R = header_int(186, 6)
RPC = z3.Int("rpc")
FSIZE = z3.Int(f"size_of_file_{FID}")


def header_text(off, width):
    return STRIP(TXT(z3.IntVal(FID), z3.IntVal(off), z3.IntVal(width)))


def hyps(name):
    single = [RPC >= N] if name.endswith("s") else []   # image10s / image11s: one chunk (records_per_chunk >= lines)
    if name.endswith("q"):
        # quick variant: the optional header fields are filled and the sample type matches the record type; the header
        # attributes are extracted from the descriptor alone (extract_attrs(header)), independently of the chunking
        for off, w in ((440, 8), (448, 4), (452, 4), (456, 4)):
            t = header_text(off, w)
            single += [z3.Not(IS_EMPTY(t)), PY_INT(t) != -1]
        single.append(header_text(428, 4) == ops.str_const("C*8" if name.startswith("image10") else "IU2"))
    return single + [RPC >= 1, N >= 1, R >= 13, FSIZE == 720 + N * R, FSIZE >= 720 + R] + floordiv_axioms()


def _unit_image(record_type, single=False):
    def unit(path, extra):
        extra["single_chunk"] = single
        from ceos_alos2.sar_image import io as IO
        from ceos_alos2.sar_image import metadata as M

        it = Interp(path)
        it.assume_available = not extra.get("truncation", False)
        it.elem_size_hint = R

        def on_leaf(pth, v, off):
            if isinstance(off, int) and off < 720:
                return  # the file descriptor's own preamble
            if pth[-1:] == ("record_length",):
                path.assume(v.term == R)
            elif pth[-1:] == ("record_type",):
                path.assume(v.term == record_type)

        it.on_leaf = on_leaf
        fs = SymFS()
        f = fs.sym_method(it, "open", ["IMG"], {"mode": "rb"})
        # loop invariant of the chunked metadata pass: before chunk j the file position is 720 + R*min(rpc*j, n)
        if not extra.get("single_chunk"):
            # prefix sums of the chunk sizes (records before chunk g): min(rpc*g, n)
            path.prefix_closed_forms = [lambda g: z3.If(RPC * g <= N, RPC * g, N)]
            f.position_invariant = lambda j: 720 + R * z3.If(RPC * j <= N, RPC * j, N)
        extra["it"] = it
        header, metadata = it.call(it.shim(IO.read_metadata), [f, Sym(RPC, int)], {})
        group, am = it.call(it.shim(M.transform_metadata), [header, metadata], {})
        extra["io_log"] = it.io_log
        return {"group": group, "array_metadata": am}

    return unit


def register(UNITS):
    UNITS["image10s"] = (_unit_image(10, True), "ceos_alos2.sar_image.io.read_metadata+metadata.transform_metadata[record type 10, one chunk]")
    UNITS["image11s"] = (_unit_image(11, True), "ceos_alos2.sar_image.io.read_metadata+metadata.transform_metadata[record type 11, one chunk]")
    UNITS["image10q"] = (_unit_image(10), "ceos_alos2.sar_image.io.read_metadata+metadata.transform_metadata[record type 10]")
    UNITS["image11q"] = (_unit_image(11), "ceos_alos2.sar_image.io.read_metadata+metadata.transform_metadata[record type 11]")
    UNITS["image10"] = (_unit_image(10), "ceos_alos2.sar_image.io.read_metadata+metadata.transform_metadata[record type 10]")
    UNITS["image11"] = (_unit_image(11), "ceos_alos2.sar_image.io.read_metadata+metadata.transform_metadata[record type 11]")


def functions(unit, common):
    import ceos_alos2.sar_image.io as IO
    import ceos_alos2.sar_image.metadata as M
    from ceos_alos2.common import record_preamble
    from ceos_alos2.sar_image.file_descriptor import file_descriptor_record
    from ceos_alos2.sar_image.processed_data import processed_data_record
    from ceos_alos2.sar_image.signal_data import signal_data_record

    fns = [IO.read_metadata, IO.read_file_descriptor, IO.parse_chunk, IO.adjust_offsets, IO._adjust_offset,
           M.transform_metadata, M.transform_line_metadata, M.extract_attrs, M.extract_shape, M.extract_format_type,
           M.apply_overrides, M.deduplicate_attrs]
    decls = [("ceos_alos2.sar_image.file_descriptor.file_descriptor_record", file_descriptor_record,
              "ceos_alos2/sar_image/file_descriptor.py"),
             ("ceos_alos2.common.record_preamble", record_preamble, "ceos_alos2/common.py"),
             ("ceos_alos2.sar_image.signal_data.signal_data_record", signal_data_record, "ceos_alos2/sar_image/signal_data.py")
             if unit.startswith("image10") else
             ("ceos_alos2.sar_image.processed_data.processed_data_record", processed_data_record,
              "ceos_alos2/sar_image/processed_data.py")]
    return fns + common, decls
