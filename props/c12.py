"""C12 Well-typed tree — DESIGN.md §4/C12: sort discipline on the symbolic result of every reader unit, and the
backend wrapper's dtype / shape contract."""
import numpy as np

from props import records
from props.c04 import TRUST


def run(ses):
    records.check_units(ses, ("leader", "volume", "image10s", "image11s"), ["sorts"])
    wrapper_obligations(ses)
    # declared dtype / shape == dtype / shape of the loaded selection (all row selections incl. empty, both sample types)
    from pyvc.harness import run_cases

    run_cases(ses, "props.arraychain", "case_getitem", [("IU2", "slice_sym", "slice_none"), ("C*8", "slice_sym", "slice_none"),
                                                        # an integer on either axis drops exactly that axis, whatever the other key
                                                        ("IU2", "int", "slice_sym"), ("IU2", "slice_sym", "int"), ("IU2", "int", "int"),
                                                        ("C*8", "int", "slice_sym")])
    from props import arraychain as _ac

    _ac.resolve_limits(ses)
    ses.trust(*TRUST[:4], "xarray computes nbytes / repr from `.dtype` / `.shape` of a BackendArray (T6)")


def wrapper_obligations(ses):
    """LazilyIndexedWrapper.__init__ interpreted on an Array for each entry of the image dtype table: the advertised
    dtype is an np.dtype instance equal (up to byte order) to what parse_data yields, the shape is the Array's"""
    import pyvc  # noqa: F401
    from ceos_alos2 import array as A
    from ceos_alos2 import xarray as X
    from ceos_alos2.sar_image import metadata as M
    from pyvc.core import Path
    from pyvc.interp import Interp

    fn = ses.under_contract(X.LazilyIndexedWrapper.__init__, "ceos_alos2.xarray.LazilyIndexedWrapper.__init__")
    ses.under_contract(X.to_variable)
    ses.under_contract(M.transform_metadata)
    for type_code, dt in M.dtypes.items():
        arr = object.__new__(A.Array)
        for k, v in dict(fs=None, url="x", byte_ranges=[(0, 8)], shape=(1, 8 // A.raw_dtypes[type_code].itemsize),
                         dtype=str(dt), type_code=type_code, records_per_chunk=1, chunk_offsets={}).items():
            object.__setattr__(arr, k, v)
        it = Interp(Path([]))
        w = object.__new__(X.LazilyIndexedWrapper)
        it.call(it.getattr(w, "__init__"), [arr, None], {})
        decoded = A.parse_data(bytes(8), type_code)
        ses.decided(f"C12/wrapper/{type_code}/dtype-is-numpy-dtype", isinstance(w.dtype, np.dtype), function=fn,
                    detail={"dtype": repr(w.dtype)})
        ses.decided(f"C12/wrapper/{type_code}/dtype-matches-decoded-samples",
                    isinstance(w.dtype, np.dtype) and w.dtype.kind == decoded.dtype.kind and w.dtype.itemsize == decoded.dtype.itemsize,
                    function=fn, detail={"advertised": str(w.dtype), "decoded": str(decoded.dtype)})
        ses.decided(f"C12/wrapper/{type_code}/shape-copied", tuple(w.shape) == tuple(arr.shape), function=fn)
        ses.decided(f"C12/array-metadata/{type_code}/dtype-string-names-a-dtype", np.dtype(str(dt)) == dt, function=fn)
