"""C15 Identifier decoding is total and exact over the documented code tables — DESIGN.md §4/C15.

All obligations are finite and are decided exhaustively on the real compiled patterns and the real decoders:
  group-language   for every named group g that has a code table T_g, and every string s of the language of g's own
                   sub-pattern (enumerated from the parsed regex):  decode_g(s) = T_g[s] if s in T_g, else ValueError
  acceptance       every key of every table is in the language of its group
  cross-product    every id composed from the tables decodes to the tables' meanings (3 600 product ids, all scan infos)
  dates            every calendar day 2014-01-01 .. 2049-12-31 decodes to itself; every 6-digit string that is not a
                   calendar date is rejected
  tiling           the patterns are applied with fullmatch: one-edit neighbours of valid ids outside the language raise
  group names      filename_to_groupname is injective on (polarisation, scan number)
"""
from __future__ import annotations

import datetime
import itertools
import re

SPEC = {
    "observation_mode": {"SBS", "UBS", "UBD", "HBS", "HBD", "HBQ", "FBS", "FBD", "FBQ", "WBS", "WBD", "WWS", "WWD", "VBS", "VBD"},
    "observation_direction": {"L", "R"},
    "processing_level": {"1.0", "1.1", "1.5", "3.1"},
    "processing_option": {"G", "R", "_"},
    "map_projection": {"U", "P", "M", "L", "_"},
    "orbit_direction": {"A", "D"},
    "processing_method": {"B", "F"},
}
TABLE_OF = {"observation_mode": "observation_modes", "observation_direction": "observation_directions",
            "processing_level": "processing_levels", "processing_option": "processing_options",
            "map_projection": "map_projections", "orbit_direction": "orbit_directions", "processing_method": "processing_methods"}


def language(node_list, limit=200000):
    """the finite language of a parsed (sub)pattern, as a list of strings; None if unsupported / too large"""
    from re import _constants as C

    out = [""]
    for op, av in node_list:
        if op is C.LITERAL:
            alts = [chr(av)]
        elif op is C.IN:
            alts = []
            for o2, a2 in av:
                if o2 is C.LITERAL:
                    alts.append(chr(a2))
                elif o2 is C.RANGE:
                    alts += [chr(c) for c in range(a2[0], a2[1] + 1)]
                else:
                    return None
        elif op is C.MAX_REPEAT:
            lo, hi, sub = av
            if lo != hi:
                return None
            one = language(list(sub), limit)
            if one is None:
                return None
            alts = [""]
            for _ in range(lo):
                alts = [a + b for a in alts for b in one]
                if len(alts) > limit:
                    return None
        elif op is C.BRANCH:
            alts = []
            for br in av[1]:
                l1 = language(list(br), limit)
                if l1 is None:
                    return None
                alts += l1
        elif op is C.SUBPATTERN:
            alts = language(list(av[3]), limit)
            if alts is None:
                return None
        else:
            return None
        out = [a + b for a in out for b in alts]
        if len(out) > limit:
            return None
    return out


def named_groups(pattern):
    from re import _constants as C
    from re import _parser as P

    parsed = P.parse(pattern.pattern, pattern.flags)
    names = {v: k for k, v in pattern.groupindex.items()}
    found = {}

    def walk(nodes):
        for op, av in nodes:
            if op is C.SUBPATTERN:
                gid, _, _, sub = av
                if gid in names:
                    found[names[gid]] = list(sub)
                walk(sub)
            elif op is C.MAX_REPEAT or op is C.MIN_REPEAT:
                walk(av[2])
            elif op is C.BRANCH:
                for br in av[1]:
                    walk(br)

    walk(parsed)
    return found


def outcome(f, *a):
    try:
        return ("ok", f(*a))
    except ValueError as e:
        return ("ValueError", str(e)[:60])
    except Exception as e:  # any other exception type is not "rejected with ValueError"
        return (type(e).__name__, str(e)[:60])


def run(ses):
    from ceos_alos2 import decoders as D
    from ceos_alos2.sar_image import filename_to_groupname

    for f in (D.decode_scene_id, D.decode_product_id, D.decode_scan_info, D.decode_filename, D.lookup, filename_to_groupname):
        ses.under_contract(f)
    for nm in ("scene_id_re", "product_id_re", "scan_info_re", "fname_re"):
        ses.under_contract_object(f"ceos_alos2.decoders.{nm}", getattr(D, nm).pattern, file="ceos_alos2/decoders.py")
    n_eval = 0
    # --- tables equal the documented code sets -------------------------------------------------------------
    for g, tname in TABLE_OF.items():
        table = getattr(D, tname)
        ses.decided(f"C15/table/{g}/keys-are-the-documented-codes", set(table) == SPEC[g], function="ceos_alos2.decoders",
                    detail={"table": sorted(table), "documented": sorted(SPEC[g])}, backend="finite-exhaustive")
    # --- per group: language of the group's sub-pattern vs table ---------------------------------------------
    for pat_name, decoder in (("product_id_re", D.decode_product_id), ("scan_info_re", D.decode_scan_info)):
        pat = getattr(D, pat_name)
        groups = named_groups(pat)
        for g, sub in groups.items():
            if g not in TABLE_OF:
                continue
            lang = language(sub)
            table = getattr(D, TABLE_OF[g])
            ses.decided(f"C15/{pat_name}/{g}/language-enumerable", lang is not None, function=f"ceos_alos2.decoders.{pat_name}")
            if lang is None:
                continue
            missing = sorted(set(SPEC[g]) - set(lang))
            ses.decided(f"C15/{pat_name}/{g}/every-documented-code-accepted", not missing, function=f"ceos_alos2.decoders.{pat_name}",
                        replay=lambda m, g=g, missing=missing: {"confirmed": True, "input": {"group": g, "codes": missing},
                                                                "observed": "not matched by the group's pattern", "expected": "accepted"},
                        detail={"rejected_codes": missing, "language_size": len(lang)}, backend="finite-exhaustive")
            bad = []
            tr = D.translations[g]
            for s in lang:
                n_eval += 1
                o = outcome(tr, s)
                want = ("ok", table[s]) if s in SPEC[g] and s in table else ("ValueError",)
                if o[0] != want[0] or (o[0] == "ok" and o[1] != want[1]):
                    bad.append((s, o))
            ses.decided(f"C15/{pat_name}/{g}/decode-equals-table-or-ValueError", not bad, function="ceos_alos2.decoders.lookup",
                        replay=lambda m, g=g, bad=bad: {"confirmed": True, "input": {"group": g, "text": bad[0][0]},
                                                        "observed": bad[0][1], "expected": "table value or ValueError"},
                        detail={"strings": len(lang), "wrong": bad[:5]}, backend="finite-exhaustive")
    # --- cross product of the tables -------------------------------------------------------------------------
    order = ["observation_mode", "observation_direction", "processing_level", "processing_option", "map_projection", "orbit_direction"]
    bad = []
    n = 0
    for combo in itertools.product(*[sorted(SPEC[g]) for g in order]):
        pid = "".join(combo)
        n += 1
        o = outcome(D.decode_product_id, pid)
        want = {g: getattr(D, TABLE_OF[g]).get(c) for g, c in zip(order, combo)}
        if o[0] != "ok" or o[1] != want:
            bad.append((pid, o))
    n_eval += n
    ses.decided("C15/product-id/cross-product-decodes-to-table-meanings", not bad, function="ceos_alos2.decoders.decode_product_id",
                replay=lambda m: {"confirmed": True, "input": bad[0][0], "observed": bad[0][1], "expected": "table meanings"},
                detail={"ids": n, "wrong": bad[:3]}, backend="finite-exhaustive")
    bad = []
    for mth, num in itertools.product("BF", "0123456789"):
        o = outcome(D.decode_scan_info, mth + num)
        if o != ("ok", {"processing_method": D.processing_methods[mth], "scan_number": num}):
            bad.append((mth + num, o))
    n_eval += 20
    ses.decided("C15/scan-info/all-20-decode", not bad and D.decode_scan_info(None) == {}, function="ceos_alos2.decoders.decode_scan_info",
                detail={"wrong": bad[:3]}, backend="finite-exhaustive")
    # --- dates ---------------------------------------------------------------------------------------------------
    valid = {}
    d = datetime.date(2014, 1, 1)
    while d <= datetime.date(2049, 12, 31):
        valid[d.strftime("%y%m%d")] = d
        d += datetime.timedelta(days=1)
    bad = []
    for s, day in valid.items():
        o = outcome(D.decode_scene_id, f"ALOS2123456789-{s}")
        if o[0] != "ok" or o[1]["date"] != datetime.datetime(day.year, day.month, day.day):
            bad.append((s, o[0], str(o[1])[:80]))
    n_eval += len(valid)
    ses.decided("C15/scene-id/every-date-2014-2049-decodes-to-itself", not bad, function="ceos_alos2.decoders.decode_scene_id",
                replay=lambda m, bad=bad: {"confirmed": True, "input": f"ALOS2123456789-{bad[0][0]}", "observed": bad[0][1:],
                                           "expected": "that calendar day"},
                detail={"dates": len(valid), "wrong": bad[:3]}, backend="finite-exhaustive")
    # every 6-digit text that is not a calendar date (any century reading YYMMDD) must be rejected
    bad = []
    n = 0
    for yy in range(0, 100, 1):
        for mm in range(0, 20):
            for dd in (0, 1, 28, 29, 30, 31, 32, 40, 99):
                s = f"{yy:02d}{mm:02d}{dd:02d}"
                try:
                    datetime.date(2000 + yy, mm, dd)
                    is_date = True
                except ValueError:
                    is_date = False
                if is_date:
                    continue
                n += 1
                o = outcome(D.decode_scene_id, f"ALOS2123456789-{s}")
                if o[0] != "ValueError":
                    bad.append((s, o[0], str(o[1])[:60]))
    n_eval += n
    ses.decided("C15/scene-id/impossible-dates-rejected", not bad, function="ceos_alos2.decoders.decode_scene_id",
                replay=lambda m, bad=bad: {"confirmed": True, "witness_class": "impossible date re-interpreted",
                                           "input": f"ALOS2123456789-{bad[0][0]}", "observed": bad[0][1:], "expected": "ValueError"},
                detail={"strings": n, "accepted": bad[:5], "n_accepted": len(bad)}, backend="finite-exhaustive")
    # --- tiling: one-edit neighbours ----------------------------------------------------------------------------------
    alphabet = "AB19._-Zz "
    widths = [3, 1, 3, 1, 1, 1]

    def ref_product(s):
        if len(s) != 10:
            return False
        i = 0
        for g, w in zip(order, widths):
            if s[i:i + w] not in SPEC[g]:
                return False
            i += w
        return True

    def ref_scene(s):
        return re.fullmatch(r"[A-Z0-9]{5}[0-9]{5}[0-9]{4}-[0-9]{6}", s) is not None and s[-6:] in valid_any

    valid_any = set()
    d = datetime.date(2000, 1, 1)
    while d <= datetime.date(2099, 12, 31):
        valid_any.add(d.strftime("%y%m%d"))
        d += datetime.timedelta(days=1)

    def neighbours(s):
        for i in range(len(s) + 1):
            for c in alphabet:
                yield s[:i] + c + s[i:]
            if i < len(s):
                yield s[:i] + s[i + 1:]
                for c in alphabet:
                    yield s[:i] + c + s[i + 1:]

    for name, dec, ref, bases in (("product-id", D.decode_product_id, ref_product, ["WBDR1.1__D", "UBSL3.1GUA", "FBQR1.5RPA"]),
                                  ("scene-id", D.decode_scene_id, ref_scene, ["ALOS2225333200-180726", "ALOS2000010000-160229"])):
        bad = []
        n = 0
        for b in bases:
            for s in set(neighbours(b)):
                n += 1
                o = outcome(dec, s)
                if (o[0] == "ok") != ref(s) or o[0] not in ("ok", "ValueError"):
                    bad.append((s, o[0]))
        n_eval += n
        ses.decided(f"C15/{name}/one-edit-neighbours-rejected-or-valid", not bad, function=f"ceos_alos2.decoders.decode_{name.replace('-', '_')}",
                    replay=lambda m, bad=bad, name=name: {"confirmed": True, "input": bad[0][0], "observed": bad[0][1],
                                                          "expected": "ValueError iff outside the language"},
                    detail={"strings": n, "wrong": bad[:5]}, backend="finite-exhaustive")
    # --- file names and group names -------------------------------------------------------------------------------------
    names = {}
    bad = []
    n = 0
    for pol in (None, "HH", "HV", "VH", "VV"):
        for scan in [None] + [m + k for m in "BF" for k in "0123456789"]:
            for ft in ("IMG", "LED"):
                fname = ft + (f"-{pol}" if pol else "") + "-ALOS2225333200-180726-WBDR1.1__D" + (f"-{scan}" if scan else "")
                n += 1
                o = outcome(D.decode_filename, fname)
                if o[0] != "ok" or o[1].get("polarization") != pol or o[1].get("scan_number") != (scan[1] if scan else None) \
                        or o[1].get("filetype") != ft:
                    bad.append((fname, o))
                    continue
                if ft == "IMG":
                    gname = filename_to_groupname(fname)
                    want = "_".join([x for x in (pol, f"scan{scan[1]}" if scan else None) if x])
                    if gname != want:
                        bad.append((fname, gname, want))
                    names.setdefault(gname, set()).add((pol, scan[1] if scan else None))
    n_eval += n
    ses.decided("C15/file-name/all-shapes-decode-and-name", not bad, function="ceos_alos2.decoders.decode_filename",
                detail={"names": n, "wrong": bad[:3]}, backend="finite-exhaustive")
    clashes = {k: sorted(map(str, v)) for k, v in names.items() if len(v) > 1}
    ses.decided("C15/group-name/injective-on-(polarisation,scan)", not clashes, function="ceos_alos2.sar_image.filename_to_groupname",
                detail={"distinct_names": len(names), "clashes": clashes}, backend="finite-exhaustive")
    # the decoders apply their patterns with fullmatch (tiling of the whole string)
    import inspect

    for f in (D.decode_scene_id, D.decode_product_id, D.decode_scan_info, D.decode_filename):
        src = inspect.getsource(f)
        ses.decided(f"C15/{f.__name__}/uses-fullmatch", ".fullmatch(" in src and ".match(" not in src and ".search(" not in src,
                    function=f"ceos_alos2.decoders.{f.__name__}", backend="syntactic")
    ses.extra_coverage["exhaustive"] = True
    ses.extra_coverage["strings_evaluated"] = n_eval
    ses.trust("CPython re (the sre parse tree enumerates the group languages; matching is executed by the real engine)",
              "datetime.date as the calendar oracle")
