"""Bounded end-to-end stand-ins for the cache properties (C07, C09, C10) on synthetic products with the real code,
real xarray, real files. Labelled bounded; never counted as proved."""
from __future__ import annotations

import hashlib
import itertools
import os
import pathlib
import shutil
import tempfile

import numpy as np


def _mk_local_product(k=2, level="1.5", seed=0):
    import fsspec

    from native import e2e

    d = tempfile.mkdtemp(prefix="ceos_prod_")
    fs = fsspec.filesystem("file")
    _, images, names = e2e.make_product(d, k=k, level=level, seed=seed, fs=fs)
    return d, images, names


def _listing(d):
    out = {}
    for root, _, files in os.walk(d):
        for f in files:
            p = os.path.join(root, f)
            out[os.path.relpath(p, d)] = hashlib.sha256(open(p, "rb").read()).hexdigest()
    return out


def _open(path, **opts):
    from ceos_alos2.xarray import open_alos2

    return open_alos2(path, backend_options=dict(opts))


def transparency(ses, prop):
    """C07: cached open == uncached open for every producer / location / rpc pair, on a local product; memory filesystem"""
    from ceos_alos2.sar_image import cli
    from native import e2e

    cache_root = e2e.isolate_cache()
    n = 0
    bad = []
    for level in ("1.5", "1.1"):
        d, images, names = _mk_local_product(k=2, level=level, seed=ses.seed)
        try:
            ref = {r: e2e.canon(_open(d, use_cache=False, records_per_chunk=r)) for r in (1, 3, 1000)}
            for producer, rpc_w, rpc_r in itertools.product(("option", "cli-adjacent", "both"), (1, 1000), (1, 3, 1000)):
                shutil.rmtree(cache_root, ignore_errors=True)
                for f in os.listdir(d):
                    if f.endswith(".index"):
                        os.unlink(os.path.join(d, f))
                if producer in ("option", "both"):
                    _open(d, use_cache=False, create_cache=True, records_per_chunk=rpc_w)
                if producer in ("cli-adjacent", "both"):
                    for nm in names[2:-1]:
                        cli.create_cache(pathlib.Path(d) / nm, None, records_per_chunk=rpc_w)
                n += 1
                got = e2e.canon(_open(d, use_cache=True, records_per_chunk=rpc_r))
                diff = e2e.first_difference(got, ref[rpc_r])
                if diff:
                    bad.append((level, producer, rpc_w, rpc_r, diff))
                # file:// URL of the same product
                n += 1
                got = e2e.canon(_open("file://" + d, use_cache=True, records_per_chunk=rpc_r))
                diff = e2e.first_difference(got, ref[rpc_r])
                if diff:
                    bad.append((level, producer + "+file-url", rpc_w, rpc_r, diff))
        finally:
            shutil.rmtree(d, ignore_errors=True)
    ses.bounded_check(f"{prop}/bounded/cached-open-equals-uncached-open", not bad,
                      bound=f"2 levels x 3 producers x 2 write-time rpc x 3 read-time rpc x (path, file:// URL) on a local product ({n} opens)",
                      function="ceos_alos2.xarray.open_alos2", evaluations=n,
                      replay=lambda m: {"confirmed": True, "input": str(bad[0][:4]), "observed": bad[0][4], "expected": "identical trees"},
                      detail={"wrong": str(bad[:2])[:400]})
    # non-local filesystem
    shutil.rmtree(cache_root, ignore_errors=True)
    fs, images, names = e2e.make_product("/c07mem", k=1, level="1.5", seed=ses.seed)
    _open("memory:///c07mem", use_cache=False, create_cache=True, records_per_chunk=2)
    t_ref = _open("memory:///c07mem", use_cache=False, records_per_chunk=2)
    t = _open("memory:///c07mem", use_cache=True, records_per_chunk=2)
    nm = list(t["imagery"].children)[0]
    try:
        same = np.array_equal(t[f"imagery/{nm}/data"].values, t_ref[f"imagery/{nm}/data"].values)
        observed = "pixels equal" if same else "pixels differ"
    except Exception as e:  # noqa: BLE001
        same, observed = False, f"{type(e).__name__}: {e}"[:160]
    ses.bounded_check(f"{prop}/bounded/cached-open-on-memory-filesystem", same, bound="one level 1.5 product on fsspec's memory filesystem",
                      function="ceos_alos2.sar_image.caching.encoders.encode_array", evaluations=1,
                      replay=lambda m: {"confirmed": True, "witness_class": "non-local filesystem",
                                        "input": "memory:///c07mem, create_cache=True then use_cache=True, load imagery/*/data",
                                        "observed": observed, "expected": "pixels of the image file"})


def torn_caches(ses, prop):
    """C09: every sampled prefix of the index document at both locations; then create_cache repairs it"""
    from ceos_alos2.sar_image import caching
    from native import e2e

    cache_root = e2e.isolate_cache()
    d, images, names = _mk_local_product(k=1, level="1.5", seed=ses.seed)
    n = 0
    bad = []
    bounds = []
    try:
        # byte prefixes (the crash point is a byte offset of the write). Level 1.5 and level 1.1: the latter's index holds
        # non-ASCII unit strings, whose bytes must not be split into undecodable text
        for level in ("1.5", "1.1"):
            if level == "1.1":
                shutil.rmtree(d, ignore_errors=True)
                shutil.rmtree(cache_root, ignore_errors=True)
                d, images, names = _mk_local_product(k=1, level="1.1", seed=ses.seed)
            ref = e2e.canon(_open(d, use_cache=False, records_per_chunk=3))
            _open(d, use_cache=False, create_cache=True, records_per_chunk=3)
            idx = [p for p in pathlib.Path(cache_root).rglob("*.index")]
            assert len(idx) == 1, idx
            raw = idx[0].read_bytes()
            doc = raw.decode()
            L = len(raw)
            step = max(1, L // (1500 if ses.tier == "thorough" else 120 if level == "1.5" else 40))  # every prefix would be ~10^5 opens
            special = [i + o for i, b in enumerate(raw) if b >= 0x80 for o in (0, 1)][:200]  # inside multi-byte characters
            cuts = sorted(set(list(range(0, min(L, 60))) + list(range(max(0, L - 60), L + 1)) + list(range(0, L + 1, step)) + special))
            bounds.append(f"level {level}: {len(cuts)} byte-prefix lengths of a {L}-byte index ({len(special)} inside multi-byte characters)")
            adjacent = pathlib.Path(d) / (names[2] + ".index")
            for where in ("local", "adjacent"):
                for c in cuts:
                    n += 1
                    if where == "local":
                        idx[0].write_bytes(raw[:c])
                        adjacent.unlink(missing_ok=True)
                    else:
                        idx[0].unlink(missing_ok=True)
                        adjacent.write_bytes(raw[:c])
                    try:
                        got = e2e.canon(_open(d, records_per_chunk=3))
                        diff = e2e.first_difference(got, ref)
                    except BaseException as e:  # noqa: BLE001
                        diff = f"raised {type(e).__name__}: {e}"[:160]
                    if diff:
                        bad.append((level, where, c, diff))
                        if len(bad) > 5:
                            break
            adjacent.unlink(missing_ok=True)
            idx[0].parent.mkdir(parents=True, exist_ok=True)
            idx[0].write_bytes(raw)
        ses.bounded_check(f"{prop}/bounded/default-open-with-torn-index", not bad,
                          bound="; ".join(bounds) + f"; all within 60 of either end, every k-th otherwise; user cache dir and adjacent ({n} opens)",
                          function="ceos_alos2.xarray.open_alos2", evaluations=n,
                          replay=lambda m: {"confirmed": True, "input": {"level": bad[0][0], "location": bad[0][1], "prefix_length": bad[0][2]},
                                            "observed": bad[0][3], "expected": "same tree as the uncached open"},
                          detail={"wrong": str(bad[:2])[:300]})
        # repair: torn local file, then create_cache=True must leave a complete, usable index
        bad2 = []
        m = 0
        adjacent.unlink(missing_ok=True)
        for c in (0, 1, L // 2, L - 1):
            m += 1
            idx[0].parent.mkdir(parents=True, exist_ok=True)
            idx[0].write_text(doc[:c])
            try:
                _open(d, use_cache=True, create_cache=True, records_per_chunk=3)
            except Exception as e:  # noqa: BLE001  an exception of the code under test is a failed bounded obligation, not a crash of the check
                bad2.append((c, f"raised {type(e).__name__}: {e}"[:160]))
                continue
            now = idx[0].read_text()
            try:
                caching.decode(now, records_per_chunk=3)
                usable = True
            except Exception:  # noqa: BLE001
                usable = False
            if not usable or now != doc:
                bad2.append((c, "index not rewritten" if now == doc[:c] else "index differs"))
        ses.bounded_check(f"{prop}/bounded/create_cache-repairs-a-torn-index", not bad2, bound="prefix lengths 0, 1, L/2, L-1",
                          function="ceos_alos2.sar_image.caching.create_cache", evaluations=m,
                          replay=lambda m_: {"confirmed": True, "input": {"prefix_length": bad2[0][0]}, "observed": bad2[0][1],
                                             "expected": "complete index after create_cache=True"})
    finally:
        shutil.rmtree(d, ignore_errors=True)


def histories(ses, prop):
    """C10: breadth-first over operation sequences; every open equals the fresh uncached open with that step's rpc; the
    product directory and the option dict are never modified; only .index files appear in the user cache dir"""
    from ceos_alos2.sar_image import cli
    from native import e2e

    cache_root = e2e.isolate_cache()
    depth = 4 if ses.tier == "thorough" else 3
    n_seq = n_ops = 0
    bad = []
    for level in ("1.5", "1.1"):
        d, images, names = _mk_local_product(k=1, level=level, seed=ses.seed)
        img = names[2]
        try:
            ref = {r: e2e.canon(_open(d, use_cache=False, records_per_chunk=r)) for r in (2, 5)}
            base_listing = _listing(d)
            ops = [("open", uc, cc, r) for uc in (True, False) for cc in (True, False) for r in (2, 5)] + \
                  [("cli",), ("del-local",), ("del-adjacent",)]
            seen_states = set()
            frontier = [()]
            for _ in range(depth):
                nxt = []
                for seq in frontier:
                    for op in ops:
                        s2 = seq + (op,)
                        # replay the sequence from a clean state
                        shutil.rmtree(cache_root, ignore_errors=True)
                        adj = pathlib.Path(d) / (img + ".index")
                        adj.unlink(missing_ok=True)
                        ok = True
                        for o in s2:
                            n_ops += 1
                            if o[0] == "open":
                                opts = {"use_cache": o[1], "create_cache": o[2], "records_per_chunk": o[3]}
                                snapshot = dict(opts)
                                try:
                                    t = e2e.canon(_open(d, **opts)) if False else None
                                    from ceos_alos2.xarray import open_alos2

                                    t = e2e.canon(open_alos2(d, backend_options=opts))
                                    diff = e2e.first_difference(t, ref[o[3]])
                                except BaseException as e:  # noqa: BLE001
                                    diff = f"raised {type(e).__name__}: {e}"[:160]
                                if diff:
                                    bad.append((level, s2, diff))
                                    ok = False
                                    break
                                if opts != snapshot:
                                    bad.append((level, s2, f"option dict mutated: {opts}"))
                                    ok = False
                                    break
                            elif o[0] == "cli":
                                cli.create_cache(pathlib.Path(d) / img, None, records_per_chunk=4096)
                            elif o[0] == "del-local":
                                shutil.rmtree(cache_root, ignore_errors=True)
                            else:
                                adj.unlink(missing_ok=True)
                            listing = _listing(d)
                            extra = {k: v for k, v in listing.items() if base_listing.get(k) != v}
                            if set(extra) - {img + ".index"} or (o[0] != "cli" and img + ".index" in extra and not adj.exists()):
                                bad.append((level, s2, f"product directory modified: {sorted(extra)}"))
                                ok = False
                                break
                            if o[0] == "open" and img + ".index" in extra and "cli" not in [x[0] for x in s2]:
                                bad.append((level, s2, "open wrote into the product directory"))
                                ok = False
                                break
                            others = [str(p) for p in pathlib.Path(cache_root).rglob("*") if p.is_file() and p.suffix != ".index"] \
                                if pathlib.Path(cache_root).exists() else []
                            if others:
                                bad.append((level, s2, f"non-index files in the user cache dir: {others[:2]}"))
                                ok = False
                                break
                        n_seq += 1
                        if len(bad) > 3:
                            break
                        state = (adj.exists(), pathlib.Path(cache_root).exists() and any(pathlib.Path(cache_root).rglob("*.index")))
                        key = (state, op)
                        if ok and (len(s2) < depth) and (key not in seen_states or len(s2) < 2):
                            seen_states.add(key)
                            nxt.append(s2)
                    if len(bad) > 3:
                        break
                frontier = nxt
                if len(bad) > 3:
                    break
        finally:
            shutil.rmtree(d, ignore_errors=True)
    ses.bounded_check(f"{prop}/bounded/operation-sequences", not bad,
                      bound=f"sequences up to length {depth} over 8 opens + cli + 2 deletions, pruned by reached cache state "
                            f"({n_seq} sequences, {n_ops} operations), levels 1.5 and 1.1",
                      function="ceos_alos2.xarray.open_alos2", evaluations=n_seq,
                      replay=lambda m: {"confirmed": True, "input": str(bad[0][:2]), "observed": bad[0][2],
                                        "expected": "tree of a fresh uncached open; product directory and options untouched"},
                      detail={"wrong": str(bad[:2])[:400]})


def partial_cache_sequences(ses, prop):
    """C10 (directed): two images; create all indexes, delete any subset of them, open with every option combination, then
    open through the cache again — every open equals the fresh uncached open with that step's records_per_chunk"""
    import itertools as _it

    from ceos_alos2.xarray import open_alos2
    from native import e2e

    cache_root = e2e.isolate_cache()
    d, images, names = _mk_local_product(k=2, level="1.5", seed=ses.seed + 7)
    imgs = names[2:-1]
    n = 0
    bad = []
    try:
        ref = {r: e2e.canon(open_alos2(d, backend_options={"use_cache": False, "records_per_chunk": r})) for r in (2, 5)}
        for subset in ([], imgs[:1], imgs[1:], imgs):
            for uc, cc, r, r2 in _it.product((True, False), (True, False), (2, 5), (2, 5)):
                shutil.rmtree(cache_root, ignore_errors=True)
                open_alos2(d, backend_options={"use_cache": False, "create_cache": True, "records_per_chunk": 5})
                for p_ in list(pathlib.Path(cache_root).rglob("*.index")):
                    if p_.name[:-6] in subset:
                        p_.unlink()
                seq = [("open", uc, cc, r), ("open", True, False, r2), ("open", True, False, r)]
                for _, a, b, rr in seq:
                    n += 1
                    try:
                        t = e2e.canon(open_alos2(d, backend_options={"use_cache": a, "create_cache": b, "records_per_chunk": rr}))
                        diff = e2e.first_difference(t, ref[rr])
                    except BaseException as e:  # noqa: BLE001
                        diff = f"raised {type(e).__name__}: {e}"[:160]
                    if diff:
                        bad.append(({"deleted": subset, "sequence": seq}, diff))
                        break
                if len(bad) > 3:
                    break
            if len(bad) > 3:
                break
    finally:
        shutil.rmtree(d, ignore_errors=True)
    ses.bounded_check(f"{prop}/bounded/partially-cached-two-image-product", not bad,
                      bound=f"2 images: 4 subsets of deleted indexes x 16 option / rpc combinations x 3 opens ({n} opens)",
                      function="ceos_alos2.xarray.open_alos2", evaluations=n,
                      replay=lambda m: {"confirmed": True, "input": str(bad[0][0])[:300], "observed": bad[0][1],
                                        "expected": "tree of a fresh uncached open"},
                      detail={"wrong": str(bad[:1])[:400]})
