"""C17 All timestamps follow one calendar convention — DESIGN.md §4/C17.

Every time decoder is proved equivalent to the single specification function Instant(year, day_of_year, fraction) =
1 January + (day_of_year - 1) days + fraction; text timestamps are pinned by the record contracts (tables)."""
from props import records
from props.c04 import TRUST

TIME_LOCS = r"(datetime_of_first_point|scene_center_time|creation_datetime|/time#|sensor_acquisition_date)"


def run(ses):
    records.check_unit(ses, "leader", ["times", "table", "frame"], only_locs=TIME_LOCS)
    records.check_unit(ses, "volume", ["table"], only_locs=TIME_LOCS)
    records.check_units(ses, ("image10s", "image11s"), ["times", "table", "frame"], only_locs=TIME_LOCS)
    validate_calendar_axioms(ses)
    ses.trust(*TRUST)
    ses.assume("datetime / timedelta / datetime64 arithmetic is integer arithmetic in µs / ns (exact)",
               "datetime(y, 1, 1) = jan1_days(y) days; strptime / isoformat / float seconds -> µs are uninterpreted "
               "(shared by code and specification); validated bounded below")


def validate_calendar_axioms(ses):
    """bounded validation of the axioms used: np.datetime64(isoformat(x)[:4] + '-01-01') is 1 January of x's year, and
    datetime(y,1,1) + timedelta(days=d-1, milliseconds=ms) is the civil instant — all years 2014..2049, boundary days"""
    import datetime as dt

    import numpy as np

    n = 0
    ok = True
    bad = None
    for y in range(2014, 2050):
        leap = y % 4 == 0 and (y % 100 != 0 or y % 400 == 0)
        for doy in (1, 59, 60, 365) + ((366,) if leap else ()):
            for ms in (0, 86399999):
                x = dt.datetime(y, 1, 1) + dt.timedelta(days=doy - 1, milliseconds=ms)
                n += 1
                a = np.datetime64(f"{x.isoformat()[:4]}-01-01", "ns")
                if a != np.datetime64(dt.datetime(y, 1, 1), "ns") or x.timetuple().tm_yday != doy or x.year != y:
                    ok, bad = False, (y, doy, ms)
    ses.bounded_check("C17/bounded/calendar-axioms", ok, bound="years 2014..2049 x days {1,59,60,365,366} x {first,last ms}",
                      evaluations=n, detail={"first_failure": bad})
