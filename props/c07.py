"""C07 Cache transparency — DESIGN.md §4/C07.

Deductive: the contract of open_image / read_cache / create_cache / decode over the ghost cache state (36 scenarios),
cache-location agreement and injectivity, and the command line tool's contract. Bounded (labelled): cached vs uncached
trees on synthetic products."""
from props import cache_e2e, cacheunit


def run(ses):
    from pyvc import frame as _frame

    _frame.purity_obligation(ses)
    cacheunit.obligations(ses, "C07")
    cacheunit.key_obligations(ses, "C07")
    cacheunit.cli_obligations(ses, "C07")
    cache_e2e.transparency(ses, "C07")
    # the codec lemma the contracts above rest on (decode(encode(g), rpc) = g with the read-time rpc): its obligations are
    # generated here too, so that a change inside the encoder / decoder fails this property's check as well
    from props import c08

    c08.run(ses, "C07")
