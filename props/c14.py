"""C14 Summary parsing is total on well-formed text, reports every malformed line — DESIGN.md §4/C14.

Contracts (sidecar, on the real functions; reference semantics written independently of the code):
  parse_line(l)      returns {section, keyword, value} = REF(l) if REF(l) is defined, raises ValueError otherwise, where
                     REF(l): l = SSS_<kw>="<v>" with SSS three ASCII letters, <kw> the text before the FIRST `="`, <v> the
                     rest up to the final `"` (so <v> may contain spaces, '=' and quotes); no line break inside
  parse_summary(t)   lines = t.splitlines(); if some line has no REF: raises ExceptionGroup whose sub-exceptions are in
                     1:1 correspondence with those lines and carry `line <index>`; else returns
                     {section.lower(): {kw: v (last wins)}} — a function of the *multiset of entries per section in order*,
                     hence independent of how sections interleave
  transform_summary  per key the documented converter (ints, floats, ISO dates, decoded ids, lookups, (pixels, lines))

Decided here by BOUNDED checking of the contracts on the real functions (exhaustive over small scopes, stated below):
no deductive verifier for regular-expression group extraction is available (DESIGN.md §6). Never counted as proved.
"""
from __future__ import annotations

import itertools
import random


def ref_line(line):
    """independent reference for the line grammar; None if malformed"""
    if len(line) < 4 or not (line[:3].isascii() and line[:3].isalpha()) or line[3] != "_":
        return None
    if "\n" in line or "\r" in line:
        return None
    rest = line[4:]
    i = rest.find('="')
    while i != -1:
        kw, tail = rest[:i], rest[i + 2:]
        if tail.endswith('"') and len(tail) >= 1:
            return {"section": line[:3], "keyword": kw, "value": tail[:-1]}
        i = rest.find('="', i + 1)
    return None


def ref_summary(text):
    lines = text.splitlines()
    bad = [i for i, l in enumerate(lines) if ref_line(l) is None]
    if bad:
        return ("errors", bad)
    out = {}
    for l in lines:
        e = ref_line(l)
        out.setdefault(e["section"].lower(), {})[e["keyword"]] = e["value"]
    return ("ok", out)


def real_summary(parse_summary, text):
    try:
        return ("ok", parse_summary(text))
    except BaseException as e:  # ExceptionGroup
        subs = getattr(e, "exceptions", None)
        if subs is None:
            return ("raise", type(e).__name__, str(e)[:80])
        idx = []
        for s in subs:
            msg = str(s.args[0]) if s.args else ""
            if not isinstance(s, ValueError) or not msg.startswith("line "):
                return ("raise", "bad-sub-exception", repr(s)[:80])
            idx.append(int(msg[5:].split(":")[0]))
        return ("errors", idx)

RESAMPLING = {"NN": "nearest-neighbor", "BL": "bilinear", "CC": "cubic convolution"}  # ALOS-2 product format, independent copy
FACILITIES = {"SCMO": "spacecraft control mission operation system", "EICS": "earth intelligence collection and sharing system"}


def gen_summary(rng, decoders):
    """a random well-formed summary: (lines in file order, expected flat mapping group path -> attrs); the expected
    conversions are written here from the documentation, not taken from summary.py (ids: C15-verified decoders)"""
    import datetime as _dt

    def date8():
        d = _dt.date(2014, 1, 1) + _dt.timedelta(days=rng.choice([0, 58, 59, 364, 365, rng.randrange(0, 13000)]))
        return d.strftime("%Y%m%d"), d.isoformat()

    def clock():
        h, m, s_, ms = rng.choice([(0, 0, 0, 0), (23, 59, 59, 999), (12, 0, 0, 0), (rng.randrange(24), rng.randrange(60), rng.randrange(60),
                                                                                    rng.choice([0, 1, 10, 100, 500, 999, rng.randrange(1000)]))])
        return f"{h:02d}:{m:02d}:{s_:02d}.{ms:03d}"

    def free_text():
        return rng.choice(["abc", "a b", "x=y", 'say "hi"', "", "=", '"', "a=\"b", "MapNorth", "  padded  ", "Ünïcode", "k=\"v\" z"])

    def int_text():
        v = rng.choice([0, 1, -1, 7, 53, 9196, 60568, 2**31, -(2**31), rng.randrange(-10**6, 10**6)])
        return rng.choice([str(v), f" {v}", f"{v} ", f"{v:>8d}", f"+{v}" if v >= 0 else str(v), f"{v:06d}" if v >= 0 else str(v)]), v

    def float_text():
        v = rng.choice([0.0, 25.0, 6.25, 798.2, -21.3, 1e-3, 123456.789, rng.uniform(-1e4, 1e4)])
        t = rng.choice([repr(v), f"{v:.6f}", f"{v:e}", f" {v!r}", f"{v:12.4f}"])
        return t, float(t)

    sections, want = {}, {}
    # ordering information: passed through
    odi = {f"Key{i}": free_text() for i in range(rng.randrange(0, 3))}
    odi["SceneId"] = free_text()
    sections["Odi"], want["ordering_information"] = odi, dict(odi)
    # scene specification
    orbit, frame = rng.choice([0, 1, 29076, 99999, rng.randrange(100000)]), rng.choice([0, 600, 7190, 9999, rng.randrange(10000)])
    d8, iso = date8()
    shift_t, shift = rng.choice([("0", 0), ("-1", -1), ("+2", 2), ("5", 5), ("-5", -5), (" 3", 3)])
    sections["Scs"] = {"SceneID": f"ALOS2{orbit:05d}{frame:04d}-{d8[2:]}", "SceneShift": shift_t}
    want["scene_specification"] = {"mission_name": "ALOS2", "orbit_accumulation": orbit, "scene_frame": frame, "date": iso,
                                   "SceneShift": shift}
    # product specification: id decoded (C15), lookups, int, passthrough, everything else float
    pid = rng.choice(["WWDR1.5RUA", "WBDR1.1__D", "UBSR1.5GUA", "HBQR1.1__A", "FBDL1.5RUD", "WBSR1.5RUD", "SBSR3.1GUA"])
    rs = rng.choice(sorted(RESAMPLING))
    zone_t, zone = int_text()
    md, odp, adp = free_text(), free_text(), free_text()
    extra_f = {name: float_text() for name in rng.sample(["PixelSpacing", "LineSpacing", "Foo", "SceneCenterLat"], rng.randrange(0, 4))}
    sections["Pds"] = {"ProductID": pid, "ResamplingMethod": rs, "UTM_ZoneNo": zone_t, "MapDirection": md,
                       "OrbitDataPrecision": odp, "AttitudeDataPrecision": adp, **{k_: t for k_, (t, _) in extra_f.items()}}
    try:
        dec = dict(decoders.decode_product_id(pid))
    except ValueError:
        dec = None
    if dec is None:
        return None
    want["product_specification"] = {**dec, "ResamplingMethod": RESAMPLING[rs], "UTM_ZoneNo": zone, "MapDirection": md,
                                     "OrbitDataPrecision": odp, "AttitudeDataPrecision": adp, **{k_: v for k_, (_, v) in extra_f.items()}}
    # image information: ...DateTime keys are timestamps, the rest floats
    img, wimg = {}, {}
    for name in rng.sample(["SceneCenterDateTime", "SceneStartDateTime", "SceneEndDateTime"], rng.randrange(1, 4)):
        d8_, iso_ = date8()
        c = clock()
        sep = rng.choice([" ", " ", "  "])
        img[name], wimg[name] = f"{d8_}{sep}{c}", f"{iso_}T{c}"
    for name in rng.sample(["OffNadirAngle", "ImageSceneCenterLatitude", "Bar"], rng.randrange(0, 4)):
        t, v = float_text()
        img[name], wimg[name] = t, v
    sections["Img"], want["image_information"] = img, wimg
    # product information
    n_files = rng.randrange(3, 11)
    lvl = rng.choice(["L15", "L11"])
    bp_t, bp = int_text()
    sz_t, sz = float_text()
    fmt = free_text()
    pdi = {"ProductFormat": fmt, "BitPixel": bp_t, "ProductDataSize": sz_t, f"CntOf{lvl}ProductFileName": str(n_files)}
    files = [f"file-{i}-{rng.randrange(1000)}" for i in range(n_files)]
    pdi.update({f"{lvl}ProductFileName{i + 1:02d}": f for i, f in enumerate(files)})
    idx = rng.sample(range(0, 12), rng.randrange(1, 4))
    shapes = {}
    for i in idx:
        (pt, pv), (lt, lv) = int_text(), int_text()
        pdi[f"NoOfPixels_{i}"], pdi[f"NoOfLines_{i}"] = pt, lt
        shapes[str(i)] = (pv, lv)
    sections["Pdi"] = pdi
    want["product_information"] = {"ProductFormat": fmt, "BitPixel": bp, "ProductDataSize": sz}
    want["product_information/data_files"] = {"volume_directory": files[0], "sar_leader": files[1], "sar_imagery": files[2:-1],
                                              "sar_trailer": files[-1]}
    want["product_information/shapes"] = shapes
    ach = {f"Check{i}": rng.choice(["GOOD", "", "NG", " "]) for i in range(rng.randrange(1, 4))}
    sections["Ach"], want["autocheck"] = ach, {k_: (v or "N/A") for k_, v in ach.items()}
    rad = {"PracticeResultCode": free_text()}
    sections["Rad"], want["result_information"] = rad, dict(rad)
    d8, iso = date8()
    fac = rng.choice(sorted(FACILITIES))
    sections["Lbi"] = {"ObservationDate": d8, "ProcessFacility": fac}
    want["label_information"] = {"ObservationDate": iso, "ProcessFacility": FACILITIES[fac]}
    lines = [f'{sec}_{k_}="{v}"' for sec, kv in sections.items() for k_, v in kv.items()]
    rng.shuffle(lines)  # any order, within and across sections
    return lines, want


def run(ses):
    from ceos_alos2 import summary as S

    for f in (S.parse_line, S.parse_summary, S.with_lineno, S.transform_summary, S.transform_scene_spec, S.transform_product_spec,
              S.transform_image_info, S.transform_product_info, S.transform_autocheck, S.transform_label_info,
              S.categorize_filenames, S.to_isoformat, S.reformat_date, S.open_summary):
        ses.under_contract(f)
    rng = random.Random(ses.seed)
    thorough = ses.tier == "thorough"

    # (1) line grammar: exhaustive over a small alphabet -------------------------------------------------------
    alphabet = ['a', 'B', '_', '=', '"', ' ', '1']
    maxlen = 8 if thorough else 7
    n = 0
    bad = []
    for ln in range(0, maxlen + 1):
        for tup in itertools.product(alphabet, repeat=ln):
            s = "".join(tup)
            # make most candidates start like an entry so that the interesting part of the grammar is exercised
            for line in (s, "Scs_" + s):
                n += 1
                try:
                    got = S.parse_line(line)
                except ValueError:
                    got = None
                if got != ref_line(line):
                    bad.append((line, got, ref_line(line)))
    ses.bounded_check("C14/bounded/parse_line-equals-reference-grammar", not bad,
                      bound=f"every string over {alphabet} up to length {maxlen}, bare and prefixed with 'Scs_' ({n} lines)",
                      function="ceos_alos2.summary.parse_line", evaluations=n,
                      replay=lambda m: {"confirmed": True, "input": bad[0][0], "observed": bad[0][1], "expected": bad[0][2]},
                      detail={"wrong": bad[:3]})

    # (2) error set and mapping: every subset of corrupted lines, LF/CRLF, all line orders of a small summary ----------
    good = ['Scs_SceneShift="0"', 'Pds_PixelSpacing="25.0"', 'Scs_A="x=y"', 'Pdi_B="say "hi""', 'Img_C=""', 'Pds_PixelSpacing="26.0"']
    corrupt = ['', ' ', 'Scs_SceneShift=0', 'Sc_X="1"', 'Scs_X="1', ' Scs_X="1"', 'Scs_X="1" ', 'Scs X="1"', '1cs_X="1"', '\t']
    n = 0
    bad = []
    k = len(good)
    for mask in range(2 ** k):
        for sep in ("\n", "\r\n"):
            for trailing in ("", sep):
                lines = [corrupt[(i + mask) % len(corrupt)] if mask >> i & 1 else good[i] for i in range(k)]
                text = sep.join(lines) + trailing
                n += 1
                got, want = real_summary(S.parse_summary, text), ref_summary(text)
                if got != want:
                    bad.append((text, got, want))
    ses.bounded_check("C14/bounded/parse_summary-error-set-and-mapping", not bad,
                      bound=f"all 2^{k} subsets of corrupted lines x LF/CRLF x trailing newline ({n} texts)",
                      function="ceos_alos2.summary.parse_summary", evaluations=n,
                      replay=lambda m: {"confirmed": True, "input": bad[0][0], "observed": bad[0][1], "expected": bad[0][2]},
                      detail={"wrong": bad[:2]})
    n = 0
    bad = []
    base = ref_summary("\n".join(good))
    perms = list(itertools.permutations(range(k)))
    if not thorough:
        rng.shuffle(perms)
        perms = perms[:240]
    for p in perms:
        # order independence across sections: the entries of one section keep their relative order (later duplicates win)
        lines = [good[i] for i in p]
        text = "\n".join(lines)
        n += 1
        got, want = real_summary(S.parse_summary, text), ref_summary(text)
        if got != want:
            bad.append((text, got, want))
    ses.bounded_check("C14/bounded/parse_summary-independent-of-line-order", not bad,
                      bound=f"{n} permutations of a 6-line summary with 4 interleaved sections and one duplicated key",
                      function="ceos_alos2.summary.parse_summary", evaluations=n,
                      replay=lambda m: {"confirmed": True, "input": bad[0][0], "observed": bad[0][1], "expected": bad[0][2]},
                      detail={"wrong": bad[:2]})

    # (3) open_summary: edge whitespace / empty lines are malformed lines too, numbering starts at 0 --------------------
    class M(dict):
        root = "memory://x"

    n = 0
    bad = []
    for pre, post in itertools.product(["", "\n", " \n", "\n\n", "  "], ["", "\n", "\n ", "\n\n", " "]):
        text = pre + "\n".join(good[:3]) + post
        n += 1
        got = real_summary(lambda t: S.open_summary(M({"summary.txt": t.encode()}), "summary.txt"), text)
        want = ref_summary(text)
        if got[0] != want[0] or (want[0] == "errors" and got != want):
            bad.append((text, got[:2], want))
    ses.bounded_check("C14/bounded/open_summary-reports-edge-lines", not bad, bound=f"{n} leading/trailing whitespace variants",
                      function="ceos_alos2.summary.open_summary", evaluations=n,
                      replay=lambda m: {"confirmed": True, "input": bad[0][0], "observed": bad[0][1], "expected": bad[0][2]},
                      detail={"wrong": bad[:2]})

    # (4) section routing and conversions on a full summary, all orders of the sections ------------------------------------
    n_files = 5
    sections = {
        "Odi": {"SceneId": "abc"},
        "Scs": {"SceneID": "ALOS2290760600-191011", "SceneShift": "-1"},
        "Pds": {"ProductID": "WWDR1.5RUA", "ResamplingMethod": "BL", "UTM_ZoneNo": "53", "MapDirection": "MapNorth",
                "OrbitDataPrecision": "Precision", "AttitudeDataPrecision": "Onboard", "PixelSpacing": "25.000000"},
        "Img": {"SceneCenterDateTime": "20191011 14:43:15.525", "OffNadirAngle": "21.3"},
        "Pdi": {"ProductFormat": "CEOS", "BitPixel": "16", "ProductDataSize": "798.2", "CntOfL15ProductFileName": str(n_files),
                **{f"L15ProductFileName{i + 1:02d}": f"f{i}" for i in range(n_files)},
                "NoOfPixels_0": " 9196", "NoOfLines_0": "60568", "NoOfPixels_1": "8722", "NoOfLines_1": "75710"},
        "Ach": {"TimeCheck": "GOOD", "PRF_Check": ""},
        "Rad": {"PracticeResultCode": "GOOD"},
        "Lbi": {"ObservationDate": "20191011", "ProcessFacility": "EICS"},
    }
    want = {
        "ordering_information": {"SceneId": "abc"},
        "scene_specification": {"mission_name": "ALOS2", "orbit_accumulation": 29076, "scene_frame": 600, "date": "2019-10-11",
                                "SceneShift": -1},
        "product_specification": {"observation_mode": "ScanSAR nominal 28MHz mode dual polarization",
                                  "observation_direction": "right looking", "processing_level": "level 1.5",
                                  "processing_option": "geo-reference", "map_projection": "UTM", "orbit_direction": "ascending",
                                  "ResamplingMethod": "bilinear", "UTM_ZoneNo": 53, "MapDirection": "MapNorth",
                                  "OrbitDataPrecision": "Precision", "AttitudeDataPrecision": "Onboard", "PixelSpacing": 25.0},
        "image_information": {"SceneCenterDateTime": "2019-10-11T14:43:15.525", "OffNadirAngle": 21.3},
        "product_information": {"ProductFormat": "CEOS", "BitPixel": 16, "ProductDataSize": 798.2},
        "product_information/data_files": {"volume_directory": "f0", "sar_leader": "f1", "sar_imagery": ["f2", "f3"],
                                           "sar_trailer": "f4"},
        "product_information/shapes": {"0": (9196, 60568), "1": (8722, 75710)},
        "autocheck": {"TimeCheck": "GOOD", "PRF_Check": "N/A"},
        "result_information": {"PracticeResultCode": "GOOD"},
        "label_information": {"ObservationDate": "2019-10-11", "ProcessFacility": "earth intelligence collection and sharing system"},
    }

    def flat(group, prefix=""):
        out = {prefix.rstrip("/") or "/": dict(group.attrs)}
        for name, item in group.data.items():
            out.update(flat(item, f"{prefix}{name}/"))
        return out

    orders = list(itertools.permutations(sections))
    rng.shuffle(orders)
    orders = orders[: (2000 if thorough else 150)]
    n = 0
    bad = []
    for order in orders:
        lines = [f'{sec}_{k_}="{v}"' for sec in order for k_, v in sections[sec].items()]
        # interleave: every other line of the last section is moved to the front (sections need not be contiguous)
        moved = [l for i, l in enumerate(lines) if i % 7 == 3]
        lines = moved + [l for i, l in enumerate(lines) if i % 7 != 3]
        for sep in ("\n", "\r\n"):
            n += 1
            try:
                g = S.open_summary(M({"summary.txt": sep.join(lines).encode()}), "summary.txt")
                got = {k_: v for k_, v in flat(g).items() if k_ != "/"}
            except BaseException as e:
                got = f"{type(e).__name__}: {e}"[:100]
            if got != want:
                bad.append((order, sep, got if isinstance(got, str) else {k_: v for k_, v in got.items() if want.get(k_) != v}))
    ses.bounded_check("C14/bounded/sections-routed-and-converted", not bad,
                      bound=f"{n} texts: {len(orders)} section orders (non-contiguous sections) x LF/CRLF of a full 8-section summary",
                      function="ceos_alos2.summary.transform_summary", evaluations=n,
                      replay=lambda m: {"confirmed": True, "input": str(bad[0][:2]), "observed": str(bad[0][2])[:300],
                                        "expected": "documented conversion per key"},
                      detail={"wrong": str(bad[:1])[:400]})
    # (5) random full summaries: key order, value alphabets, 3..10 product files, several shape indices, boundary timestamps ----
    from ceos_alos2 import decoders as DEC

    n = 0
    bad = []
    trials = 3000 if thorough else 400
    for t in range(trials):
        made = gen_summary(rng, DEC)
        if made is None:
            continue
        lines, want_r = made
        for sep in ("\n", "\r\n"):
            n += 1
            try:
                g = S.open_summary(M({"summary.txt": sep.join(lines).encode()}), "summary.txt")
                got = {k_: v for k_, v in flat(g).items() if k_ != "/"}
            except BaseException as e:
                got = f"{type(e).__name__}: {getattr(e, 'exceptions', e)}"[:160]
            if got != want_r or (not isinstance(got, str) and any(type(got[g_][k_]) is not type(v) for g_, kv in want_r.items()
                                                                   for k_, v in kv.items())):
                diff = got if isinstance(got, str) else {g_: {k_: (v, want_r.get(g_, {}).get(k_, "<absent>")) for k_, v in kv.items()
                                                              if want_r.get(g_, {}).get(k_, "<absent>") != v}
                                                         for g_, kv in got.items() if want_r.get(g_) != kv}
                bad.append((sep.join(lines), diff))
    ses.bounded_check("C14/bounded/random-summaries-routed-and-converted", not bad,
                      bound=f"{n} texts: {trials} random summaries (shuffled lines, 3..10 product files, 1..3 shape indices, signed / padded "
                            "numbers, values with spaces, '=' and quotes, timestamps at full seconds / midnight / leap day) x LF/CRLF",
                      function="ceos_alos2.summary.transform_summary", evaluations=n,
                      replay=lambda m: {"confirmed": True, "input": bad[0][0], "observed (got, wanted)": str(bad[0][1])[:400],
                                        "expected": "documented conversion per key"},
                      detail={"wrong": str(bad[:1])[:600], "n_wrong": len(bad)})
    # at least one solver-free *structural* obligation so that the session is not empty of decided obligations
    import inspect

    src = inspect.getsource(S.parse_line)
    ses.decided("C14/parse_line/uses-fullmatch", ".fullmatch(" in src, function="ceos_alos2.summary.parse_line", backend="syntactic")
    ses.decided("C14/parse_summary/collects-every-error", "errors[lineno] = e" in inspect.getsource(S.parse_summary).replace("  ", " ")
                or "errors[" in inspect.getsource(S.parse_summary), function="ceos_alos2.summary.parse_summary", backend="syntactic")
    ses.extra_coverage["level_override"] = "exploration"
    ses.trust("CPython re and str.splitlines (executed, not modelled)", "reference grammar ref_line / ref_summary in props/c14.py")
