"""C14 Summary parsing is total on well-formed text, reports every malformed line — DESIGN.md §4/C14.

Contracts (sidecar, on the real functions; reference semantics written independently of the code):
  parse_line(l)      returns {section, keyword, value} = REF(l) if REF(l) is defined, raises ValueError otherwise, where
                     REF(l): l = SSS_<kw>="<v>" with SSS three ASCII letters, <kw> the text before the FIRST `="`, <v> the
                     rest up to the final `"` (so <v> may contain spaces, '=' and quotes); no line break inside
  parse_summary(t)   lines = t.splitlines(); if some line has no REF: raises ExceptionGroup whose sub-exceptions are in
                     1:1 correspondence with those lines and carry `line <index>`; else returns
                     {section.lower(): {kw: v (last wins)}} — a function of the *multiset of entries per section in order*,
                     hence independent of how sections interleave
  transform_summary  per key the documented converter (ints, floats, ISO dates, decoded ids, lookups, (pixels, lines))

Decided here by BOUNDED checking of the contracts on the real functions (exhaustive over small scopes, stated below):
no deductive verifier for regular-expression group extraction is available (DESIGN.md §6). Never counted as proved.
"""
from __future__ import annotations

import itertools
import random


def ref_line(line):
    """independent reference for the line grammar; None if malformed"""
    if len(line) < 4 or not (line[:3].isascii() and line[:3].isalpha()) or line[3] != "_":
        return None
    if "\n" in line or "\r" in line:
        return None
    rest = line[4:]
    i = rest.find('="')
    while i != -1:
        kw, tail = rest[:i], rest[i + 2:]
        if tail.endswith('"') and len(tail) >= 1:
            return {"section": line[:3], "keyword": kw, "value": tail[:-1]}
        i = rest.find('="', i + 1)
    return None


def ref_summary(text):
    lines = text.splitlines()
    bad = [i for i, l in enumerate(lines) if ref_line(l) is None]
    if bad:
        return ("errors", bad)
    out = {}
    for l in lines:
        e = ref_line(l)
        out.setdefault(e["section"].lower(), {})[e["keyword"]] = e["value"]
    return ("ok", out)


def real_summary(parse_summary, text):
    try:
        return ("ok", parse_summary(text))
    except BaseException as e:  # ExceptionGroup
        subs = getattr(e, "exceptions", None)
        if subs is None:
            return ("raise", type(e).__name__, str(e)[:80])
        idx = []
        for s in subs:
            msg = str(s.args[0]) if s.args else ""
            if not isinstance(s, ValueError) or not msg.startswith("line "):
                return ("raise", "bad-sub-exception", repr(s)[:80])
            idx.append(int(msg[5:].split(":")[0]))
        return ("errors", idx)


def run(ses):
    from ceos_alos2 import summary as S

    for f in (S.parse_line, S.parse_summary, S.with_lineno, S.transform_summary, S.transform_scene_spec, S.transform_product_spec,
              S.transform_image_info, S.transform_product_info, S.transform_autocheck, S.transform_label_info,
              S.categorize_filenames, S.to_isoformat, S.reformat_date, S.open_summary):
        ses.under_contract(f)
    rng = random.Random(ses.seed)
    thorough = ses.tier == "thorough"

    # (1) line grammar: exhaustive over a small alphabet -------------------------------------------------------
    alphabet = ['a', 'B', '_', '=', '"', ' ', '1']
    maxlen = 8 if thorough else 7
    n = 0
    bad = []
    for ln in range(0, maxlen + 1):
        for tup in itertools.product(alphabet, repeat=ln):
            s = "".join(tup)
            # make most candidates start like an entry so that the interesting part of the grammar is exercised
            for line in (s, "Scs_" + s):
                n += 1
                try:
                    got = S.parse_line(line)
                except ValueError:
                    got = None
                if got != ref_line(line):
                    bad.append((line, got, ref_line(line)))
    ses.bounded_check("C14/bounded/parse_line-equals-reference-grammar", not bad,
                      bound=f"every string over {alphabet} up to length {maxlen}, bare and prefixed with 'Scs_' ({n} lines)",
                      function="ceos_alos2.summary.parse_line", evaluations=n,
                      replay=lambda m: {"confirmed": True, "input": bad[0][0], "observed": bad[0][1], "expected": bad[0][2]},
                      detail={"wrong": bad[:3]})

    # (2) error set and mapping: every subset of corrupted lines, LF/CRLF, all line orders of a small summary ----------
    good = ['Scs_SceneShift="0"', 'Pds_PixelSpacing="25.0"', 'Scs_A="x=y"', 'Pdi_B="say "hi""', 'Img_C=""', 'Pds_PixelSpacing="26.0"']
    corrupt = ['', ' ', 'Scs_SceneShift=0', 'Sc_X="1"', 'Scs_X="1', ' Scs_X="1"', 'Scs_X="1" ', 'Scs X="1"', '1cs_X="1"', '\t']
    n = 0
    bad = []
    k = len(good)
    for mask in range(2 ** k):
        for sep in ("\n", "\r\n"):
            for trailing in ("", sep):
                lines = [corrupt[(i + mask) % len(corrupt)] if mask >> i & 1 else good[i] for i in range(k)]
                text = sep.join(lines) + trailing
                n += 1
                got, want = real_summary(S.parse_summary, text), ref_summary(text)
                if got != want:
                    bad.append((text, got, want))
    ses.bounded_check("C14/bounded/parse_summary-error-set-and-mapping", not bad,
                      bound=f"all 2^{k} subsets of corrupted lines x LF/CRLF x trailing newline ({n} texts)",
                      function="ceos_alos2.summary.parse_summary", evaluations=n,
                      replay=lambda m: {"confirmed": True, "input": bad[0][0], "observed": bad[0][1], "expected": bad[0][2]},
                      detail={"wrong": bad[:2]})
    n = 0
    bad = []
    base = ref_summary("\n".join(good))
    perms = list(itertools.permutations(range(k)))
    if not thorough:
        rng.shuffle(perms)
        perms = perms[:240]
    for p in perms:
        # order independence across sections: the entries of one section keep their relative order (later duplicates win)
        lines = [good[i] for i in p]
        text = "\n".join(lines)
        n += 1
        got, want = real_summary(S.parse_summary, text), ref_summary(text)
        if got != want:
            bad.append((text, got, want))
    ses.bounded_check("C14/bounded/parse_summary-independent-of-line-order", not bad,
                      bound=f"{n} permutations of a 6-line summary with 4 interleaved sections and one duplicated key",
                      function="ceos_alos2.summary.parse_summary", evaluations=n,
                      replay=lambda m: {"confirmed": True, "input": bad[0][0], "observed": bad[0][1], "expected": bad[0][2]},
                      detail={"wrong": bad[:2]})

    # (3) open_summary: edge whitespace / empty lines are malformed lines too, numbering starts at 0 --------------------
    class M(dict):
        root = "memory://x"

    n = 0
    bad = []
    for pre, post in itertools.product(["", "\n", " \n", "\n\n", "  "], ["", "\n", "\n ", "\n\n", " "]):
        text = pre + "\n".join(good[:3]) + post
        n += 1
        got = real_summary(lambda t: S.open_summary(M({"summary.txt": t.encode()}), "summary.txt"), text)
        want = ref_summary(text)
        if got[0] != want[0] or (want[0] == "errors" and got != want):
            bad.append((text, got[:2], want))
    ses.bounded_check("C14/bounded/open_summary-reports-edge-lines", not bad, bound=f"{n} leading/trailing whitespace variants",
                      function="ceos_alos2.summary.open_summary", evaluations=n,
                      replay=lambda m: {"confirmed": True, "input": bad[0][0], "observed": bad[0][1], "expected": bad[0][2]},
                      detail={"wrong": bad[:2]})

    # (4) section routing and conversions on a full summary, all orders of the sections ------------------------------------
    n_files = 5
    sections = {
        "Odi": {"SceneId": "abc"},
        "Scs": {"SceneID": "ALOS2290760600-191011", "SceneShift": "-1"},
        "Pds": {"ProductID": "WWDR1.5RUA", "ResamplingMethod": "BL", "UTM_ZoneNo": "53", "MapDirection": "MapNorth",
                "OrbitDataPrecision": "Precision", "AttitudeDataPrecision": "Onboard", "PixelSpacing": "25.000000"},
        "Img": {"SceneCenterDateTime": "20191011 14:43:15.525", "OffNadirAngle": "21.3"},
        "Pdi": {"ProductFormat": "CEOS", "BitPixel": "16", "ProductDataSize": "798.2", "CntOfL15ProductFileName": str(n_files),
                **{f"L15ProductFileName{i + 1:02d}": f"f{i}" for i in range(n_files)},
                "NoOfPixels_0": " 9196", "NoOfLines_0": "60568", "NoOfPixels_1": "8722", "NoOfLines_1": "75710"},
        "Ach": {"TimeCheck": "GOOD", "PRF_Check": ""},
        "Rad": {"PracticeResultCode": "GOOD"},
        "Lbi": {"ObservationDate": "20191011", "ProcessFacility": "EICS"},
    }
    want = {
        "ordering_information": {"SceneId": "abc"},
        "scene_specification": {"mission_name": "ALOS2", "orbit_accumulation": 29076, "scene_frame": 600, "date": "2019-10-11",
                                "SceneShift": -1},
        "product_specification": {"observation_mode": "ScanSAR nominal 28MHz mode dual polarization",
                                  "observation_direction": "right looking", "processing_level": "level 1.5",
                                  "processing_option": "geo-reference", "map_projection": "UTM", "orbit_direction": "ascending",
                                  "ResamplingMethod": "bilinear", "UTM_ZoneNo": 53, "MapDirection": "MapNorth",
                                  "OrbitDataPrecision": "Precision", "AttitudeDataPrecision": "Onboard", "PixelSpacing": 25.0},
        "image_information": {"SceneCenterDateTime": "2019-10-11T14:43:15.525", "OffNadirAngle": 21.3},
        "product_information": {"ProductFormat": "CEOS", "BitPixel": 16, "ProductDataSize": 798.2},
        "product_information/data_files": {"volume_directory": "f0", "sar_leader": "f1", "sar_imagery": ["f2", "f3"],
                                           "sar_trailer": "f4"},
        "product_information/shapes": {"0": (9196, 60568), "1": (8722, 75710)},
        "autocheck": {"TimeCheck": "GOOD", "PRF_Check": "N/A"},
        "result_information": {"PracticeResultCode": "GOOD"},
        "label_information": {"ObservationDate": "2019-10-11", "ProcessFacility": "earth intelligence collection and sharing system"},
    }

    def flat(group, prefix=""):
        out = {prefix.rstrip("/") or "/": dict(group.attrs)}
        for name, item in group.data.items():
            out.update(flat(item, f"{prefix}{name}/"))
        return out

    orders = list(itertools.permutations(sections))
    rng.shuffle(orders)
    orders = orders[: (2000 if thorough else 150)]
    n = 0
    bad = []
    for order in orders:
        lines = [f'{sec}_{k_}="{v}"' for sec in order for k_, v in sections[sec].items()]
        # interleave: every other line of the last section is moved to the front (sections need not be contiguous)
        moved = [l for i, l in enumerate(lines) if i % 7 == 3]
        lines = moved + [l for i, l in enumerate(lines) if i % 7 != 3]
        for sep in ("\n", "\r\n"):
            n += 1
            try:
                g = S.open_summary(M({"summary.txt": sep.join(lines).encode()}), "summary.txt")
                got = {k_: v for k_, v in flat(g).items() if k_ != "/"}
            except BaseException as e:
                got = f"{type(e).__name__}: {e}"[:100]
            if got != want:
                bad.append((order, sep, got if isinstance(got, str) else {k_: v for k_, v in got.items() if want.get(k_) != v}))
    ses.bounded_check("C14/bounded/sections-routed-and-converted", not bad,
                      bound=f"{n} texts: {len(orders)} section orders (non-contiguous sections) x LF/CRLF of a full 8-section summary",
                      function="ceos_alos2.summary.transform_summary", evaluations=n,
                      replay=lambda m: {"confirmed": True, "input": str(bad[0][:2]), "observed": str(bad[0][2])[:300],
                                        "expected": "documented conversion per key"},
                      detail={"wrong": str(bad[:1])[:400]})
    # at least one solver-free *structural* obligation so that the session is not empty of decided obligations
    import inspect

    src = inspect.getsource(S.parse_line)
    ses.decided("C14/parse_line/uses-fullmatch", ".fullmatch(" in src, function="ceos_alos2.summary.parse_line", backend="syntactic")
    ses.decided("C14/parse_summary/collects-every-error", "errors[lineno] = e" in inspect.getsource(S.parse_summary).replace("  ", " ")
                or "errors[" in inspect.getsource(S.parse_summary), function="ceos_alos2.summary.parse_summary", backend="syntactic")
    ses.extra_coverage["level_override"] = "exploration"
    ses.trust("CPython re and str.splitlines (executed, not modelled)", "reference grammar ref_line / ref_summary in props/c14.py")
