"""C18 Fail-stop: truncated or missing files raise, never yield a wrong tree — DESIGN.md §4/C18.

Deductive: (a) a missing summary / volume directory / leader is reported as OSError / FileNotFoundError (interpreted on a
mapper without that key); (b) leader and volume directory, interpreted with the availability of every read as a branch:
every returning path implies |file| >= the sum of the declared record lengths — i.e. any truncation raises; (c) no
unbounded loop: the reader functions contain no `while`, every `for` ranges over a finite sequence.
Bounded (labelled): image files cut at every record boundary and +-1 byte, records_per_chunk below / at / above the line
count, through open_alos2: raises, or the returned image has all declared lines loadable (this rests on xarray's dimension
check, not on a check in the reader: read_metadata itself returns short lists).
"""
from __future__ import annotations

import ast
import inspect

from props import records
from props.c04 import TRUST


def run(ses):
    from pyvc import frame as _frame

    _frame.purity_obligation(ses)
    missing(ses)
    for unit in ("volume", "leader"):
        records.check_unit(ses, unit, ["truncation", "frame"], truncation=True)
    termination(ses)
    bounded_image_truncation(ses)
    ses.trust(*TRUST[:3], "fsspec: open() of a missing file raises FileNotFoundError; read(k) returns min(k, remaining) bytes (T7)",
              "xarray.Dataset raises on conflicting dimension sizes (T6)")


def missing(ses):
    import pyvc  # noqa: F401
    from ceos_alos2.sar_leader.io import open_sar_leader
    from ceos_alos2.summary import open_summary
    from ceos_alos2.volume_directory.io import open_volume_directory
    from pyvc.absobj import SymFS, SymMapper
    from pyvc.core import Path
    from pyvc.interp import Interp

    for f, key, want in ((open_summary, "summary.txt", OSError), (open_volume_directory, "VOL", FileNotFoundError),
                         (open_sar_leader, "LED", FileNotFoundError)):
        fn = ses.under_contract(f)
        it = Interp(Path([]))
        mapper = SymMapper(SymFS(missing=[key]))
        try:
            it.call(it.shim(f), [mapper, key], {})
            got = "returned"
        except Exception as e:  # noqa: BLE001
            got = e
        ok = isinstance(got, want) and isinstance(got, OSError)
        ses.decided(f"C18/missing/{f.__name__}/raises-{want.__name__}", ok, function=fn,
                    detail={"observed": repr(got)[:160]})


def termination(ses):
    import ceos_alos2.array as A
    import ceos_alos2.io as IO
    import ceos_alos2.sar_image as SI
    import ceos_alos2.sar_image.io as SIO
    import ceos_alos2.sar_image.metadata as SM
    import ceos_alos2.sar_leader.io as LIO
    import ceos_alos2.summary as S
    import ceos_alos2.volume_directory.io as VIO
    import ceos_alos2.xarray as X

    whiles = []
    recursive = []
    for mod in (A, IO, SI, SIO, SM, LIO, S, VIO, X):
        tree = ast.parse(inspect.getsource(mod))
        for node in ast.walk(tree):
            if isinstance(node, ast.While):
                whiles.append(f"{mod.__name__}:{node.lineno}")
    ses.decided("C18/termination/no-while-loop-in-the-reader-modules", not whiles, function="ceos_alos2", backend="syntactic",
                detail={"while_loops": whiles})


def bounded_image_truncation(ses):
    import numpy as np

    from ceos_alos2.xarray import open_alos2
    from native import e2e

    e2e.isolate_cache()
    n = 0
    bad = []
    for level in ("1.5", "1.1"):
        root = f"/c18/{level}"
        fs, images, names = e2e.make_product(root, k=1, level=level, seed=ses.seed)
        img = f"{root}/{names[2]}"
        full = fs.cat(img)
        nl, npx = images[0][2].shape
        R = (len(full) - 720) // nl
        cuts = sorted({0, 1, 719, 720, 721, len(full) - 1} | {720 + k * R + d for k in range(nl + 1) for d in (-1, 0, 1, 12, R // 2)})
        cuts = [c for c in cuts if 0 <= c < len(full)]
        for c in cuts:
            for rpc in sorted({1, max(1, nl - 1), nl, nl + 1}):
                fs.pipe(img, full[:c])
                n += 1
                try:
                    t = open_alos2(f"memory://{root}", backend_options={"use_cache": False, "records_per_chunk": rpc})
                except Exception:  # noqa: BLE001   fail-stop: the expected outcome
                    continue
                # open_alos2 returned a tree for a truncated file: it must at least not promise lines it cannot deliver
                node = t[f"imagery/{list(t['imagery'].children)[0]}"]
                try:
                    vals = node["data"].values
                    what = f"returned a tree; loading gives shape {vals.shape} (declared {tuple(node['data'].shape)})"
                except Exception as e:  # noqa: BLE001
                    what = f"returned a tree with declared shape {tuple(node['data'].shape)} whose lines cannot be loaded ({type(e).__name__})"
                bad.append((level, c, rpc, what))
        fs.pipe(img, full)
        # missing image file
        fs.rm(img)
        n += 1
        try:
            open_alos2(f"memory://{root}", backend_options={"use_cache": False})
            bad.append((level, "missing image", None, "returned"))
        except OSError:
            pass
        except Exception as e:  # noqa: BLE001
            bad.append((level, "missing image", None, f"{type(e).__name__} is not an OSError"))
    # a product with several images: each listed file missing in turn (one image of several too) - never a smaller tree
    for level in ("1.5", "1.1"):
        root = f"/c18/multi{level}"
        fs, images, names = e2e.make_product(root, k=3, level=level, seed=ses.seed + 7)
        for name in names[:-1]:  # volume directory, leader, each image
            keep = fs.cat(f"{root}/{name}")
            fs.rm(f"{root}/{name}")
            n += 1
            try:
                t = open_alos2(f"memory://{root}", backend_options={"use_cache": False})
                bad.append((level, f"missing {name} of a 3-image product", None,
                            f"returned a tree with imagery {list(t['imagery'].children)}"))
            except OSError:
                pass
            except Exception as e:  # noqa: BLE001
                bad.append((level, f"missing {name}", None, f"{type(e).__name__} is not an OSError"))
            fs.pipe(f"{root}/{name}", keep)
    ses.bounded_check("C18/bounded/truncated-or-missing-image", not bad,
                      bound=f"both levels; cuts at 0, 1, 719..721, every record boundary -1/0/+1/+12/+R/2, last byte; "
                            f"records_per_chunk in {{1, n-1, n, n+1}} ({n} opens)", function="ceos_alos2.xarray.open_alos2", evaluations=n,
                      replay=lambda m: {"confirmed": True, "input": {"level": bad[0][0], "cut": bad[0][1], "records_per_chunk": bad[0][2]},
                                        "observed": bad[0][3], "expected": "an exception"},
                      detail={"wrong": bad[:3]})
