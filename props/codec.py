"""Codec structure (C08): decode(encode(g), rpc) = g by structural induction over the hierarchy, on the real functions.

    encode(g)  = json.dumps(preprocess(encode_hierarchy(g)))                        (caching/__init__.py)
    decode(t)  = decode_hierarchy(json.loads(t, object_hook=postprocess), rpc)

Each function of caching/encoders.py and caching/decoders.py is executed by pyvc ONCE PER CONSTRUCTOR of its argument with
the children opaque; calls on children (recursive ones included) go through the callee's contract, i.e. the induction
hypothesis. What is proved, for every value of the opaque leaves and every length of lists / tuples / mappings:

 A  tuple tagging:  Hpost(preprocess(v)) = v for v ::= scalar | list | tuple | dict[str -> v], where Hpost is json.loads'
    bottom-up application of the real `postprocess` (JSON axiom). Precondition: attribute mappings do not use the reserved
    key "__type__" (obligation on the reader side: the attribute names of the record contracts).
 B  documents: the dict built for a group / variable / backend array / in-memory array carries exactly the fields of the
    object, is not mistaken for a tuple by `postprocess`, and the decoder rebuilds the object from exactly these fields with
    the read-time records_per_chunk; children in order; Group.__post_init__'s re-adjustment of children is the identity on
    hierarchies that satisfy the Group invariant (child.path = join(parent.path, name), url set).
 C  in-memory arrays: the composition decode_array(encode_array(A)) reduces, per dtype kind, to an instance of one of three
    numpy conversion axioms (tolist / array, int64 ticks, reference + offsets). The axioms themselves are numpy's contract:
    trusted here and validated bounded (props/c08.py) — never counted as proved.

A function body that leaves the verified subset is an engine limit: the bounded round trip stands in (c08.run).
"""
from __future__ import annotations

import json

import numpy as np
import z3

from pyvc.core import Path, StrSort, Sym, SymSeq, Unsupported, explore, z3_of
from pyvc.ops import as_str_term
from pyvc.interp import Interp
from pyvc.models import REGISTRY, BoundSymMethod, SymMap, eval_at_index

VAL = z3.DeclareSort("JsonVal")
PRE = z3.Function("preprocess_of", VAL, VAL)  # contract of a recursive preprocess call: some value P(x) with Hpost(P(x)) = x
ELEM = z3.Function("child", z3.IntSort(), VAL)
KEY = z3.Function("key", z3.IntSort(), StrSort)
PJOIN = z3.Function("posixpath_join", StrSort, StrSort, StrSort)
BRANGE = z3.Function("byte_range", z3.IntSort(), VAL)


def sstr(name):
    return Sym(z3.Const(name, StrSort), str)


class Opaque:
    """python type of an opaque value: its class is unknown, so isinstance / `is None` on it fork the path (the clean code never
    inspects a child; code that does is executed both ways)"""

    opaque_class = True


class OpaqueList(list):
    """an opaque value known to be a list (Variable.dims after normalisation, byte ranges)"""


class OpaqueDict(dict):
    """an opaque attribute mapping"""


class OpaqueTuple(tuple):
    """an opaque tuple (the shape)"""


def opaque(name, cls=Opaque):
    return Sym(z3.Const(name, VAL), cls)


class Mark:
    """ghost value produced by a contract: op(args); compared structurally"""

    is_symbolic_value = True

    def __init__(self, op, *args):
        self.op, self.args = op, args

    def key(self):
        return (self.op,) + tuple(_key(a) for a in self.args)

    def __repr__(self):
        return f"{self.op}({', '.join(map(_short, self.args))})"

    def __deepcopy__(self, memo):
        return self


def _short(v):
    try:
        return repr(v)[:80]
    except Exception:  # noqa: BLE001  (stubs built without __init__)
        return f"<{type(v).__name__}>"


def _key(v):
    if isinstance(v, (Mark, Nd)) or (hasattr(type(v), "key") and getattr(v, "is_symbolic_value", False)):
        return v.key()
    if isinstance(v, Sym):
        return ("sym", str(v.term))
    if isinstance(v, np.dtype):
        return ("dtype", str(v))
    if isinstance(v, np.generic):
        return ("npscalar", str(v.dtype), str(v))
    if isinstance(v, (list, tuple)):
        return (type(v).__name__,) + tuple(_key(x) for x in v)
    if isinstance(v, dict):
        return ("dict",) + tuple((k, _key(x)) for k, x in v.items())
    if isinstance(v, (str, int, float, bool, type(None))):
        return v
    return ("obj", id(v))


class Nd:
    """an n-d numpy array (or scalar) as a term over the opaque input array; dtype concrete. Operators build terms; nothing
    is computed. Only what the codec uses is defined: anything else raises and becomes an engine limit."""

    is_symbolic_value = True
    __array_priority__ = 1000

    def __init__(self, op, args=(), dtype=None):
        self.op, self.args, self._dtype = op, tuple(args), np.dtype(dtype) if dtype is not None else None

    def sym_isinstance(self, ts):
        return any(t in (np.ndarray, object) for t in ts)

    def key(self):
        return (self.op, str(self._dtype)) + tuple(_key(a) for a in self.args)

    def __repr__(self):
        return f"{self.op}<{self._dtype}>({', '.join(map(_short, self.args))})"

    def __deepcopy__(self, memo):
        return self

    # --- what encoders.py / decoders.py use -------------------------------------------------------------------------
    @property
    def dtype(self):
        return self._dtype

    @property
    def size(self):
        return Sym(z3.Int("size:" + json.dumps(self.key())), int)

    def tolist(self):
        return Mark("tolist", self)

    def astype(self, t):
        return Nd("astype", (self, str(np.dtype(t))), np.dtype(t))

    def reshape(self, *shape):
        return Nd("reshape", (self, shape), self._dtype)

    def __getitem__(self, k):
        return Nd("getitem", (self, k), self._dtype)

    def __invert__(self):
        return Nd("invert", (self,), self._dtype)

    def _arith(self, op, other, swapped):
        a, b = (other, self) if swapped else (self, other)
        ka = a._dtype.kind if isinstance(a, Nd) else np.asarray(a).dtype.kind
        kb = b._dtype.kind if isinstance(b, Nd) else np.asarray(b).dtype.kind
        ua = np.datetime_data(a.dtype)[0] if ka in "mM" else None
        ub = np.datetime_data(b.dtype)[0] if kb in "mM" else None
        if op == "sub" and ka == "M" and kb == "M" and ua == ub:
            return Nd("sub", (a, b), f"timedelta64[{ua}]")
        if op == "add" and {ka, kb} == {"M", "m"} and ua == ub:
            return Nd("add", (a, b), f"datetime64[{ua}]")
        raise Unsupported(f"numpy {op} of kinds {ka}, {kb} ({ua}, {ub}) has no axiom")

    def __sub__(self, o):
        return self._arith("sub", o, False)

    def __rsub__(self, o):
        return self._arith("sub", o, True)

    def __add__(self, o):
        return self._arith("add", o, False)

    def __radd__(self, o):
        return self._arith("add", o, True)

    def __array_ufunc__(self, ufunc, method, *inputs, **kw):
        if ufunc is np.isnat and method == "__call__" and not kw:
            return Nd("isnat", inputs, bool)
        if ufunc is np.subtract and method == "__call__" and not kw:
            return inputs[1]._arith("sub", inputs[0], True) if inputs[1] is self else self._arith("sub", inputs[1], False)
        if ufunc is np.add and method == "__call__" and not kw:
            return inputs[1]._arith("add", inputs[0], True) if inputs[1] is self else self._arith("add", inputs[1], False)
        raise Unsupported(f"numpy ufunc {ufunc.__name__} on an opaque array")

    def sym_str(self, it):
        return Mark("str", self)


def _nd_attr(it, obj, name):
    if name in ("dtype", "size"):
        return getattr(obj, name)
    if name in ("tolist", "astype", "reshape"):
        return getattr(obj, name)
    raise Unsupported(f"ndarray.{name} on an opaque array")


REGISTRY.attr_load[Nd] = _nd_attr
REGISTRY.truth[Nd] = lambda it, v: (_ for _ in ()).throw(Unsupported("truth value of an opaque array"))

# ---------------------------------------------------------------------------------------------------------------------
# numpy conversion axioms (trusted; validated bounded in c08.run). A is any array of the stated kind.
# ---------------------------------------------------------------------------------------------------------------------
AXIOMS = {
    "AX1": "kinds b,i,u,f,U:  np.array(A.tolist(), dtype=str(A.dtype)) == A   (bit-exact up to the NaN payload)",
    "AX2": "kind m:  np.array(A.astype('int64').tolist(), dtype=str(A.dtype)) == A",
    "AX3": "kind M, r = first non-NaT element of A (C order), or the epoch if there is none:  "
           "np.array(str(r), dtype=str(A.dtype)) + np.array((A - r).astype('int64').tolist(), dtype='timedelta64[unit(A)]') == A  "
           "provided every span A - r fits int64 ticks",
    "AX4": "a list L the encoder accepts: np.array(np.asarray(L).tolist(), dtype=str(np.asarray(L).dtype)) == np.asarray(L)",
}


def axiom_instance(term, A, path):
    """name of the axiom whose left-hand side is `term` (for the input array A), or None"""
    dt = str(A.dtype)
    k = _key(term)
    kind = A.dtype.kind
    if kind in "biufU" and k == _key(Nd("np.array", (Mark("tolist", A), dt), dt)):
        return "AX4" if A.op == "asarray" else "AX1"
    if kind == "m" and k == _key(Nd("np.array", (Mark("tolist", Nd("astype", (A, "int64"), "int64")), dt), dt)):
        return "AX2"
    if kind == "M":
        unit = np.datetime_data(A.dtype)[0]
        flat = Nd("reshape", (A, (-1,)), dt)
        valid = Nd("getitem", (flat, Nd("invert", (Nd("isnat", (flat,), bool),), bool)), dt)
        for ref, need in ((Nd("getitem", (valid, 0), dt), valid.size.term != 0), (np.datetime64(0, unit), valid.size.term == 0)):
            td = f"timedelta64[{unit}]"
            want = Nd("add", (Nd("np.array", (Mark("str", ref) if isinstance(ref, Nd) else str(ref), dt), dt),
                              Nd("np.array", (Mark("tolist", Nd("astype", (Nd("sub", (A, ref), td), "int64"), "int64")), td), td)), dt)
            if k == _key(want) and path.entails(z3.Implies(valid.size.term >= 0, need)):
                return "AX3"
    return None


# ---------------------------------------------------------------------------------------------------------------------
# harness
# ---------------------------------------------------------------------------------------------------------------------
QN = "ceos_alos2.sar_image.caching."


class Case:
    def __init__(self, ses, prop, name, function):
        self.ses, self.oid, self.function = ses, f"{prop}/codec/{name}", function
        self.n = 0

    def ok(self, what, cond, **detail):
        self.n += 1
        self.ses.decided(f"{self.oid}/{what}", bool(cond), function=self.function, kind="post", backend="pyvc-symbolic-execution",
                         detail={k: _short(v) for k, v in detail.items()} or None)

    def prove(self, what, hyps, goal):
        self.n += 1
        self.ses.prove(f"{self.oid}/{what}", list(hyps), goal, function=self.function, strings=True)


def each_path(ses, prop, name, function, run, hyps=()):
    """explore the paths of run(path) -> value; yields (case, path, value) for returning paths; a raising path is a failed
    obligation, an unsupported construct an engine limit"""
    try:
        results = explore(lambda path: run(path), hyps=list(hyps), max_paths=16)
    except Unsupported as e:
        ses.engine_limit(f"{prop}/codec/{name}/within-verified-subset", f"{e}"[:200], function=function, group="codec")
        return
    for i, r in enumerate(results):
        c = Case(ses, prop, name if len(results) == 1 else f"{name}/path{i}", function)
        if r.outcome == "undecided" or (r.outcome == "raise" and isinstance(r.exc, Unsupported)):
            ses.engine_limit(f"{prop}/codec/{name}/within-verified-subset", f"{r.exc}"[:200], function=function, group="codec")
            continue
        if r.outcome == "raise":
            # explored paths over-approximate the feasible ones and a native library may have rejected a symbolic value: an
            # exception path proves nothing either way; the bounded round trips decide whether the real code raises
            from pyvc.core import exc_text

            ses.engine_limit(f"{prop}/codec/{name}/returns", f"path raises {exc_text(r.exc)}"[:200], function=function, group="codec")
            continue
        yield c, r.path, r.value


def hpost(it, post, v):
    """JSON axiom: json.loads(json.dumps(x), object_hook=h) applies h bottom-up to every object; lists stay lists. Ghost
    values standing for 'the JSON image of an opaque child' are mapped by the induction hypothesis before this is called."""
    if isinstance(v, dict):
        return it.call(post, [{k: hpost(it, post, x) for k, x in v.items()}], {})
    if isinstance(v, list):
        return [hpost(it, post, x) for x in v]
    return v


def composition(ses, prop):
    """caching.encode / caching.decode as compositions of their parts (each part under its own contract), and the text
    format options of the document"""
    from ceos_alos2.sar_image import caching
    from ceos_alos2.sar_image.caching import decoders as D

    fq = {caching.encode: ses.under_contract(caching.encode)}
    ses.under_contract(caching.decode)
    RPC = Sym(z3.Int("rpc_read"), int)
    # ------------------------------------------------------------------------------------------------- composition
    def run_top(path):
        order = []

        def c_enc(it, a, k):
            order.append("encode_hierarchy")
            return Mark("E", a[0])

        def c_pre(it, a, k):
            order.append("preprocess")
            return Mark("P", a[0])

        def c_dec(it, a, k):
            order.append("decode_hierarchy")
            return Mark("D", a[0], k.get("records_per_chunk", a[1] if len(a) > 1 else None))
        it = Interp(path, contracts={QN + "encoders.encode_hierarchy": c_enc, QN + "encoders.preprocess": c_pre,
                                     QN + "decoders.decode_hierarchy": c_dec})
        old = REGISTRY.calls.get(json.dumps), REGISTRY.calls.get(json.loads)
        hooks = []
        dumps_kw = []

        def dumps(it_, a, k):
            dumps_kw.append(dict(k))
            # any keyword that keeps the text a JSON document of the same value; ensure_ascii is recorded for the caller
            return Mark("json.dumps", a[0]) if len(a) == 1 and set(k) <= {"ensure_ascii", "separators", "sort_keys", "indent"} \
                and not k.get("sort_keys") else NotImplemented
        REGISTRY.calls[json.dumps] = dumps

        def loads(it_, a, k):
            hooks.append(k.get("object_hook"))
            return Mark("json.loads", a[0]) if len(a) == 1 and set(k) == {"object_hook"} else NotImplemented
        REGISTRY.calls[json.loads] = loads
        try:
            g = Mark("g")
            text = it.call(it.shim(caching.encode), [g], {})
            back = it.call(it.shim(caching.decode), [text, RPC], {})
        finally:
            for f, o in zip((json.dumps, json.loads), old):
                if o is None:
                    REGISTRY.calls.pop(f, None)
                else:
                    REGISTRY.calls[f] = o
        return text, back, hooks, order, dumps_kw
    for c, path, (text, back, hooks, order, dumps_kw) in each_path(ses, prop, "composition", fq[caching.encode], run_top):
        # json.dumps escapes every non-ASCII character unless told otherwise: the document is ASCII, so that every byte
        # prefix of it (a crash during the write) is still decodable text - what C09's torn-cache contract rests on
        if prop == "C09":
            c.ok("document-is-ASCII-text(ensure_ascii-left-on)", len(dumps_kw) == 1 and dumps_kw[0].get("ensure_ascii", True) is True,
                 kwargs=dumps_kw)
        c.ok("encode=json.dumps(preprocess(encode_hierarchy(g)))", isinstance(text, Mark) and
             text.key() == ("json.dumps", ("P", ("E", ("g",)))), text=text)
        hook = hooks[0] if len(hooks) == 1 else None
        c.ok("decode-loads-with-object_hook=postprocess", getattr(hook, "__qualname__", None) == QN + "decoders.postprocess" or hook is D.postprocess,
             hook=hook)
        c.ok("decode=decode_hierarchy(json.loads(text), read-time-rpc)", isinstance(back, Mark) and
             back.key() == ("D", ("json.loads", ("json.dumps", ("P", ("E", ("g",))))), ("sym", "rpc_read")), back=back)



def run(ses, prop="C08"):
    from ceos_alos2 import hierarchy as H
    from ceos_alos2.array import Array
    from ceos_alos2.sar_image import caching
    from ceos_alos2.sar_image.caching import decoders as D
    from ceos_alos2.sar_image.caching import encoders as E

    n_before = len(ses.obligations) if hasattr(ses, "obligations") else 0
    fq = {f: ses.under_contract(f) for f in (E.preprocess, D.postprocess, E.encode_array, E.encode_timedelta, E.encode_datetime,
                                             E.encode_variable, E.encode_group, E.encode_hierarchy, D.decode_array, D.decode_datetime,
                                             D.decode_variable, D.decode_group, D.decode_hierarchy, caching.encode, caching.decode,
                                             H.Group.__post_init__, H.Group._adjust_item, H.Variable.__post_init__)}
    n = z3.Int("n")
    j = z3.Int("j")
    HY = [n >= 0]

    def pre_contract(it, a, k):
        x = a[0]
        if isinstance(x, Sym) and x.pyt is Opaque and not k and len(a) == 1:
            return Sym(PRE(x.term), Opaque)
        raise Unsupported("preprocess called on something that is not a child of its argument")

    def children(cls):
        return SymSeq(Sym(n, int), lambda i: Sym(ELEM(z3_of(i)), Opaque), cls)

    # ------------------------------------------------------------------------------------------------------------ A
    for tname, pyt in (("str", str), ("int", int), ("float", float), ("bool", bool)):
        def run_scalar(path, pyt=pyt):
            it = Interp(path, contracts={QN + "encoders.preprocess": pre_contract})
            srt = {str: lambda nm: z3.Const(nm, StrSort), int: z3.Int, float: lambda nm: z3.FP(nm, z3.Float64()), bool: z3.Bool}[pyt]
            x = Sym(srt("x"), pyt)
            return x, it.call_body(it.shim(E.preprocess), [x], {})
        for c, path, (x, r) in each_path(ses, prop, f"preprocess/scalar-{tname}", fq[E.preprocess], run_scalar):
            c.ok("returned-unchanged", r is x, result=r)

    def run_none(path):
        it = Interp(path, contracts={QN + "encoders.preprocess": pre_contract})
        return it.call_body(it.shim(E.preprocess), [None], {})
    for c, path, r in each_path(ses, prop, "preprocess/scalar-None", fq[E.preprocess], run_none):
        c.ok("returned-unchanged", r is None, result=r)

    def elementwise(c, it, seq, want_fn, what):
        c.ok(f"{what}-is-a-sequence", isinstance(seq, SymSeq), value=seq)
        if not isinstance(seq, SymSeq):
            return
        c.prove(f"{what}-length", HY, seq.len_term() == n)
        e = eval_at_index(it, seq.len_term(), Sym(j, int), lambda i: seq.at(i))
        c.ok(f"{what}-element-is-opaque-child-term", isinstance(e, Sym) and e.pyt is Opaque, element=e)
        if isinstance(e, Sym) and e.pyt is Opaque:
            c.prove(f"{what}-element-j", HY + [j >= 0, j < n], e.term == want_fn(j))

    # list
    def run_list(path):
        it = Interp(path, contracts={QN + "encoders.preprocess": pre_contract})
        return it, it.call_body(it.shim(E.preprocess), [children(list)], {})
    for c, path, (it, r) in each_path(ses, prop, "preprocess/list", fq[E.preprocess], run_list, HY):
        c.ok("result-is-list", isinstance(r, SymSeq) and r.pycls is list, result=r)
        elementwise(c, it, r, lambda i: PRE(ELEM(i)), "result")
        # json: a list of P(child_i) loads as the list of Hpost(P(child_i)) = child_i (induction hypothesis): the input

    # tuple: tagged by preprocess, restored by the real postprocess from the JSON image
    def run_tuple(path):
        it = Interp(path, contracts={QN + "encoders.preprocess": pre_contract})
        r = it.call_body(it.shim(E.preprocess), [children(tuple)], {})
        back = None
        if isinstance(r, dict) and list(r) == ["__type__", "data"] and isinstance(r["data"], SymSeq):
            image = {"__type__": r["__type__"], "data": children(list)}  # JSON image with the induction hypothesis applied
            back = it.call(it.shim(D.postprocess), [image], {})
        return it, r, back
    for c, path, (it, r, back) in each_path(ses, prop, "preprocess-postprocess/tuple", fq[E.preprocess], run_tuple, HY):
        good = isinstance(r, dict) and list(r) == ["__type__", "data"] and r["__type__"] == "tuple"
        c.ok("tagged-document", good, result=r)
        if good:
            c.ok("data-is-list", isinstance(r["data"], SymSeq) and r["data"].pycls is list, data=r["data"])
            elementwise(c, it, r["data"], lambda i: PRE(ELEM(i)), "data")
            c.ok("postprocess-restores-a-tuple", isinstance(back, SymSeq) and back.pycls is tuple, back=back)
            elementwise(c, it, back, lambda i: ELEM(i), "restored")

    # dict (attribute mapping without the reserved key)
    def mapping(absent=("__type__",)):
        m = SymMap(Sym(n, int), lambda i: Sym(KEY(z3_of(i)), str), lambda i: Sym(ELEM(z3_of(i)), Opaque))
        m.absent = frozenset(absent)
        return m

    def run_dict(path):
        it = Interp(path, contracts={QN + "encoders.preprocess": pre_contract})
        r = it.call_body(it.shim(E.preprocess), [mapping(absent=())], {})  # any keys: the type-tagged documents are mappings too
        image = mapping()
        back = it.call(it.shim(D.postprocess), [image], {})
        return it, r, image, back
    for c, path, (it, r, image, back) in each_path(ses, prop, "preprocess-postprocess/dict", fq[E.preprocess], run_dict, HY):
        c.ok("result-is-mapping", isinstance(r, SymMap), result=r)
        if isinstance(r, SymMap):
            c.prove("same-number-of-entries", HY, z3_of(r.n) == n)
            kk = eval_at_index(it, z3_of(r.n), Sym(j, int), lambda i: r.key_fn(i))
            vv = eval_at_index(it, z3_of(r.n), Sym(j, int), lambda i: r.val_fn(i))
            c.ok("entry-shapes", isinstance(kk, Sym) and kk.pyt is str and isinstance(vv, Sym) and vv.pyt is Opaque, key=kk, value=vv)
            if isinstance(kk, Sym) and isinstance(vv, Sym):
                c.prove("key-j-kept-in-place", HY + [j >= 0, j < n], kk.term == KEY(j))
                c.prove("value-j-is-preprocess(value-j)", HY + [j >= 0, j < n], vv.term == PRE(ELEM(j)))
        c.ok("postprocess-leaves-an-attribute-mapping-alone", back is image, back=back)

    # ------------------------------------------------------------------------------------------------------------ C
    RPC = Sym(z3.Int("rpc_read"), int)

    def with_numpy_models(fn):
        old_array, old_asarray, old_str = REGISTRY.calls.get(np.array), REGISTRY.calls.get(np.asarray), REGISTRY.calls.get(str)

        def array_model(it, a, k):
            if a and isinstance(a[0], (Mark, Nd)) and set(k) <= {"dtype"} and len(a) == 1 and "dtype" in k:
                return Nd("np.array", (a[0], str(k["dtype"])), k["dtype"])
            if a and isinstance(a[0], str) and set(k) == {"dtype"} and len(a) == 1 and np.dtype(k["dtype"]).kind == "M":
                return Nd("np.array", (a[0], str(k["dtype"])), k["dtype"])  # the reference timestamp text
            return old_array(it, a, k) if old_array else NotImplemented

        def asarray_model(it, a, k):
            if a and isinstance(a[0], ListStub) and not k and len(a) == 1:
                return Nd("asarray", (a[0],), a[0].dtype)
            return old_asarray(it, a, k) if old_asarray else NotImplemented

        def str_model(it, a, k):
            if len(a) == 1 and hasattr(type(a[0]), "sym_str"):
                return a[0].sym_str(it)
            return old_str(it, a, k) if old_str else NotImplemented
        REGISTRY.calls[np.array], REGISTRY.calls[np.asarray], REGISTRY.calls[str] = array_model, asarray_model, str_model
        try:
            return fn()
        finally:
            for f, o in ((np.array, old_array), (np.asarray, old_asarray), (str, old_str)):
                if o is None:
                    REGISTRY.calls.pop(f, None)
                else:
                    REGISTRY.calls[f] = o

    class ListStub:
        """per-line metadata stored as a plain list: opaque, np.asarray gives it a dtype"""

        is_symbolic_value = True

        def __init__(self, dtype):
            self.dtype = np.dtype(dtype)

        def key(self):
            return ("list-of", str(self.dtype))

        def sym_isinstance(self, ts):
            return any(t in (list, object) for t in ts)

    kinds = [("b", "bool"), ("i", "int8"), ("i", "int64"), ("u", "uint16"), ("u", "uint64"), ("f", "float32"), ("f", "float64"),
             ("U", "<U7"), ("m", "timedelta64[ns]"), ("m", "timedelta64[ms]"), ("M", "datetime64[ns]"), ("M", "datetime64[s]"),
             ("M", "datetime64[D]")]
    inputs = [(f"ndarray-{dt}", lambda dt=dt: Nd("A", (), dt)) for _, dt in kinds]
    inputs += [(f"list-{dt}", lambda dt=dt: ListStub(dt)) for dt in ("int64", "float64", "datetime64[ns]")]
    for label, make in inputs:
        def run_array(path, make=make):
            it = Interp(path)
            A = make()
            doc = it.call(it.shim(E.encode_array), [A], {})
            A_nd = A if isinstance(A, Nd) else Nd("asarray", (A,), A.dtype)
            # JSON: the document is a dict of str / list / dict leaves; its Hpost image is itself if postprocess leaves every
            # object alone (checked below on the real postprocess); opaque `tolist` leaves are lists of scalars
            post = it.shim(D.postprocess)
            untouched = True
            if isinstance(doc, dict):
                for d in (doc, doc.get("encoding")):
                    if isinstance(d, dict):
                        untouched = untouched and it.call(post, [d], {}) is d
            back = it.call(it.shim(D.decode_array), [doc], {"records_per_chunk": RPC}) if isinstance(doc, dict) else None
            return A_nd, doc, untouched, back
        for c, path, (A, doc, untouched, back) in with_numpy_models(
                lambda: list(each_path(ses, prop, f"array/{label}", fq[E.encode_array], run_array))):
            good = isinstance(doc, dict) and list(doc) == ["__type__", "dtype", "data", "encoding"] and doc["__type__"] == "array"
            c.ok("document-shape", good, doc=doc)
            if not good:
                continue
            c.ok("dtype-text-is-str(dtype)", doc["dtype"] == str(A.dtype), dtype=doc["dtype"])
            enc = doc["encoding"]
            c.ok("document-is-JSON-text-only", isinstance(doc["data"], Mark) and doc["data"].op == "tolist" and isinstance(enc, dict)
                 and all(isinstance(k, str) and isinstance(v, (str, Mark)) for k, v in enc.items()), data=doc["data"], encoding=enc)
            c.ok("postprocess-leaves-the-document-alone", untouched)
            ax = axiom_instance(back, A, path) if isinstance(back, Nd) else None
            if ax is None:
                ses.engine_limit(f"{c.oid}/decode(encode(A))-is-an-axiom-instance",
                                 f"decode_array(encode_array(A)) = {back!r:.300} is not the left-hand side of a numpy axiom", function=fq[D.decode_array],
                                 group="codec")
            else:
                c.ok(f"decode(encode(A))-is-an-instance-of-{ax}", True, term=back)
                c.ok("decoded-dtype", isinstance(back, Nd) and back.dtype == A.dtype, dtype=getattr(back, "dtype", None))

    # backend array
    import fsspec
    from fsspec.implementations.dirfs import DirFileSystem

    class FsStub:
        def __init__(self, path, fs):
            self.path, self.fs = path, fs

    class MapperStub:
        def __init__(self, root):
            self.root, self.fs = root, Mark("filesystem-of", root)

    for tc, dt in (("IU2", "uint16"), ("C*8", "complex64")):
        def run_backend(path, tc=tc, dt=dt):
            it = Interp(path)
            arr = object.__new__(Array)
            fields = {"fs": FsStub(sstr("root"), Mark("filesystem-of", "original")), "url": sstr("url"),
                      "shape": (Sym(z3.Int("rows"), int), Sym(z3.Int("columns"), int)), "dtype": np.dtype(dt),
                      "byte_ranges": SymSeq(Sym(z3.Int("n_ranges"), int), lambda i: Sym(BRANGE(z3_of(i)), OpaqueTuple), list),
                      "type_code": sstr("type_code"), "records_per_chunk": Sym(z3.Int("rpc_written"), int)}
            for k_, v_ in fields.items():
                object.__setattr__(arr, k_, v_)
            doc = it.call(it.shim(E.encode_array), [arr], {})
            built = []
            old = (REGISTRY.calls.get(fsspec.get_mapper), REGISTRY.constructors.get(DirFileSystem), REGISTRY.constructors.get(Array))
            REGISTRY.calls[fsspec.get_mapper] = lambda it_, a, k: MapperStub(a[0]) if len(a) == 1 and not k else NotImplemented
            REGISTRY.constructors[DirFileSystem] = lambda it_, cls, a, k: FsStub(k["path"], k["fs"]) if not a and set(k) == {"path", "fs"} else NotImplemented
            REGISTRY.constructors[Array] = lambda it_, cls, a, k: built.append((a, k)) or Mark("Array", len(built))
            try:
                post_ok = isinstance(doc, dict) and it.call(it.shim(D.postprocess), [doc], {}) is doc
                back = it.call(it.shim(D.decode_array), [doc], {"records_per_chunk": RPC}) if isinstance(doc, dict) else None
            finally:
                for reg, key_, o in ((REGISTRY.calls, fsspec.get_mapper, old[0]), (REGISTRY.constructors, DirFileSystem, old[1]),
                                     (REGISTRY.constructors, Array, old[2])):
                    if o is None:
                        reg.pop(key_, None)
                    else:
                        reg[key_] = o
            return it, fields, doc, post_ok, back, built
        for c, path, (it, fields, doc, post_ok, back, built) in each_path(ses, prop, f"backend-array/{tc}", fq[E.encode_array], run_backend,
                                                                            [z3.Int("n_ranges") >= 0, z3.Int("rows") >= 0, z3.Int("columns") >= 0]):
            want = {"__type__": "backend_array", "root": fields["fs"].path, "url": fields["url"], "shape": fields["shape"],
                    "dtype": str(fields["dtype"]), "byte_ranges": fields["byte_ranges"], "type_code": fields["type_code"]}
            good = isinstance(doc, dict) and list(doc) == list(want) and all(doc[k_] is want[k_] or (isinstance(want[k_], str) and doc[k_] == want[k_])
                                                                           for k_ in want)
            c.ok("document-carries-exactly-the-array-fields", good, doc=doc)
            c.ok("write-time-records_per_chunk-not-stored", isinstance(doc, dict) and "records_per_chunk" not in doc)
            c.ok("postprocess-leaves-the-document-alone", post_ok)
            one = len(built) == 1 and not built[0][0] and isinstance(back, Mark) and back.op == "Array"
            c.ok("decoder-builds-one-Array", one, built=built)
            if one and good:
                kw = built[0][1]
                c.ok("Array-fields-restored", set(kw) == {"fs", "url", "byte_ranges", "shape", "dtype", "type_code", "records_per_chunk"}
                     and all(kw[k_] is fields[k_] for k_ in ("url", "shape", "type_code")) and kw["dtype"] == str(fields["dtype"]),
                     kwargs=kw)
                br = kw.get("byte_ranges")
                if br is not fields["byte_ranges"]:
                    # rebuilt sequence: same length (whatever the number of ranges and the shape are) and same elements
                    nr = z3.Int("n_ranges")
                    hy = [nr >= 0, z3.Int("rows") >= 0, z3.Int("columns") >= 0]
                    c.ok("byte_ranges-is-a-list", isinstance(br, SymSeq) and br.pycls is list, value=br)
                    if isinstance(br, SymSeq):
                        c.prove("byte_ranges-length", hy, br.len_term() == nr)
                        e = eval_at_index(it, br.len_term(), Sym(j, int), lambda i: br.at(i))
                        c.ok("byte_ranges-element-is-a-range", isinstance(e, Sym) and e.pyt is OpaqueTuple, element=e)
                        if isinstance(e, Sym) and e.pyt is OpaqueTuple:
                            c.prove("byte_ranges-element-j", hy + [j >= 0, j < br.len_term()], e.term == BRANGE(j))
                else:
                    c.ok("byte_ranges-unchanged", True)
                c.ok("read-time-records_per_chunk-handed-to-Array", kw.get("records_per_chunk") is RPC, rpc=kw.get("records_per_chunk"))
                fs = kw.get("fs")
                c.ok("filesystem-rooted-at-the-stored-root", isinstance(fs, FsStub) and fs.path is fields["fs"].path and isinstance(fs.fs, Mark)
                     and fs.fs.key() == ("filesystem-of", ("sym", "root")), fs=getattr(fs, "path", None))

    # ------------------------------------------------------------------------------------------------------------ B
    DIMS, ATTRS = opaque("dims", OpaqueList), opaque("attrs", OpaqueDict)

    def run_variable(path):
        seen = []

        def enc_array(it, a, k):
            seen.append(("encode_array", a, k))
            return Mark("encode_array", a[0])

        def dec_array(it, a, k):
            seen.append(("decode_array", a, k))
            return Mark("decode_array", a[0], k.get("records_per_chunk", a[1] if len(a) > 1 else None))
        it = Interp(path, contracts={QN + "encoders.encode_array": enc_array, QN + "decoders.decode_array": dec_array})
        A = Mark("array-A")
        var = H.Variable(dims=DIMS, data=A, attrs=ATTRS)
        doc = it.call(it.shim(E.encode_variable), [var], {})
        post_ok = isinstance(doc, dict) and it.call(it.shim(D.postprocess), [doc], {}) is doc
        image = dict(doc, data=Mark("json-image", doc["data"])) if isinstance(doc, dict) and "data" in doc else None
        back = it.call(it.shim(D.decode_variable), [image], {"records_per_chunk": RPC}) if image else None
        return A, doc, post_ok, back
    for c, path, (A, doc, post_ok, back) in each_path(ses, prop, "variable", fq[E.encode_variable], run_variable):
        good = isinstance(doc, dict) and list(doc) == ["__type__", "dims", "data", "attrs"] and doc["__type__"] == "variable" and \
            doc["dims"] is DIMS and doc["attrs"] is ATTRS and isinstance(doc["data"], Mark) and doc["data"].key() == ("encode_array", ("array-A",))
        c.ok("document-carries-dims-data-attrs", good, doc=doc)
        c.ok("postprocess-leaves-the-document-alone", post_ok)
        ok = isinstance(back, H.Variable) and back.dims is DIMS and back.attrs is ATTRS and isinstance(back.data, Mark) and \
            back.data.key() == ("decode_array", ("json-image", ("encode_array", ("array-A",))), ("sym", "rpc_read"))
        c.ok("decoder-rebuilds-Variable(dims, decode_array(image-of-encode_array(data), read-time-rpc), attrs)", ok, back=back)

    # decode_hierarchy / encode_hierarchy dispatch
    def run_dispatch(path):
        calls = []

        def mk(name):
            def contract(it, a, k):
                calls.append((name, a, k))
                return Mark(name, *a, *[k[x] for x in sorted(k)])
            return contract
        it = Interp(path, contracts={QN + f"{m}.{f}": mk(f) for m, f in (("encoders", "encode_group"), ("encoders", "encode_variable"),
                                                                           ("decoders", "decode_group"), ("decoders", "decode_variable"))})
        g = object.__new__(H.Group)
        v = H.Variable(dims=DIMS, data=Mark("array-A"), attrs=ATTRS)
        out = {"enc-group": it.call(it.shim(E.encode_hierarchy), [g], {}), "enc-variable": it.call(it.shim(E.encode_hierarchy), [v], {})}
        for t in ("group", "variable"):
            doc = {"__type__": t, "payload": opaque("payload")}
            out["dec-" + t] = (doc, it.call(it.shim(D.decode_hierarchy), [doc], {"records_per_chunk": RPC}))
        return g, v, out
    for c, path, (g, v, out) in each_path(ses, prop, "dispatch", fq[D.decode_hierarchy], run_dispatch):
        c.ok("encode_hierarchy(group)=encode_group(group)", isinstance(out["enc-group"], Mark) and out["enc-group"].op == "encode_group"
             and out["enc-group"].args == (g,), got=out["enc-group"])
        c.ok("encode_hierarchy(variable)=encode_variable(variable)", isinstance(out["enc-variable"], Mark) and
             out["enc-variable"].op == "encode_variable" and out["enc-variable"].args == (v,), got=out["enc-variable"])
        for t in ("group", "variable"):
            doc, r = out["dec-" + t]
            c.ok(f"decode_hierarchy({t}-document)=decode_{t}(document, read-time-rpc)", isinstance(r, Mark) and r.op == f"decode_{t}"
                 and r.args[0] is doc and r.args[1] is RPC and len(r.args) == 2, got=r)

    # groups: k children of every kind combination, each opaque (the induction hypothesis is the contract of the calls on them)
    PATH, URL, GATTRS = sstr("path"), sstr("url"), opaque("group_attrs", OpaqueDict)

    def child(kind, name):
        if kind == "V":
            return H.Variable(dims=opaque(f"dims_{name}", OpaqueList), data=Mark(f"array-{name}"), attrs=opaque(f"attrs_{name}", OpaqueDict))
        g = object.__new__(H.Group)
        g.path = Sym(PJOIN(PATH.term, as_str_term(name)), str)  # Group invariant: established by Group.__post_init__
        g.url = sstr(f"url_{name}")
        g.attrs = opaque(f"attrs_{name}", OpaqueDict)
        g.data = {"grandchild": Mark(f"grandchild-of-{name}")}
        return g

    import posixpath

    for combo in ("", "V", "G", "VG", "GV", "VV", "GG"):
        def run_group(path, combo=combo):
            names = [f"k{9 - i}" for i in range(len(combo))]  # insertion order differs from the sorted order
            kids = {nm: child(kd, nm) for nm, kd in zip(names, combo)}
            g = object.__new__(H.Group)
            g.path, g.url, g.attrs, g.data = PATH, URL, GATTRS, kids
            log = []

            def enc(it, a, k):
                if len(a) == 1 and not k and any(a[0] is x for x in kids.values()):
                    return Mark("document-of", a[0])
                raise Unsupported("encoder called on something that is not a child")

            def dec(it, a, k):
                x = a[0]
                r = k.get("records_per_chunk", a[1] if len(a) > 1 else None)
                log.append(r)
                if isinstance(x, Mark) and x.op == "json-image" and r is RPC:
                    return x.args[0].args[0]  # induction hypothesis: decode(image of encode(child), rpc) = child
                return Mark("decoded-with-other-arguments", x, r)

            def adjust(it, a, k):
                slf, name, value = a
                if isinstance(value, Mark) and value.op.startswith("grandchild"):
                    # induction hypothesis for the nested re-adjustment: the identity on hierarchies satisfying the invariant
                    return value
                return it.call_body(it.shim(H.Group._adjust_item), a, k)
            it = Interp(path, contracts={QN + "encoders.encode_group": enc, QN + "encoders.encode_variable": enc,
                                         QN + "decoders.decode_hierarchy": dec, "ceos_alos2.hierarchy.Group._adjust_item": adjust})
            oldj = REGISTRY.calls.get(posixpath.join)
            REGISTRY.calls[posixpath.join] = lambda it_, a, k: Sym(PJOIN(as_str_term(a[0]), as_str_term(a[1])), str) \
                if len(a) == 2 and not k else NotImplemented
            try:
                doc = it.call_body(it.shim(E.encode_group), [g], {})
                post_ok = isinstance(doc, dict) and it.call(it.shim(D.postprocess), [doc], {}) is doc and \
                    isinstance(doc.get("data"), dict) and it.call(it.shim(D.postprocess), [doc["data"]], {}) is doc["data"]
                image = None
                if isinstance(doc, dict) and isinstance(doc.get("data"), dict):
                    image = dict(doc, data={k_: Mark("json-image", v_) for k_, v_ in doc["data"].items()})
                back = it.call(it.shim(D.decode_group), [image], {"records_per_chunk": RPC}) if image else None
            finally:
                if oldj is None:
                    REGISTRY.calls.pop(posixpath.join, None)
                else:
                    REGISTRY.calls[posixpath.join] = oldj
            return it, g, kids, doc, post_ok, back, log
        name = f"group/children={combo or 'none'}"
        for c, path, (it, g, kids, doc, post_ok, back, log) in each_path(ses, prop, name, fq[E.encode_group], run_group):
            good = isinstance(doc, dict) and list(doc) == ["__type__", "url", "data", "path", "attrs"] and doc["__type__"] == "group" and \
                doc["url"] is URL and doc["path"] is PATH and doc["attrs"] is GATTRS and isinstance(doc["data"], dict) and \
                list(doc["data"]) == list(kids) and all(isinstance(v_, Mark) and v_.op == "document-of" and v_.args[0] is kids[k_]
                                                        for k_, v_ in doc["data"].items())
            c.ok("document-carries-url-path-attrs-and-the-children-documents-in-order", good, doc=doc)
            c.ok("postprocess-leaves-the-document-alone", post_ok)
            c.ok("children-decoded-with-the-read-time-rpc", all(r is RPC for r in log) and len(log) == len(kids), log=log)
            ok = isinstance(back, H.Group) and back.path is PATH and back.url is URL and back.attrs is GATTRS and \
                isinstance(back.data, dict) and list(back.data) == list(kids)
            c.ok("decoder-rebuilds-Group(path, url, children-in-order, attrs)", ok, back=back)
            if not ok:
                continue
            for k_, orig in kids.items():
                new = back.data[k_]
                if isinstance(orig, H.Variable):
                    c.ok(f"child-{k_}-variable-unchanged", isinstance(new, H.Variable) and new.dims is orig.dims and new.data is orig.data
                         and new.attrs is orig.attrs, new=new)
                else:
                    same = isinstance(new, H.Group) and new.url is orig.url and new.attrs is orig.attrs and isinstance(new.data, dict) and \
                        list(new.data) == list(orig.data) and all(new.data[x] is orig.data[x] for x in orig.data) and isinstance(new.path, Sym)
                    c.ok(f"child-{k_}-group-fields-unchanged", same, new=new)
                    if same:
                        c.prove(f"child-{k_}-group-path-unchanged", [], new.path.term == orig.path.term)

    composition(ses, prop)

    ses.trust("json: loads(dumps(x), object_hook=h) = h applied bottom-up to x for x built from dict[str]/list/str/int/float/bool/None "
              "(ints exact, float repr round trip, NaN/Infinity tokens, non-ASCII escaped and restored)",
              "numpy conversion axioms " + "; ".join(f"{k}: {v}" for k, v in AXIOMS.items()),
              "toolz.valmap is pointwise and order preserving (groups are executed with 0, 1, 2 children of every kind combination; the "
              "per-child obligations are parametric in the child)",
              "fsspec.get_mapper(root) for the stored root gives a filesystem equal to the original one (holds for local paths; the "
              "non-local case is the known finding of C07)")
    ses.assume("attribute mappings do not use the reserved key '__type__'; attribute values are JSON values plus tuples; "
               "hierarchies satisfy the Group invariant that Group.__post_init__ establishes (child.path = join(path, name), url set)")
