"""Record contracts: symbolic execution of the real reader entry points on a symbolic file, compared with the
specification tables in spec/tables (pyvc.tables).  Used by C03, C04, C05, C12, C16, C17, C20.

Entry points ("units"):
  leader   ceos_alos2.sar_leader.io.open_sar_leader(mapper, path)        (whole leader file, symbolic N / L / counts)
  volume   ceos_alos2.volume_directory.io.open_volume_directory(mapper, path)
  trailer  ceos_alos2.sar_trailer.read_sar_trailer(f)
  (image units are defined in props/imageunit.py and registered here)

Every path of a unit is run in a worker process (pyvc.harness.explore_parallel); the analyses requested by the
calling property are applied to the path inside the worker and come back as obligations.
"""
from __future__ import annotations

import json
import os
import sys
import tempfile
import time

import z3

import pyvc  # noqa: F401
from pyvc import dump as D
from pyvc import tables
from pyvc.absobj import SymFS, SymMapper
from pyvc.core import DeadPath, Path, PathResult, Undecided, canon_sexpr, exc_text
from pyvc.harness import explore_parallel
from pyvc.interp import Interp
from pyvc.vc import Session

sys.setrecursionlimit(20000)


# ---------------------------------------------------------------------------------------------------
# units
# ---------------------------------------------------------------------------------------------------
def unit_leader(path, extra):
    from ceos_alos2.sar_leader.io import open_sar_leader

    it = Interp(path)
    it.assume_available = not extra.get("truncation", False)
    extra["it"] = it
    mapper = SymMapper(SymFS())
    return it.call(it.shim(open_sar_leader), [mapper, "LED"], {})


def unit_volume(path, extra):
    from ceos_alos2.volume_directory.io import open_volume_directory

    it = Interp(path)
    it.assume_available = not extra.get("truncation", False)
    extra["it"] = it
    mapper = SymMapper(SymFS())
    return it.call(it.shim(open_volume_directory), [mapper, "VOL"], {})


def unit_trailer(path, extra):
    from ceos_alos2.sar_trailer import read_sar_trailer

    def image_contract(it, a, k):
        # modular call of sar_trailer.image_data.parse_image_data(content, shape, n_bytes): the image is the given
        # bytes window interpreted with the given shape / sample width (numpy, T5)
        content, shape, n_bytes = a
        return {"low_res_image": {"content": content, "shape": shape, "n_bytes": n_bytes}}

    it = Interp(path, contracts={"ceos_alos2.sar_trailer.image_data.parse_image_data": image_contract})
    it.assume_available = not extra.get("truncation", False)
    extra["it"] = it
    fs = SymFS()
    f = fs.sym_method(it, "open", ["TRL"], {"mode": "rb"})
    return it.call(it.shim(read_sar_trailer), [f], {})


def _functions(unit):
    """real functions / declarations under contract for a unit (recorded with source hashes in the evidence)"""
    import ceos_alos2.datatypes as DT
    import ceos_alos2.dicttoolz as DZ
    import ceos_alos2.transformers as TR
    import ceos_alos2.utils as U

    common = [U.to_dict, U.rename, U.remove_nesting_layer, U.starcall, TR.remove_spares, TR.as_group, TR.as_variable,
              TR.item_type, TR.separate_attrs, TR.transform_nested, TR.normalize_datetime, DZ.dissoc, DZ.apply_to_items,
              DZ.copy_items, DZ.move_items, DZ.itemsplit, DZ.keysplit,
              DT.AsciiInteger._decode, DT.AsciiFloat._decode, DT.AsciiComplex._decode, DT.PaddedString._decode,
              DT.Factor._decode, DT.Metadata._decode, DT.StripNullBytes._decode, DT.DatetimeYdms._decode,
              DT.DatetimeYdus._decode]
    decls = []
    if unit == "leader":
        import ceos_alos2.sar_leader.attitude as A
        import ceos_alos2.sar_leader.data_quality_summary as Q
        import ceos_alos2.sar_leader.dataset_summary as S
        import ceos_alos2.sar_leader.facility_related_data as F
        import ceos_alos2.sar_leader.io as IO
        import ceos_alos2.sar_leader.map_projection as MP
        import ceos_alos2.sar_leader.metadata as M
        import ceos_alos2.sar_leader.platform_position as P
        import ceos_alos2.sar_leader.radiometric_data as R
        from ceos_alos2.sar_leader.structure import sar_leader_record

        fns = [IO.open_sar_leader, IO.parse_data, M.transform_metadata, M.fix_attitude_time, S.transform_dataset_summary,
               MP.transform_map_projection, MP.filter_map_projection, MP.transform_general_info,
               MP.transform_ellipsoid_parameters, MP.transform_projection, MP.transform_corner_points,
               MP.transform_conversion_coefficients, P.transform_platform_position, P.transform_composite_datetime,
               P.transform_positions, A.transform_attitude, A.transform_time, A.prepend_dim, A.transform_section,
               R.transform_radiometric_data, R.transform_matrices, Q.transform_data_quality_summary,
               Q.transform_relative, F.transform_record5, F.transform_group]
        decls = [("ceos_alos2.sar_leader.structure.sar_leader_record", sar_leader_record, "ceos_alos2/sar_leader/structure.py")]
    elif unit == "volume":
        import ceos_alos2.volume_directory.io as IO
        import ceos_alos2.volume_directory.metadata as M
        from ceos_alos2.volume_directory.structure import volume_directory_record

        fns = [IO.open_volume_directory, IO.parse_data, M.transform_record, M.transform_volume_descriptor, M.transform_text]
        decls = [("ceos_alos2.volume_directory.structure.volume_directory_record", volume_directory_record,
                  "ceos_alos2/volume_directory/structure.py")]
    elif unit == "trailer":
        import ceos_alos2.sar_trailer as T
        from ceos_alos2.sar_trailer.file_descriptor import file_descriptor_record

        fns = [T.read_sar_trailer]
        decls = [("ceos_alos2.sar_trailer.file_descriptor.file_descriptor_record", file_descriptor_record,
                  "ceos_alos2/sar_trailer/file_descriptor.py")]
    else:
        from props import imageunit

        return imageunit.functions(unit, common)
    return fns + common, decls


UNITS = {
    "leader": (unit_leader, "ceos_alos2.sar_leader.io.open_sar_leader"),
    "volume": (unit_volume, "ceos_alos2.volume_directory.io.open_volume_directory"),
    "trailer": (unit_trailer, "ceos_alos2.sar_trailer.read_sar_trailer"),
}


def _unit(name):
    if name not in UNITS and name.startswith("image"):
        from props import imageunit

        imageunit.register(UNITS)
    return UNITS[name]


def unit_hyps(name):
    if name.startswith("image"):
        from props import imageunit

        return imageunit.hyps(name)
    return []


# ---------------------------------------------------------------------------------------------------
# one path
# ---------------------------------------------------------------------------------------------------
def run_path(unit, decisions, timeout_ms=1500, truncation=False):
    fn, _ = _unit(unit)
    p = Path(decisions, hyps=unit_hyps(unit), timeout_ms=timeout_ms, max_decisions=400)
    extra = {"truncation": truncation}
    try:
        v = fn(p, extra)
        res = PathResult(p, "return", value=v, extra=extra)
    except DeadPath:
        return None, p
    except Undecided as e:
        res = PathResult(p, "undecided", exc=e, extra=extra)
    except RecursionError as e:
        res = PathResult(p, "undecided", exc=Undecided(f"recursion limit: {e}"), extra=extra)
    except BaseException as e:
        if isinstance(e, (KeyboardInterrupt, SystemExit, MemoryError)):
            raise
        res = PathResult(p, "raise", exc=e, extra=extra)
    if res.outcome == "return":
        try:
            res.extra["dump"], res.extra["terms"] = D.dump_result(extra["it"], v)
        except Undecided as e:
            res.outcome, res.exc = "undecided", e
    return res, p


# properties whose contracts fix the request pattern of the metadata scan (C01: byte ranges follow the chunk grid; C06: chunking
# is min(records_per_chunk, lines) and results do not depend on it; C11: one request per chunk)
IO_CONTRACT_PROPS = {"C01", "C06", "C11"}


def path_task(payload, decisions):
    """worker entry: run one path of payload['unit'] and apply payload['analyses']"""
    unit = payload["unit"]
    prop = payload["prop"]
    if "frame" in payload.get("analyses", ()):
        from pyvc import frame

        _unit(unit)
        frame.shared_objects()  # snapshot of the pre-existing objects, before anything is interpreted
    sub = Session(prop, tier=payload.get("tier", "quick"), seed=payload.get("seed", 0))
    res, p = run_path(unit, decisions, truncation=payload.get("truncation", False))
    final = list(p.decisions)
    if res is None:
        return sub.export(), final
    tag = "".join("T" if d else "F" for d in final) or "root"
    fn = _unit(unit)[1]
    if res.outcome == "undecided":
        import traceback

        tb = "".join(x for x in traceback.format_exception(res.exc) if "ceos_alos2/" in x and "/tests/" not in x)[-600:]
        if payload.get("gen_dir"):
            print("UNDECIDED", tag, repr(res.exc)[:300], tb)
        from pyvc.core import ContractRefuted

        if isinstance(res.exc, ContractRefuted) and prop in IO_CONTRACT_PROPS:
            # the request pattern of the metadata scan is part of these properties' contracts: a refuted invariant is a
            # failed obligation (the solver's counter-model is attached), not an engine limit
            sub.decided(f"{prop}/{unit}/chunk-loop/one-request-per-chunk-at-the-contract-position", False, function=fn, kind="post",
                        backend="z3", detail={"path": tag, "refuted": exc_text(res.exc), "counter_model": res.exc.model[:1200]})
            return sub.export(), final
        sub.engine_limit(f"{prop}/{unit}/within-verified-subset", f"{exc_text(res.exc)} {tb}", function=fn, group=unit)
        return sub.export(), final
    if payload.get("gen_dir"):
        case = tables.case_of_result(res.extra.get("dump"), res)
        case["decisions"] = final
        from props import analyses as AN0

        case["assumes"] = sorted({canon_sexpr(c) for _, _, c in getattr(p, "wf_assumptions", [])})
        if res.outcome == "return":
            case["spares"] = AN0.spare_areas(res.extra["it"])
        with open(os.path.join(payload["gen_dir"], f"{tag}.json"), "w") as f:
            json.dump(case, f)
        sub.decided(f"GEN/{unit}/{tag}", True)
        return sub.export(), final
    from props import analyses as AN

    sub.decided(f"{prop}/{unit}/within-verified-subset", True, function=fn, kind="safety", backend="engine",
                detail={"path": tag})
    # vacuity guard: the facts this path's obligations are proved under must not be contradictory
    import z3 as _z3

    from pyvc.harness import path_hyps as _ph

    sub.cover(f"{prop}/{unit}/{tag}/path-condition-satisfiable", [h for h in _ph(res.path) if not _z3.is_quantifier(h)], function=fn)
    for a in payload["analyses"]:
        getattr(AN, "an_" + a)(sub, payload, unit, tag, res)
    wf = getattr(p, "wf_assumptions", [])
    if wf:
        kinds = sorted({f"{k.split('.')[-1] if k != 'file-long-enough' else k}: {m}" for k, m, _ in wf})[:3]
        sub.assume(f"{unit}: inputs on which a field decoder raises are outside the precondition (numeric fields hold "
                   f"numeric text or blanks; the file holds the complete records), e.g. {kinds}")
    return sub.export(), final


def check_unit(ses, unit, analyses, **kw):
    fns, decls = _functions(unit)
    for f in fns:
        ses.under_contract(f)
    for q, obj, file in decls:
        ses.under_contract_object(q, obj, file=file)
    payload = {"unit": unit, "prop": ses.prop, "tier": ses.tier, "seed": ses.seed, "analyses": list(analyses)}
    payload.update(kw)
    n = explore_parallel(ses, "props.records", "path_task", payload)
    ses.extra_coverage[f"paths[{unit}]"] = n
    if n == 0:
        ses.undecided(f"{ses.prop}/{unit}/paths", "no path explored")
    resolve_limits(ses, unit, payload)
    return n


STANDIN_TABLE = {"leader": "leader", "volume": "volume", "image10s": "image10s", "image11s": "image11s", "image10q": "image10s",
                 "image11q": "image11s", "image10": "image10s", "image11": "image11s"}


def resolve_limits(ses, unit, payload=None):
    """bounded stand-in for the paths of `unit` the verifier could not interpret: the unit's record contract evaluated
    concretely on random well-formed files vs the real reader (native/unitreplay.py)"""
    tname = STANDIN_TABLE.get(unit)
    if tname is None or (payload or {}).get("truncation"):
        return ses.resolve_engine_limits(unit, None, bound_text="")
    from native import unitreplay

    trials = 120 if ses.tier == "quick" else 1000
    multi = not unit.endswith("s")
    return ses.resolve_engine_limits(
        unit, lambda: unitreplay.check_unit(tname, trials=trials, seed=ses.seed, any_rpc=multi),
        bound_text=f"{trials} random well-formed files (random counts / lengths / field contents incl. blanks and boundary values"
                   + (", records_per_chunk from 1 to beyond the line count" if multi else "") + "): real reader vs the record contract")


def check_units(ses, units, analyses, **kw):
    """check_unit for several units in one worker pool"""
    from pyvc.harness import explore_parallel_multi

    payloads = []
    for unit in units:
        fns, decls = _functions(unit)
        for f in fns:
            ses.under_contract(f)
        for q, obj, file in decls:
            ses.under_contract_object(q, obj, file=file)
        payload = {"unit": unit, "prop": ses.prop, "tier": ses.tier, "seed": ses.seed, "analyses": list(analyses)}
        payload.update(kw)
        payloads.append(payload)
    counts = explore_parallel_multi(ses, "props.records", "path_task", payloads)
    for (unit, n), payload in zip(counts.items(), payloads):
        ses.extra_coverage[f"paths[{unit}]"] = n
        if n == 0:
            ses.undecided(f"{ses.prop}/{unit}/paths", "no path explored")
        resolve_limits(ses, unit, payload)
    return counts


def generate_table(unit):
    gen = tempfile.mkdtemp(prefix="gen_", dir=os.environ.get("TMPDIR", "/tmp"))
    ses = Session("GEN")
    payload = {"unit": unit, "prop": "GEN", "analyses": [], "gen_dir": gen}
    t = time.time()
    explore_parallel(ses, "props.records", "path_task", payload)
    bad = [o for o in ses.obligations if o.status != "discharged"]
    if bad or ses.crashed:
        for o in bad[:3]:
            print(o.id, o.detail)
        raise RuntimeError(f"{unit}: cannot generate table: {ses.crashed or len(bad)}")
    cases = []
    for fn in sorted(os.listdir(gen)):
        cases.append(json.load(open(os.path.join(gen, fn))))
        os.unlink(os.path.join(gen, fn))
    os.rmdir(gen)
    cases.sort(key=lambda c: c["decisions"])
    tables.write_table(unit, cases, meta={"generated_from": "pinned tree + fix commits", "paths": len(cases),
                                          "seconds": round(time.time() - t, 1)})
    return cases


if __name__ == "__main__":
    for nm in sys.argv[1:] or list(UNITS):
        t = time.time()
        cs = generate_table(nm)
        print(nm, len(cs), "cases", sorted({c["outcome"] + ":" + c.get("exc", "") for c in cs}), round(time.time() - t, 1), "s")
