"""Cache contracts (C07, C09, C10): ceos_alos2.sar_image.open_image, caching.read_cache / create_cache / decode and
cli.create_cache interpreted by pyvc over a *ghost* file state.

Ghost state:  Local: the user cache directory (abstract pathlib.Path objects `SymPath`), Remote: the product's mapper.
Every access is appended to the interpreter's I/O log. The state of each location is a scenario parameter:
   absent | valid (text the codec decodes)  | torn (text on which json.loads raises JSONDecodeError)
Codec calls are modular: caching.encode(group) = ENCODE(group), json.loads(text) = LOADS(text) or JSONDecodeError,
decode_hierarchy(doc, rpc) = DECODE(doc, rpc)  (the codec's own exactness is C08).
"""
from __future__ import annotations

import json

import z3

import pyvc  # noqa: F401
from pyvc.absobj import SymFS, SymMapper
from pyvc.core import Path, Sym, Unsupported, exc_text
from pyvc.interp import Interp
from pyvc.models import REGISTRY, BoundSymMethod
from pyvc.ops import StrSort

TEXT_OF = z3.Function("cache_text_at", StrSort, StrSort)  # content of the file at a location (ghost)


class SymPath:
    """abstract pathlib.Path inside the ghost user cache directory"""

    is_symbolic_value = True

    def __init__(self, world, parts):
        self.world = world
        self.parts = tuple(parts)

    def key(self):
        return "/".join(self.parts)

    def __repr__(self):
        return f"SymPath<{self.key()}>"

    def sym_binop(self, it, opname, other, swapped):
        if opname == "truediv" and not swapped and isinstance(other, str):
            return SymPath(self.world, self.parts + (other,))
        raise Unsupported(f"Path {opname}")

    def sym_method(self, it, name, a, k):
        w = self.world
        if name == "is_file":
            it.io_log.append(("cache.is_file", self.key()))
            return w.local.get(self.key(), "absent") != "absent"
        if name == "read_text":
            it.io_log.append(("cache.read_text", self.key()))
            if w.local.get(self.key(), "absent") == "absent":
                raise FileNotFoundError(self.key())
            return CacheText(w.local[self.key()], "local:" + self.key())
        if name == "write_text":
            it.io_log.append(("cache.write_text", self.key(), a[0]))
            w.local[self.key()] = ("written", a[0])
            return None
        if name == "mkdir":
            it.io_log.append(("cache.mkdir", self.key(), dict(k)))
            return None
        if name == "is_dir":
            return True
        raise Unsupported(f"Path.{name}")


def _path_attr(it, obj, name):
    if name == "parent":
        return SymPath(obj.world, obj.parts[:-1])
    if name == "name":
        return obj.parts[-1]
    return BoundSymMethod(obj, name)


REGISTRY.attr_load[SymPath] = _path_attr


class CacheText:
    """text read from a cache location; state: 'valid' | 'torn' | ('written', encoded object)"""

    is_symbolic_value = True

    def __init__(self, state, where):
        self.state = state
        self.where = where

    def sym_method(self, it, name, a, k):
        if name == "decode":  # bytes.decode() of the remote copy
            return self
        raise Unsupported(f"text.{name}")


REGISTRY.attr_load[CacheText] = lambda it, obj, name: BoundSymMethod(obj, name)


class Encoded:
    def __init__(self, obj):
        self.obj = obj


class Decoded:
    """result of decode_hierarchy(loads(text), rpc): the group the text encodes, rebuilt with the given rpc"""

    def __init__(self, source, rpc):
        self.source = source
        self.rpc = rpc

    def __eq__(self, other):
        return isinstance(other, Decoded) and self.source == other.source and self.rpc is other.rpc


class CacheMapper(SymMapper):
    def __init__(self, world):
        super().__init__(SymFS(path="/product"))
        self.world = world

    def sym_contains(self, it, key):
        it.io_log.append(("mapper.contains", key))
        return self.world.remote.get(key, "absent") != "absent"

    def sym_getitem(self, it, key):
        it.io_log.append(("mapper.get", key))
        st = self.world.remote.get(key, "absent")
        if st == "absent":
            raise KeyError(key)
        return CacheText(st, "remote:" + key)


REGISTRY.attr_load[CacheMapper] = REGISTRY.attr_load[SymMapper]


class World:
    def __init__(self, local_state, remote_state, image="IMG-HH-ALOS2123450000-200229-WBDR1.1__D-F1"):
        self.image = image
        self.local = {}
        self.remote = {}
        self.local_state = local_state
        self.remote_state = remote_state


def run_open_image(local_state, remote_state, use_cache, create_cache, decisions=()):
    """interpret open_image on one cache scenario; returns (outcome, value/exc, it, world)"""
    from ceos_alos2 import sar_image
    from ceos_alos2.sar_image import caching
    from ceos_alos2.sar_image.caching import path as P

    w = World(local_state, remote_state)
    root = SymPath(w, ("<user-cache>", "xarray-ceos-alos2"))
    saved_root = P.cache_root
    P.cache_root = root
    rpc = Sym(z3.Int("rpc_now"), int)
    try:
        path = Path(list(decisions))
        # where the reader and the writer look: computed by the real functions on the ghost root
        it0 = Interp(path)
        local = it0.call(it0.shim(P.local_cache_location), ["/product", w.image], {})
        remote = it0.call(it0.shim(P.remote_cache_location), ["/product", w.image], {})
        if local_state != "absent":
            w.local[local.key()] = local_state
        if remote_state != "absent":
            w.remote[remote] = remote_state

        def loads_contract(it, a, k):
            text = a[0]
            it.io_log.append(("json.loads", getattr(text, "where", "?")))
            st = text.state if isinstance(text, CacheText) else None
            if st == "torn":
                raise json.JSONDecodeError("Expecting value", "<torn>", 0)
            return ("document-of", text.where, st)

        def decode_hierarchy_contract(it, a, k):
            return Decoded(a[0], k.get("records_per_chunk", a[1] if len(a) > 1 else None))

        def encode_contract(it, a, k):
            return Encoded(a[0])

        def read_metadata_contract(it, a, k):
            it.io_log.append(("read_metadata", a[0].url, a[1] if len(a) > 1 else k.get("records_per_chunk")))
            return ("header",), ("metadata",)

        def transform_metadata_contract(it, a, k):
            from ceos_alos2.hierarchy import Group

            g = Group(path=None, url=None, data={}, attrs={"from": "transform_metadata"})
            return g, {"type_code": "IU2", "shape": (Sym(z3.Int("n"), int), Sym(z3.Int("w"), int)), "dtype": "uint16",
                       "byte_ranges": [("ranges",)]}

        class ArrayStub:
            def __init__(self, **kw):
                self.kw = kw

        contracts = {
            "ceos_alos2.sar_image.caching.encode": encode_contract,
            "ceos_alos2.sar_image.caching.decoders.decode_hierarchy": decode_hierarchy_contract,
            "ceos_alos2.sar_image.io.read_metadata": read_metadata_contract,
            "ceos_alos2.sar_image.metadata.transform_metadata": transform_metadata_contract,
        }
        it = Interp(path, contracts=contracts)
        old_loads = REGISTRY.calls.get(json.loads)
        REGISTRY.calls[json.loads] = loads_contract
        from ceos_alos2 import array as A

        REGISTRY.constructors[A.Array] = lambda it_, cls, a, k: ArrayStub(**k)
        mapper = CacheMapper(w)
        try:
            try:
                v = it.call(it.shim(sar_image.open_image), [mapper, w.image],
                            {"use_cache": use_cache, "create_cache": create_cache, "records_per_chunk": rpc})
                outcome = "return"
            except Unsupported:
                raise
            except BaseException as e:
                if isinstance(e, (KeyboardInterrupt, SystemExit)):
                    raise
                outcome, v = "raise", e
        finally:
            if old_loads is None:
                REGISTRY.calls.pop(json.loads, None)
            else:
                REGISTRY.calls[json.loads] = old_loads
            REGISTRY.constructors.pop(A.Array, None)
        return outcome, v, it, w, local, remote, rpc, path
    finally:
        P.cache_root = saved_root


STATES = ("absent", "valid", "torn")


def obligations(ses, prop):
    """the contract of open_image over every cache scenario: 3 x 3 location states x use_cache x create_cache"""
    from ceos_alos2 import sar_image
    from ceos_alos2.sar_image import caching, cli
    from ceos_alos2.sar_image.caching import path as P
    from pyvc import frame

    fn = ses.under_contract(sar_image.open_image)
    for f in (caching.read_cache, caching.create_cache, caching.decode, caching.encode, P.local_cache_location,
              P.remote_cache_location, P.hashsum, cli.create_cache):
        ses.under_contract(f)
    frame.shared_objects()
    for ls in STATES:
        for rs in STATES:
            for use_cache in (True, False):
                for create in (False, True):
                    tag = f"local={ls},adjacent={rs},use_cache={use_cache},create_cache={create}"
                    pid = f"{prop}/open_image/{tag}"
                    try:
                        outcome, v, it, w, local, remote, rpc, path = run_open_image(ls, rs, use_cache, create)
                    except Unsupported as e:
                        ses.not_proved(f"{prop}/open_image/within-verified-subset", f"{tag}: {e}", function=fn)
                        continue
                    log = it.io_log
                    kinds = [e[0] for e in log]
                    ses.decided(f"{pid}/returns", outcome == "return", function=fn, replay=None,
                                detail={"outcome": outcome, "exception": exc_text(v) if outcome != "return" else None, "log": kinds})
                    if outcome != "return":
                        continue
                    cache_reads = [e for e in log if e[0] in ("cache.is_file", "cache.read_text", "mapper.contains", "mapper.get", "json.loads")]
                    parsed = "read_metadata" in kinds
                    # which source must serve the result
                    if use_cache and ls == "valid":
                        want = ("cache", "local:" + local.key())
                    elif use_cache and ls == "absent" and rs == "valid":
                        want = ("cache", "remote:" + remote)
                    else:
                        want = ("parse", None)
                    if not use_cache:
                        ses.decided(f"{pid}/no-cache-consulted", not cache_reads, function=fn, detail={"log": kinds})
                    if want[0] == "cache":
                        ok = isinstance(v, Decoded) and v.source[1] == want[1] and v.rpc is rpc
                        ses.decided(f"{pid}/result=decode(index,current-rpc)", ok, function=fn,
                                    detail={"result": repr(v)[:120], "source": getattr(v, "source", None), "want": want[1]})
                        ses.decided(f"{pid}/image-not-read", not parsed and "open" not in kinds, function=fn, detail={"log": kinds})
                    else:
                        is_group = type(v).__name__ == "Group"
                        ses.decided(f"{pid}/result=parsed-group", is_group and parsed, function=fn, detail={"result": repr(v)[:100]})
                        if is_group:
                            arr = v.data.get("data")
                            kw = getattr(getattr(arr, "data", None), "kw", {})
                            ses.decided(f"{pid}/array-built-for-this-image-and-rpc",
                                        kw.get("url") == w.image and kw.get("records_per_chunk") is rpc and
                                        getattr(kw.get("fs"), "path", None) == "/product", function=fn, detail={"kw": list(kw)})
                            ses.decided(f"{pid}/group-named-from-file-name", v.path == "HH_scan1", function=fn, detail={"path": v.path})
                            opens = [e for e in log if e[0] == "open"]
                            ses.decided(f"{pid}/only-this-image-opened", [e[1] for e in opens] == [w.image], function=fn,
                                        detail={"opens": [str(e[1]) for e in opens]})
                    writes = [e for e in log if e[0] in ("cache.write_text", "cache.mkdir")]
                    if create and want[0] == "parse":
                        ok = [e[0] for e in writes] == ["cache.mkdir", "cache.write_text"] and writes[1][1] == local.key() and \
                            isinstance(writes[1][2], Encoded) and writes[1][2].obj is v and writes[0][1] == local.parent_key()
                        ses.decided(f"{pid}/writes-exactly-encode(group)-to-the-location-read_cache-reads", ok, function=fn,
                                    detail={"writes": [(e[0], e[1]) for e in writes], "location": local.key()})
                    else:
                        ses.decided(f"{pid}/no-write", not writes, function=fn, detail={"writes": [(e[0], e[1]) for e in writes]})
                    shared = frame.shared_state_writes(it)
                    ses.decided(f"{pid}/no-write-to-shared-state", not shared, function=fn, kind="frame", backend="effect-log",
                                detail={"writes": shared[:3]})
    ses.trust("pyvc engine", "modular contracts: caching.encode / decode_hierarchy (C08), read_metadata / transform_metadata "
              "(C03/C06), json.loads raises JSONDecodeError exactly on non-JSON text (T2)")


SymPath.parent_key = lambda self: "/".join(self.parts[:-1])


def key_obligations(ses, prop):
    """the reader's and the writers' cache locations agree and are injective on the image names of a product"""
    import itertools
    import pathlib

    from ceos_alos2.sar_image.caching import path as P

    fn = "ceos_alos2.sar_image.caching.path.local_cache_location"
    names = []
    for level, pid in (("1.1", "WBDR1.1__D"), ("1.5", "WBDR1.5RUD"), ("3.1", "FBDR3.1GUA")):
        for pol in ("HH", "HV", "VH", "VV"):
            for scan in (None, "F1", "F2", "F3", "F4", "F5", "B1"):
                names.append(f"IMG-{pol}-ALOS2123450000-200229-{pid}" + (f"-{scan}" if scan else ""))
    root = "/product"
    loc = {n: P.local_cache_location(root, n) for n in names}
    rem = {n: P.remote_cache_location(root, n) for n in names}
    clash = [(a, b) for a, b in itertools.combinations(names, 2) if loc[a] == loc[b] or rem[a] == rem[b]]
    ses.decided(f"{prop}/cache-location/injective-on-image-names", not clash, function=fn, backend="finite-exhaustive",
                replay=lambda m: {"confirmed": True, "input": list(clash[0]), "observed": str(loc[clash[0][0]]),
                                  "expected": "distinct index files for distinct images"},
                detail={"names": len(names), "clashes": clash[:3]})
    ok = all(pathlib.PurePath(loc[n]).name == f"{n}.index" and rem[n] == f"{n}.index" for n in names)
    ses.decided(f"{prop}/cache-location/index-name=<image>.index", ok, function=fn, backend="finite-exhaustive",
                detail={"example": [str(loc[names[0]]), rem[names[0]]]})
    sub = [P.local_cache_location(root, "sub/dir/" + n) for n in names[:3]]
    ses.decided(f"{prop}/cache-location/only-the-file-name-counts", sub == [loc[n] for n in names[:3]], function=fn,
                backend="finite-exhaustive")
    other = P.local_cache_location("/other-product", names[0])
    ses.decided(f"{prop}/cache-location/depends-on-the-product-root", other != loc[names[0]], function=fn, backend="finite-exhaustive")


class ImagePath(SymPath):
    """abstract path of an image file given to the command line tool"""

    def sym_method(self, it, name, a, k):
        if name == "is_file":
            return True
        if name == "as_uri":
            return "file://" + self.key()
        return super().sym_method(it, name, a, k)


REGISTRY.attr_load[ImagePath] = lambda it, obj, name: (ImagePath(obj.world, obj.parts[:-1]) if name == "parent" else _path_attr(it, obj, name))


def cli_obligations(ses, prop):
    """cli.create_cache: parses the image without touching any cache and writes exactly <target dir>/<image>.index"""
    import fsspec

    from ceos_alos2.sar_image import cli

    fn = ses.under_contract(cli.create_cache, "ceos_alos2.sar_image.cli.create_cache")
    for target_given in (False, True):
        w = World("absent", "absent")
        img = ImagePath(w, ("", "data", "product", w.image))
        target_root = SymPath(w, ("", "elsewhere")) if target_given else None
        calls = []

        def open_image_contract(it, a, k):
            calls.append((a, dict(k)))
            return ("group-of", a[1])

        it = Interp(Path([]), contracts={"ceos_alos2.sar_image.open_image": open_image_contract,
                                         "ceos_alos2.sar_image.caching.encode": lambda it_, a, k: Encoded(a[0])})
        old = REGISTRY.calls.get(fsspec.get_mapper)
        REGISTRY.calls[fsspec.get_mapper] = lambda it_, a, k: ("mapper-of", a[0])
        try:
            it.call(it.shim(cli.create_cache), [img, target_root, 4096], {})
        finally:
            if old is None:
                REGISTRY.calls.pop(fsspec.get_mapper, None)
            else:
                REGISTRY.calls[fsspec.get_mapper] = old
        pid = f"{prop}/cli.create_cache/target={'given' if target_given else 'adjacent'}"
        ok = len(calls) == 1 and calls[0][0][0] == ("mapper-of", "file:///data/product") and calls[0][0][1] == w.image and \
            calls[0][1] == {"use_cache": False, "create_cache": False, "records_per_chunk": 4096}
        ses.decided(f"{pid}/parses-the-image-uncached", ok, function=fn, detail={"calls": str(calls)[:200]})
        writes = [e for e in it.io_log if e[0].startswith("cache.")]
        want = ("/elsewhere/" if target_given else "/data/product/") + w.image + ".index"
        ok = len(writes) == 1 and writes[0][0] == "cache.write_text" and writes[0][1] == want and \
            isinstance(writes[0][2], Encoded) and writes[0][2].obj == ("group-of", w.image)
        ses.decided(f"{pid}/writes-exactly-<dir>/<image>.index=encode(group)", ok, function=fn,
                    detail={"writes": [(e[0], e[1]) for e in writes], "want": want})


def decode_obligations(ses, prop):
    """caching.decode(text, rpc): raises only CachingError when json.loads rejects the text — for every JSONDecodeError
    (position / message symbolic)"""
    from ceos_alos2.sar_image import caching
    from pyvc.core import explore

    fn = ses.under_contract(caching.decode, "ceos_alos2.sar_image.caching.decode")
    pos = z3.Int("err_pos")
    msg = z3.Const("err_msg", StrSort)

    def loads_contract(it, a, k):
        e = json.JSONDecodeError("x", "doc", 0)
        e.pos, e.msg, e.lineno, e.colno = Sym(pos, int), Sym(msg, str), Sym(z3.Int("err_line"), int), Sym(z3.Int("err_col"), int)
        raise e  # str(e) stays concrete; the fields a handler could branch on (pos, msg, lineno, colno) are symbolic

    def run(path, extra):
        it = Interp(path)
        old = REGISTRY.calls.get(json.loads)
        REGISTRY.calls[json.loads] = loads_contract
        try:
            return it.call(it.shim(caching.decode), [CacheText("torn", "local"), Sym(z3.Int("rpc"), int)], {})
        finally:
            if old is None:
                REGISTRY.calls.pop(json.loads, None)
            else:
                REGISTRY.calls[json.loads] = old

    results = explore(run, hyps=[pos >= 0])
    ses.decided(f"{prop}/decode/paths-explored", len(results) >= 1, function=fn)
    for i, r in enumerate(results):
        ok = r.outcome == "raise" and isinstance(r.exc, caching.CachingError)
        ses.decided(f"{prop}/decode/torn-text/path{i}/raises-CachingError", ok, function=fn,
                    detail={"outcome": r.outcome, "exception": exc_text(r.exc) if r.exc is not None else None,
                            "conditions": [str(c)[:100] for c in getattr(r.path, "forks", [])]})
    ses.decided(f"{prop}/CachingError-is-what-open_image-catches", issubclass(caching.CachingError, FileNotFoundError), function=fn)


def options_obligations(ses, prop):
    """open_alos2 / io.open only **-unpack the caller's dictionaries: no store into them, none into the mutable defaults"""
    import fsspec

    from ceos_alos2 import io as IO
    from ceos_alos2 import xarray as X
    from pyvc import frame

    fn = ses.under_contract(X.open_alos2, "ceos_alos2.xarray.open_alos2")
    ses.under_contract(IO.open, "ceos_alos2.io.open")
    frame.shared_objects()
    for opts in ({"use_cache": True, "create_cache": False, "records_per_chunk": 7, "storage_options": {"anon": True}},
                 {"records_per_chunk": 3}, {}):
        given = {k: (dict(v) if isinstance(v, dict) else v) for k, v in opts.items()}
        calls = []
        it = Interp(Path([]), contracts={
            "ceos_alos2.summary.open_summary": lambda it_, a, k: {"product_information": {"data_files": type("G", (), {"attrs": {"volume_directory": "V", "sar_leader": "L", "sar_imagery": [], "sar_trailer": "T"}})()}},
            "ceos_alos2.volume_directory.io.open_volume_directory": lambda it_, a, k: type("G", (), {"attrs": {}})(),
            "ceos_alos2.sar_leader.io.open_sar_leader": lambda it_, a, k: None,
            "ceos_alos2.xarray.to_datatree": lambda it_, a, k: ("tree-of", a[0]),
        })
        old = REGISTRY.calls.get(fsspec.get_mapper)
        REGISTRY.calls[fsspec.get_mapper] = lambda it_, a, k: (calls.append((a, dict(k))) or SymMapper(SymFS(path="/product")))
        try:
            it.call(it.shim(X.open_alos2), ["/product"], {"backend_options": opts})
        finally:
            if old is None:
                REGISTRY.calls.pop(fsspec.get_mapper, None)
            else:
                REGISTRY.calls[fsspec.get_mapper] = old
        tag = ",".join(sorted(opts)) or "defaults"
        ses.decided(f"{prop}/open_alos2/{tag}/option-dict-unchanged", opts == given, function=fn, detail={"after": repr(opts)[:200]})
        touched = [e for e in it.effects if e[1] is opts or any(e[1] is v for v in opts.values() if isinstance(v, dict))]
        ses.decided(f"{prop}/open_alos2/{tag}/no-store-into-the-caller's-dicts", not touched, function=fn, kind="frame",
                    backend="effect-log", detail={"effects": [(e[0], str(e[2])) for e in touched][:3]})
        ses.decided(f"{prop}/open_alos2/{tag}/storage-options-reach-the-mapper",
                    len(calls) == 1 and calls[0][1] == given.get("storage_options", {}), function=fn, detail={"calls": str(calls)[:200]})
        shared = frame.shared_state_writes(it)
        ses.decided(f"{prop}/open_alos2/{tag}/no-write-to-shared-state(mutable-defaults)", not shared, function=fn, kind="frame",
                    backend="effect-log", detail={"writes": shared[:3]})
