"""C03 Per-line and header image metadata equal what each file record encodes — DESIGN.md §4/C03.

read_metadata ∘ transform_metadata are interpreted on a symbolic image file (n lines, record length R, both record
types) whose records are read in one request (records_per_chunk >= n); that the request size does not matter is C06.
"""
from props import records
from props.c04 import TRUST


def run(ses):
    from pyvc import frame as _frame

    _frame.purity_obligation(ses)
    records.check_units(ses, ("image10s", "image11s"), ["table", "frame", "wf"])  # wf: the code admits every input the contract admits (enum codes, numeric text)
    from props import analyses

    analyses.bounded_tables(ses, ('image10s', 'image11s'), 12 if ses.tier == "quick" else 300)
    ses.trust(*TRUST)
    ses.assume("well-formed image file: n >= 1 records of the declared length R >= 13 at 720 + k*R, record type 10 / 11, "
               "|file| = 720 + n*R (header positions 181-186 / 187-192)",
               "enumerated code fields hold one of their enumerated codes",
               "records_per_chunk >= number of lines in this check (independence of records_per_chunk: C06)")
