"""C09 A crash or concurrent writer during cache creation never poisons later opens — DESIGN.md §4/C09.

Crash points and concurrent writers are over-approximated by "the index file holds text that json.loads rejects" (every
proper prefix of a dumps() object document is such a text) at either location. Deductive: on every such scenario
open_image returns the parsed group (decode raises only CachingError, which open_image absorbs) and create_cache rewrites
the index whatever was there. Bounded (labelled): real prefixes of a real index document, both locations, and repair."""
from props import cache_e2e, cacheunit


def run(ses):
    cacheunit.obligations(ses, "C09")
    cacheunit.decode_obligations(ses, "C09")
    # every byte prefix of the index is decodable text because the document is ASCII (json.dumps escapes): proved on encode
    from props import codec

    codec.composition(ses, "C09")
    ses.resolve_engine_limits("codec", None, bound_text="")
    cache_e2e.torn_caches(ses, "C09")
