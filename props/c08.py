"""C08 Cache codec exactness — DESIGN.md §4/C08.

Contract (sidecar, on the real functions):  for every hierarchy g the encoder accepts,
    text = caching.encode(g) is a str, json.loads(text) succeeds (self-contained), and
    caching.decode(text, rpc) reproduces g exactly: group paths / urls / child order, dims, dtype, shape and every value
    (datetimes to the unit, 64-bit integers, NaN / +-inf / -0.0, booleans, non-ASCII strings), attrs with tuples as tuples
    and lists as lists at any nesting, and every field of the image array (url, shape, dtype, byte ranges, type code,
    filesystem root) with records_per_chunk := normalize(rpc).
Decided in two parts.
 * Deductive (props/codec.py): structural induction over the hierarchy. Every encoder / decoder function is executed by pyvc
   once per constructor of its argument with opaque children, calls on children go through the induction hypothesis; lists,
   tuples and mappings have symbolic length. Proved: tuple tagging is inverted by the real object hook; each document carries
   exactly the object's fields and is rebuilt from exactly these, children in order, with the read-time records_per_chunk;
   decode_array(encode_array(A)) is, per dtype kind and path, an instance of one of four stated numpy conversion axioms.
 * Bounded (this file): the axioms themselves - numpy's tolist / array / datetime arithmetic and json's number and string
   round trip are outside the verifier's reach (DESIGN.md §6) - validated on (a) the groups the reader produces from
   synthetic products (both levels, extreme field values) and (b) generated hierarchies covering every dtype kind
   b,i,u,f,M,m,U in 0-d..2-d shapes with boundary values, and nested attrs; labelled bounded, never counted as proved. The
   same runs stand in when a changed function body leaves the verified subset.
"""
from __future__ import annotations

import json
import random

import numpy as np


RPC = [None]


def same(a, b, path="$"):
    """exact structural equality; returns the first difference or None"""
    from ceos_alos2.array import Array
    from ceos_alos2.hierarchy import Group, Variable

    if isinstance(a, Group):
        if not isinstance(b, Group):
            return f"{path}: {type(b).__name__} instead of Group"
        for f in ("path", "url"):
            if getattr(a, f) != getattr(b, f):
                return f"{path}.{f}: {getattr(b, f)!r} != {getattr(a, f)!r}"
        if list(a.data) != list(b.data):
            return f"{path}: children {list(b.data)} != {list(a.data)}"
        d = same(a.attrs, b.attrs, path + ".attrs")
        if d:
            return d
        for k in a.data:
            d = same(a.data[k], b.data[k], f"{path}/{k}")
            if d:
                return d
        return None
    if isinstance(a, Variable):
        if not isinstance(b, Variable):
            return f"{path}: {type(b).__name__} instead of Variable"
        if list(a.dims) != list(b.dims) or type(a.dims) is not type(b.dims):
            return f"{path}.dims: {b.dims!r} != {a.dims!r}"
        return same(a.attrs, b.attrs, path + ".attrs") or same(a.data, b.data, path + ".data")
    if isinstance(a, Array):
        if not isinstance(b, Array):
            return f"{path}: {type(b).__name__} instead of Array"
        for f in ("url", "shape", "dtype", "type_code", "byte_ranges"):
            if getattr(a, f) != getattr(b, f) or type(getattr(a, f)) is not type(getattr(b, f)):
                return f"{path}.{f}: {getattr(b, f)!r} != {getattr(a, f)!r}"
        if [tuple(r) for r in a.byte_ranges] != [tuple(r) for r in b.byte_ranges] or \
                any(type(r) is not tuple for r in b.byte_ranges):
            return f"{path}.byte_ranges: tuples not restored"
        if RPC[0] is not None and b.records_per_chunk != min(RPC[0], a.shape[0]):
            return f"{path}.records_per_chunk: {b.records_per_chunk!r} != min(read-time rpc {RPC[0]}, lines {a.shape[0]})"
        if (a.fs.path, a.fs.fs.protocol) != (b.fs.path, b.fs.fs.protocol):
            return f"{path}.fs: {(b.fs.path, b.fs.fs.protocol)} != {(a.fs.path, a.fs.fs.protocol)}"
        return None
    if isinstance(a, np.ndarray) or isinstance(b, np.ndarray):
        a2 = np.asarray(a)
        if isinstance(b, np.generic) and a2.ndim == 0:
            b = np.asarray(b)  # numpy's scalar / 0-d array duality: same dtype, same value, identical at the xarray level
        if not isinstance(b, np.ndarray):
            return f"{path}: {type(b).__name__} instead of ndarray"
        if a2.dtype != b.dtype or a2.shape != b.shape:
            return f"{path}: dtype/shape {b.dtype}{b.shape} != {a2.dtype}{a2.shape}"
        if a2.dtype.kind == "f":
            ok = np.array_equal(np.isnan(a2), np.isnan(b)) and np.array_equal(np.signbit(a2[~np.isnan(a2)]), np.signbit(b[~np.isnan(b)])) \
                and np.array_equal(a2[~np.isnan(a2)], b[~np.isnan(b)])
        else:
            ok = a2.tobytes() == b.tobytes()
        return None if ok else f"{path}: values differ: {b.tolist()!r:.80} != {a2.tolist()!r:.80}"
    if isinstance(a, list) and a and not isinstance(a[0], (list, tuple, dict)) and isinstance(b, np.ndarray):
        return same(np.asarray(a), b, path)
    if type(a) is not type(b):
        return f"{path}: type {type(b).__name__} != {type(a).__name__} ({b!r:.60} vs {a!r:.60})"
    if isinstance(a, dict):
        if list(a) != list(b):
            return f"{path}: keys {list(b)} != {list(a)}"
        for k in a:
            d = same(a[k], b[k], f"{path}[{k!r}]")
            if d:
                return d
        return None
    if isinstance(a, (list, tuple)):
        if len(a) != len(b):
            return f"{path}: length {len(b)} != {len(a)}"
        for i, (x, y) in enumerate(zip(a, b)):
            d = same(x, y, f"{path}[{i}]")
            if d:
                return d
        return None
    if isinstance(a, float):
        if a != a:
            return None if b != b else f"{path}: {b!r} != nan"
        return None if (a == b and np.signbit(a) == np.signbit(b)) else f"{path}: {b!r} != {a!r}"
    return None if a == b else f"{path}: {b!r} != {a!r}"


def arrays(rng):
    """one array per dtype kind x shape with boundary values"""
    i64 = np.iinfo("int64")
    base = {
        "b": lambda n: rng.integers(0, 2, n).astype(bool),
        "i1": lambda n: rng.choice([-128, 0, 127], n).astype("int8"),
        "i8": lambda n: rng.choice([i64.min, -2**53 - 1, -1, 0, 2**53 + 1, i64.max], n).astype("int64"),
        "u2": lambda n: rng.choice([0, 1, 65535], n).astype("uint16"),
        "u8": lambda n: rng.choice(np.array([0, 2**53 + 1, 2**64 - 1], dtype="uint64"), n),
        "f4": lambda n: rng.choice(np.array([np.nan, np.inf, -np.inf, -0.0, 0.0, 1e-45, 3.4028235e38, 1.1], dtype="float32"), n),
        "f8": lambda n: rng.choice(np.array([np.nan, np.inf, -np.inf, -0.0, 5e-324, 1.7976931348623157e308, 0.1], dtype="float64"), n),
        "U": lambda n: rng.choice(np.array(["", "m", "µs", "Hz/µs^2", "日本語", " padded "]), n),
        "M8[ns]": lambda n: (np.datetime64("2020-02-29T23:59:59.999999999", "ns")
                             + rng.choice(np.array([0, 1, -1, 2**53 + 1, -(2**53) - 1, 10**18], dtype="int64"), n).astype("timedelta64[ns]")),
        "M8[ns]+NaT": lambda n: np.where(rng.integers(0, 2, n).astype(bool), np.datetime64("NaT", "ns"),
                                         np.datetime64("2014-01-01T00:00:00.000000001", "ns")),
        "M8[s]": lambda n: np.datetime64("1999-12-31T23:59:59", "s") + rng.integers(-10**9, 10**9, n).astype("timedelta64[s]"),
        "M8[D]": lambda n: np.datetime64("2020-02-29", "D") + rng.integers(-40000, 40000, n).astype("timedelta64[D]"),
        "m8[ns]": lambda n: rng.choice(np.array([i64.min + 1, -(2**53) - 1, 0, 2**53 + 1, i64.max], dtype="int64"), n).astype("timedelta64[ns]"),
        "m8[ms]": lambda n: rng.integers(-10**12, 10**12, n).astype("timedelta64[ms]"),
    }
    for name, gen in base.items():
        for shape in ((), (0,), (1,), (5,), (2, 3), (1, 0)):
            n = int(np.prod(shape)) if shape else 1
            a = gen(max(n, 1))[:n].reshape(shape) if shape else gen(1).reshape(())
            yield f"{name}{list(shape)}", a


def attrs_samples(rng):
    return [
        {},
        {"units": "µs", "valid_range": [0, 65535], "t": (1, 2), "nested": ["dB", (0, 65535), [3, (4, 5)], {"k": (1,)}]},
        {"i": 2**63 - 1, "f": float("nan"), "inf": float("-inf"), "z": -0.0, "b": True, "none": None, "empty": [], "et": ()},
        {"deep": [[[(("a", 1), [("b",)])]]], "coordinates": ["rows", "time"]},
    ]


def run(ses, prop="C08"):
    """the codec contract; also run (with their own obligation ids) by the properties that use the codec as a lemma: C07, C10"""
    import fsspec
    from fsspec.implementations.dirfs import DirFileSystem

    from ceos_alos2.array import Array
    from ceos_alos2.hierarchy import Group, Variable
    from ceos_alos2.sar_image import caching, open_image
    from ceos_alos2.sar_image.caching import decoders, encoders
    from native import synth

    for f in (caching.encode, caching.decode, encoders.encode_array, encoders.encode_datetime, encoders.encode_timedelta,
              encoders.encode_variable, encoders.encode_group, encoders.encode_hierarchy, encoders.preprocess,
              decoders.postprocess, decoders.decode_datetime, decoders.decode_array, decoders.decode_variable,
              decoders.decode_group, decoders.decode_hierarchy):
        ses.under_contract(f)
    rng = np.random.default_rng(ses.seed)
    bad = []
    n = 0

    def check(label, g, rpc=3):
        nonlocal n
        n += 1
        try:
            text = caching.encode(g)
            if not isinstance(text, str):
                return bad.append((label, f"encode returned {type(text).__name__}"))
            json.loads(text)
            back = caching.decode(text, rpc)
        except Exception as e:  # noqa: BLE001
            return bad.append((label, f"{type(e).__name__}: {e}"[:160]))
        RPC[0] = rpc
        d = same(g, back)
        if d:
            bad.append((label, d))

    # (b) generated hierarchies: every dtype kind x shape, with each attrs sample, nested two levels deep
    A = attrs_samples(rng)
    dims_of = lambda a: [f"d{i}" for i in range(a.ndim)]  # noqa: E731
    for i, (label, a) in enumerate(arrays(rng)):
        var = Variable(dims_of(a), a, A[i % len(A)])
        inner = Group(path="/outer/inner", url="u", data={"v": var}, attrs=A[(i + 1) % len(A)])
        outer = Group(path="/outer", url="u", data={"inner": inner, "w": Variable(dims_of(a), a, {})}, attrs=A[(i + 2) % len(A)])
        check(f"generated/{label}", outer)
    # image arrays of files beyond 4 GiB / 2**53 bytes (only the index entries are built, no such file is needed), with
    # long and short byte-range lists, more ranges than lines, an empty group path
    for label, lo, rows in (("beyond-4GiB", 2**32 - 70 * 1000, 300), ("beyond-2**53", 2**53 - 3000, 7), ("small", 720, 3)):
        R = 1000
        ranges = [(lo + i * R + 192, lo + (i + 1) * R) for i in range(rows)]
        for extra in (0, 2):  # as many ranges as lines / two more (the header's record count and line count are independent)
            arr = Array(fs=DirFileSystem(path="/no/such/product", fs=fsspec.filesystem("file")), url="IMG-HH-X", byte_ranges=ranges,
                        shape=(rows - extra, (R - 192) // 2), dtype="uint16", type_code="IU2", records_per_chunk=64)
            g = Group(path="", url="u", data={"data": Variable(["rows", "columns"], arr, {})}, attrs={})
            g.path = ""  # open_image assigns the group name after construction; it may be empty
            for rpc in (1, 64, 10**6):
                check(f"generated/backend-array/{label}/extra-ranges={extra}/rpc={rpc}", g, rpc)
    n_gen = n
    bad_gen = list(bad)
    ses.bounded_check(f"{prop}/bounded/generated-hierarchies-round-trip", not [b for b in bad],
                      bound=f"{n_gen} hierarchies: 14 dtype variants (kinds b,i,u,f,M,m,U) x shapes (), (0,), (1,), (5,), (2,3), (1,0) "
                            "with boundary values (int64 extremes, > 2**53 ticks, NaN/inf/-0.0, NaT, non-ASCII), nested attrs with "
                            "tuples inside mixed lists", function="ceos_alos2.sar_image.caching.encode", evaluations=n_gen,
                      replay=lambda m, bad=list(bad): {"confirmed": True, "witness_class": "generated hierarchy", "input": bad[0][0],
                                                      "observed": bad[0][1], "expected": "decode(encode(g)) == g"},
                      detail={"wrong": bad[:4], "n_wrong": len(bad)})
    # (a) reader-produced groups (incl. the backend array) from synthetic images with extreme prefix values
    bad2 = []
    bad = bad2
    fs = fsspec.filesystem("file")
    import tempfile

    d = tempfile.mkdtemp(prefix="c08_")
    mx = 2**32 - 1
    try:
        for level, data in (("1.5", rng.integers(0, 65536, (3, 2)).astype("uint16")),
                            ("1.1", (rng.normal(size=(2, 2)) + 1j * rng.normal(size=(2, 2))).astype("complex64"))):
            for variant, extra in (("typical", None), ("extreme", lambda i: {"prf": mx, "scan_id": mx if i else 0,
                                                                             "sensor_acquisition_date.year": 2049,
                                                                             "sensor_acquisition_date.day_of_year": 365,
                                                                             "sensor_acquisition_date.milliseconds": 86399999 - i})):
                name = f"IMG-HH-ALOS2123450000-200229-WBDR{level}__D" if level == "1.1" else "IMG-HH-ALOS2123450000-200229-WBDR1.5RUD"
                open(f"{d}/{name}", "wb").write(synth.image_file(data, level=level, extra_line=extra))
                g = open_image(fsspec.get_mapper(d), name, use_cache=False, records_per_chunk=2)
                if level == "1.1":
                    # the five nested sub-struct variables are object data (known finding of C12): not encodable, left out
                    for k in ("elevation_angle_at_nadir_of_antenna", "antenna_squint_angle", "platform_velocity",
                              "platform_acceleration", "platform_attitude"):
                        g.data.pop(k, None)
                        if k in g.attrs.get("coordinates", []):
                            g.attrs["coordinates"].remove(k)
                for rpc in (1, 2, 1000):
                    check(f"reader/{level}/{variant}/rpc={rpc}", g, rpc)
    finally:
        import shutil

        shutil.rmtree(d, ignore_errors=True)
    ses.bounded_check(f"{prop}/bounded/reader-produced-groups-round-trip", not bad2,
                      bound=f"{n - n_gen} round trips: level 1.5 / 1.1 images x typical / extreme prefix values x 3 read-time rpc",
                      function="ceos_alos2.sar_image.caching.decode", evaluations=n - n_gen,
                      replay=lambda m: {"confirmed": True, "input": bad2[0][0], "observed": bad2[0][1], "expected": "decode(encode(g)) == g"},
                      detail={"wrong": bad2[:3]})
    import inspect

    src = inspect.getsource(encoders.preprocess) + inspect.getsource(decoders.postprocess)
    ses.decided(f"{prop}/tuple-tagging/encoder-and-decoder-use-the-same-tag", src.count('"tuple"') >= 2 and "__type__" in src,
                function="ceos_alos2.sar_image.caching.encoders.preprocess", backend="syntactic")
    ses.decided(f"{prop}/document-is-text", "json.dumps" in inspect.getsource(caching.encode), function="ceos_alos2.sar_image.caching.encode",
                backend="syntactic")
    # the deductive part: structural induction over the hierarchy on the real functions (props/codec.py); where a function body
    # leaves the verified subset, the bounded round trips above stand in
    from props import codec

    codec.run(ses, prop)
    all_bad = list(bad_gen) + list(bad2)
    ses.resolve_engine_limits("codec", lambda: (not all_bad, n, {"input": all_bad[0][0], "observed": all_bad[0][1],
                                                                 "expected": "decode(encode(g)) == g"} if all_bad else None),
                              bound_text=f"{n} round trips of generated and reader-produced hierarchies (see the two bounded checks)")
    ses.trust("numpy / json (executed in the bounded part; in the deductive part they enter through the axioms listed by props/codec.py)",
              "the structural equality `same` in props/c08.py")
    ses.assume("datetime spans fit timedelta64 of the array's unit (|span| < 292 years for ns); NaN payload bits are not part of "
               "the value (JSON has one NaN)")
