"""./check driver: python -m props.cli <PROP> [--tier quick|thorough] [--replay file]"""
import argparse
import importlib
import json
import os
import sys

sys.setrecursionlimit(20000)


def main():
    ap = argparse.ArgumentParser()
    ap.add_argument("prop")
    ap.add_argument("--tier", default=os.environ.get("VERIF_TIER", "quick"), choices=["quick", "thorough"])
    ap.add_argument("--replay", default=None)
    args = ap.parse_args()
    seed = int(os.environ.get("VERIF_SEED", "0") or 0)
    prop = args.prop.upper()
    from pyvc.vc import run_property

    mod = importlib.import_module(f"props.{prop.lower()}")
    if args.replay:
        data = json.load(open(args.replay))
        sys.exit(mod.replay(data) if hasattr(mod, "replay") else 3)
    code = run_property(prop, mod.run, args.tier, seed)
    sys.exit(code)


if __name__ == "__main__":
    main()
