"""./check driver: python -m props.cli <PROP> [--tier quick|thorough] [--replay file]"""
import argparse
import importlib
import json
import os
import sys

sys.setrecursionlimit(20000)


def main():
    ap = argparse.ArgumentParser()
    ap.add_argument("prop")
    ap.add_argument("--tier", default=os.environ.get("VERIF_TIER", "quick"), choices=["quick", "thorough"])
    ap.add_argument("--replay", default=None)
    args = ap.parse_args()
    seed = int(os.environ.get("VERIF_SEED", "0") or 0)
    prop = args.prop.upper()
    from pyvc.vc import run_property

    mod = importlib.import_module(f"props.{prop.lower()}")
    if args.replay:
        # replay of a recorded violation against the current tree: the named obligation is regenerated from the current
        # source (the whole property is re-run, its obligations are generated from /repo as it is now) and re-decided
        data = json.load(open(args.replay))
        target = (data.get("obligation") or "").split("#")[0]
        from pyvc.vc import Session
        import traceback

        ses = Session(prop, tier=args.tier, seed=seed, checker_cmd=f"./check {prop} --replay {args.replay}")
        try:
            mod.run(ses)
        except Exception:
            ses.crashed = traceback.format_exc()
        hits = [o for o in ses.obligations if o.id.split("#")[0] == target]
        failing = [o for o in hits if o.status == "failed"]
        print(f"[{prop}] replay of {target}: regenerated {len(hits)} obligation(s), {len(failing)} failing")
        if data.get("input") is not None:
            print(f"  recorded input: {json.dumps(data.get('input'))[:300]}")
            print(f"  recorded observed: {json.dumps(data.get('observed'))[:300]}  expected: {json.dumps(data.get('expected'))[:200]}")
        if failing or (not hits and ses.crashed):
            print(f"VIOLATION property={prop} replay={args.replay} obligation={target}"
                  + ("" if any((o.replay or {}).get("confirmed_on_real_code") for o in failing) else " no-failing-input-found"))
            sys.exit(1)
        sys.exit(0)
    code = run_property(prop, mod.run, args.tier, seed)
    sys.exit(code)


if __name__ == "__main__":
    main()
