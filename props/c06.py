"""C06 records_per_chunk never changes what is read, only how — DESIGN.md §4/C06.

(1) read_metadata ∘ transform_metadata for symbolic n, R and *any* records_per_chunk >= 1 (chunk loop under the
    contract's loop invariants: file position 720 + R*min(rpc*j, n) before chunk j, running sums min(rpc*j, n)) is proved
    equal, location by location, to the one-request contract (spec/tables/image1*s.json) — which does not mention rpc.
(2) normalize_chunksize(rpc, n) = min(rpc, n); Array.__post_init__ stores it; Variable.chunks / extract_encoding
    advertise {rows: min(rpc, n), columns: pixels}.
(3) Array.__getitem__ returns M[key] for every chunk size c in [1, n]: C02's obligation set (cited, re-run in C02).
"""
import z3

from props import records
from props.c04 import TRUST


def run(ses):
    from pyvc import frame as _frame

    _frame.purity_obligation(ses)
    quick = ses.tier == "quick"
    units = ("image10q", "image11q") if quick else ("image10", "image11")
    table_of = {u: u.rstrip("q") + "s" if quick else u + "s" for u in units}
    records.check_units(ses, units, ["table", "frame"], table_of=table_of, sliced=True)
    chunk_obligations(ses)
    # loading does not modify the Array (its chunk table is computed once from rpc): a load cannot change what a later
    # load — with this or any other records_per_chunk — returns
    from pyvc.harness import run_cases

    run_cases(ses, "props.c19", "case_load", [("IU2", "slice_sym", "slice_none")])
    from props import arraychain as _ac

    _ac.resolve_limits(ses)
    ses.trust(*TRUST[:4], "induction schema: a closed form satisfying X(0) = init and X(j+1) - X(j) = step(j) equals the running "
                          "sum / file position of the loop (checked: initialisation and preservation)")
    ses.assume("math.ceil(n / rpc) is the exact integer ceiling: true for n, rpc < 2**53 (float division of ints is correctly "
               "rounded) — A-ceil; larger values are outside the precondition",
               "quick tier: optional header fields filled, sample type matches the record type (thorough: all header cases)")


def chunk_obligations(ses):
    import pyvc  # noqa: F401
    from ceos_alos2 import array as A
    from ceos_alos2 import xarray as X
    from ceos_alos2.hierarchy import Variable
    from pyvc.core import Sym, explore
    from pyvc.harness import path_hyps
    from pyvc.interp import Interp
    from pyvc.ops import as_int_term

    fn = ses.under_contract(A.normalize_chunksize)
    ses.under_contract(X.extract_encoding)
    ses.under_contract(Variable.chunks.fget, "ceos_alos2.hierarchy.Variable.chunks")
    ses.under_contract(A.Array.chunks.fget, "ceos_alos2.array.Array.chunks")
    rpc, n, w = z3.Ints("rpc n w")
    hyps = [rpc >= 1, n >= 1, w >= 1]

    def run(path, extra):
        it = Interp(path)
        return it.call(it.shim(A.normalize_chunksize), [Sym(rpc, int), Sym(n, int)], {})

    for i, r in enumerate(explore(run, hyps=hyps)):
        if r.outcome != "return":
            ses.not_proved(f"C06/normalize_chunksize/path{i}/returns", repr(r.exc), function=fn)
            continue
        ses.prove(f"C06/normalize_chunksize/path{i}/is-min(rpc,n)", path_hyps(r.path),
                  as_int_term(r.value) == z3.If(rpc <= n, rpc, n), function=fn)
    # advertised chunks: Array.chunks -> Variable.chunks -> extract_encoding
    def run2(path, extra):
        it = Interp(path)
        arr = object.__new__(A.Array)
        for k, v in dict(fs=None, url="x", byte_ranges=[], shape=(Sym(n, int), Sym(w, int)), dtype="uint16", type_code="IU2",
                         records_per_chunk=Sym(z3.If(rpc <= n, rpc, n), int), chunk_offsets={}).items():
            object.__setattr__(arr, k, v)
        var = Variable(["rows", "columns"], arr, {})
        return it.call(it.shim(X.extract_encoding), [var], {})

    for i, r in enumerate(explore(run2, hyps=hyps)):
        if r.outcome != "return":
            ses.not_proved(f"C06/extract_encoding/path{i}/returns", repr(r.exc), function="ceos_alos2.xarray.extract_encoding")
            continue
        enc = r.value
        pc = enc.get("preferred_chunksizes") if isinstance(enc, dict) else None
        ok = isinstance(pc, dict) and list(pc) == ["rows", "columns"]
        ses.decided(f"C06/extract_encoding/path{i}/advertises-rows-and-columns", ok, function="ceos_alos2.xarray.extract_encoding",
                    detail={"encoding": repr(enc)[:200]})
        if ok:
            ses.prove(f"C06/extract_encoding/path{i}/rows=min(rpc,n)", path_hyps(r.path),
                      as_int_term(pc["rows"]) == z3.If(rpc <= n, rpc, n), function="ceos_alos2.xarray.extract_encoding")
            ses.prove(f"C06/extract_encoding/path{i}/columns=pixels", path_hyps(r.path), as_int_term(pc["columns"]) == w,
                      function="ceos_alos2.xarray.extract_encoding")
