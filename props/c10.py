"""C10 Opening is a pure function of the product, independent of open history — DESIGN.md §4/C10.

Deductive, per operation: open_image's result is a function of (image, current records_per_chunk, cache content) only and
equals the parsed group / decode(index, current rpc) in every cache state; it writes nothing but <user cache>/<hash>/<image>.index
and only when asked; no write to state that outlives the call; the option dictionaries are only **-unpacked. History
independence follows by induction over the sequence (invariant: every index present decodes to the image's group) — the
induction itself is not mechanised. Bounded (labelled): operation sequences on real products."""
from props import cache_e2e, cacheunit


def run(ses):
    from pyvc import frame as _frame

    _frame.purity_obligation(ses)
    cacheunit.obligations(ses, "C10")
    cacheunit.options_obligations(ses, "C10")
    cache_e2e.histories(ses, "C10")
    cache_e2e.partial_cache_sequences(ses, "C10")
    cacheunit.key_obligations(ses, "C10")  # one index file per image: distinct images never share a cache location
    from props import c08

    c08.run(ses, "C10")  # the codec lemma (see c07)
