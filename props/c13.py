"""C13 Tree assembly: one correctly named group per image, none dropped or swapped — DESIGN.md §4/C13.

Deductive part: ceos_alos2.io.open interpreted by pyvc with the four readers replaced by their contracts (each verified
by its own property: C14 summary, C16 volume directory, C04 leader, C03/C01 image) for every image count k = 1..8 — the
property's stated range, enumerated completely — with symbolic group contents: children, order, names, urls, root attrs;
Group nesting (hierarchy.Group.__post_init__/_adjust_item/subtree) is interpreted.
Bounded part (labelled): synthetic products k = 1..8 through open_alos2 (real xarray): names, order, each group holds its
own file's pixels, coordinates promoted, bookkeeping attribute removed, metadata groups, second open identical.
"""
from __future__ import annotations

import z3


def run(ses):
    from pyvc import frame as _frame

    _frame.purity_obligation(ses)
    deductive(ses)
    bounded(ses)
    ses.trust("pyvc engine", "xarray.DataTree.from_dict / Dataset / set_coords (T6, exercised in the bounded part)")
    ses.assume("the four readers satisfy their contracts (C03/C04/C14/C16)",
               "group names are pairwise distinct for distinct (polarisation, scan) — C15's injectivity obligation")


def deductive(ses):
    import pyvc  # noqa: F401
    from ceos_alos2 import io as IO
    from ceos_alos2 import hierarchy as H
    from ceos_alos2 import sar_image
    from ceos_alos2.hierarchy import Group, Variable
    from pyvc.absobj import SymFS, SymMapper
    from pyvc.core import Path, Sym
    from pyvc.dump import Dumper
    from pyvc.interp import Interp
    from pyvc.models import REGISTRY
    from pyvc.ops import StrSort
    import fsspec

    fn = ses.under_contract(IO.open, "ceos_alos2.io.open")
    for f in (H.Group.__post_init__, H.Group._adjust_item, H.Group.decouple, sar_image.filename_to_groupname):
        ses.under_contract(f)
    S = lambda name: Sym(z3.Const(name, StrSort), str)  # noqa: E731  opaque contents

    for k in range(1, 9):
        files = [f"IMG-file{i}" for i in range(k)]
        names = [f"group{i}" for i in range(k)]
        log = []

        def summary_contract(it, a, kw):
            log.append(("summary", a[1]))
            df = Group(path="data_files", url=None, data={}, attrs={"volume_directory": "VOL", "sar_leader": "LED",
                                                                      "sar_imagery": list(files), "sar_trailer": "TRL"})
            pi = Group(path="product_info", url=None, data={"data_files": df}, attrs={"BitPixel": S("bitpixel")})
            return Group(path="summary", url=None, data={"product_information": pi}, attrs={})

        def vol_contract(it, a, kw):
            log.append(("volume", a[1]))
            return Group(path=None, url=None, data={}, attrs={"product_id": S("vol_product_id"), "scene_id": S("vol_scene_id")})

        def leader_contract(it, a, kw):
            log.append(("leader", a[1]))
            sub = Group(path=None, url=None, data={}, attrs={"scene_id": S("led_scene_id")})
            return Group(path=None, url=None, data={"dataset_summary": sub}, attrs={})

        def image_contract(it, a, kw):
            path = a[1]
            log.append(("image", path, dict(kw)))
            i = files.index(path)
            g = Group(path=None, url=None, data={"rows": Variable(["rows"], [S(f"rows{i}")], {})}, attrs={"coordinates": ["rows"]})
            g.data["data"] = Variable(["rows", "columns"], ("pixels-of", path), {})
            g.path = names[i]
            return g

        contracts = {"ceos_alos2.summary.open_summary": summary_contract,
                     "ceos_alos2.volume_directory.io.open_volume_directory": vol_contract,
                     "ceos_alos2.sar_leader.io.open_sar_leader": leader_contract,
                     "ceos_alos2.sar_image.open_image": image_contract}
        it = Interp(Path([]), contracts=contracts)
        mapper = SymMapper(SymFS(path="/product"))
        old = REGISTRY.calls.get(fsspec.get_mapper)
        REGISTRY.calls[fsspec.get_mapper] = lambda it_, a, kw: mapper
        try:
            root = it.call(it.shim(IO.open), ["/product"], {"records_per_chunk": 7, "use_cache": False, "create_cache": False})
        finally:
            if old is None:
                REGISTRY.calls.pop(fsspec.get_mapper, None)
            else:
                REGISTRY.calls[fsspec.get_mapper] = old
        pid = f"C13/io.open/k={k}"
        ses.decided(f"{pid}/root-children", list(root.data) == ["summary", "metadata", "imagery"], function=fn,
                    detail={"children": list(root.data)})
        im = root.data.get("imagery")
        ok = im is not None and list(im.data) == names
        ses.decided(f"{pid}/imagery-children-in-summary-order", ok, function=fn, detail={"children": list(im.data) if im else None})
        if ok:
            own = all(im.data[n].data["data"].data == ("pixels-of", f) for n, f in zip(names, files))
            ses.decided(f"{pid}/each-group-holds-its-own-file", own, function=fn)
            paths = [im.data[n].path for n in names]
            ses.decided(f"{pid}/group-paths", paths == [f"/imagery/{n}" for n in names], function=fn, detail={"paths": paths})
        imgs = [e for e in log if e[0] == "image"]
        ses.decided(f"{pid}/one-open-per-listed-file", [e[1] for e in imgs] == files, function=fn)
        ses.decided(f"{pid}/options-threaded-unchanged",
                    all(e[2] == {"records_per_chunk": 7, "use_cache": False, "create_cache": False} for e in imgs), function=fn,
                    detail={"kwargs": imgs[0][2] if imgs else None})
        ses.decided(f"{pid}/reads-the-files-named-by-the-summary",
                    [e for e in log if e[0] != "image"] == [("summary", "summary.txt"), ("volume", "VOL"), ("leader", "LED")], function=fn)
        attrs = root.attrs
        d = Dumper(it)
        vol_ok = set(attrs) == {"product_id", "scene_id", "reference_document"} and \
            d.value(attrs["product_id"]).get("t") == "vol_product_id" and isinstance(attrs["reference_document"], str)
        ses.decided(f"{pid}/root-attrs=volume-attrs+reference-document", vol_ok, function=fn, detail={"attrs": list(attrs)})
        ses.decided(f"{pid}/metadata-is-the-leader-group", list(root.data["metadata"].data) == ["dataset_summary"]
                    and root.data["metadata"].path == "/metadata", function=fn)
    # group name from file name: stable under repeated calls (no hidden state), both for ScanSAR and stripmap names
    for fname, want in (("IMG-HH-ALOS2123450000-200229-WBDR1.1__D-F2", "HH_scan2"), ("IMG-HV-ALOS2123450000-200229-UBSR1.5RUD", "HV")):
        it = Interp(Path([]))
        got = [it.call(it.shim(sar_image.filename_to_groupname), [fname], {}) for _ in range(3)]
        ses.decided(f"C13/filename_to_groupname/{want}/same-name-on-every-call", got == [want] * 3,
                    function="ceos_alos2.sar_image.filename_to_groupname", detail={"names": got})


def bounded(ses):
    import numpy as np

    from ceos_alos2.xarray import open_alos2
    from native import e2e

    e2e.isolate_cache()
    n = 0
    bad = []
    def guarded(label, fn, *a):
        """an exception of the real code inside a scenario is a finding of that scenario, not a crash of the check"""
        try:
            fn(*a)
        except Exception as e:  # noqa: BLE001
            bad.append((label, f"raised {type(e).__name__}: {e}"[:200]))

    def one_product(k, level, mapproj):
        nonlocal n
        if True:
            root = f"/c13/k{k}_{level}"
            fs, images, names = e2e.make_product(root, k=k, level=level, seed=ses.seed, mapproj=mapproj)
            trees = [open_alos2(f"memory://{root}", backend_options={"records_per_chunk": 2, "use_cache": False}) for _ in range(2)]
            # the same product opened through the index cache it has just written: still one correctly named group per image
            # (pixels are not compared here: on a non-local filesystem cached arrays are C07's known finding)
            open_alos2(f"memory://{root}", backend_options={"records_per_chunk": 2, "use_cache": False, "create_cache": True})
            cached = open_alos2(f"memory://{root}", backend_options={"records_per_chunk": 2, "use_cache": True})
            want_names = [e2e.group_name(p, s) for p, s, _ in images]
            n += 1
            if list(cached["imagery"].children) != want_names:
                bad.append((root, ("imagery children via cache", list(cached["imagery"].children), want_names)))
            else:
                for (p, s, d), nm in zip(images, want_names):
                    node = cached[f"imagery/{nm}"]
                    if tuple(node["data"].shape) != d.shape:
                        bad.append((root, ("cached group holds another image", nm, tuple(node["data"].shape), d.shape)))
            for t in trees:
                n += 1
                want_names = [e2e.group_name(p, s) for p, s, _ in images]
                problems = []
                if list(t.children) != ["summary", "metadata", "imagery"]:
                    problems.append(("root children", list(t.children)))
                if list(t["imagery"].children) != want_names:
                    problems.append(("imagery children", list(t["imagery"].children), want_names))
                else:
                    for (p, s, d), nm in zip(images, want_names):
                        node = t[f"imagery/{nm}"]
                        vals = node["data"].values
                        if vals.shape != d.shape or not np.array_equal(vals, d):
                            problems.append(("pixels of", nm))
                        if "coordinates" in node.attrs:
                            problems.append(("bookkeeping attribute left", nm))
                        if "rows" not in node.coords:
                            problems.append(("rows not a coordinate", nm))
                md = list(t["metadata"].children)
                want_md = ["dataset_summary"] + (["map_projection"] if mapproj else []) + \
                    ["platform_position", "attitude", "radiometric_data", "data_quality_summary", "transformations"]
                if md != want_md:
                    problems.append(("metadata children", md, want_md))
                if t.attrs.get("reference_document", "").startswith("https://") is False or t.attrs.get("scene_id") != "ORBIT:ALOS2123450000":
                    problems.append(("root attrs", dict(t.attrs)))
                if problems:
                    bad.append((root, problems[:3]))
            d = e2e.first_difference(e2e.canon(trees[0]), e2e.canon(trees[1]))
            if d:
                bad.append((root, "second open differs: " + d))

    for k in range(1, 9):
        for level, mapproj in (("1.5", 1), ("1.1", 0)):
            guarded(f"/c13/k{k}_{level}", one_product, k, level, mapproj)

    def twins_and_partial_cache():
        nonlocal n
        # two products with identical file names open at the same time: each tree must deliver its own pixels
        fsA, imagesA, _ = e2e.make_product("/c13/twinA", k=2, level="1.5", seed=ses.seed + 100)
        # same file names, shapes, dtypes and chunking — only the pixels differ
        imagesB = [(p, s_, ((d.astype("uint32") + 1 + i) % 65536).astype("uint16")) for i, (p, s_, d) in enumerate(imagesA)]
        fsB, imagesB, _ = e2e.make_product("/c13/twinB", level="1.5", images=imagesB)
        tA = open_alos2("memory:///c13/twinA", backend_options={"use_cache": False})
        tB = open_alos2("memory:///c13/twinB", backend_options={"use_cache": False})
        n += 2
        for t, images, root in ((tA, imagesA, "twinA"), (tB, imagesB, "twinB")):
            for (p, s_, d), nm in zip(images, [e2e.group_name(p, s_) for p, s_, _ in images]):
                vals = t[f"imagery/{nm}/data"].values if nm in t["imagery"].children else None
                if vals is None or vals.shape != d.shape or not np.array_equal(vals, d):
                    bad.append((root, ("a tree opened next to a same-named product returns foreign pixels", nm)))
        # partially cached product (only a non-prefix subset of the images has an index): still every group, in summary order
        import pathlib

        from ceos_alos2.sar_image.caching import path as P

        root = "/c13/partial"
        fs, images, names = e2e.make_product(root, k=4, level="1.1", seed=ses.seed + 300)
        open_alos2(f"memory://{root}", backend_options={"use_cache": False, "create_cache": True})
        idx = sorted(pathlib.Path(P.cache_root).rglob("*.index"))
        for name in names[2:-1][:1] + names[2:-1][2:3]:  # drop the index of the 1st and 3rd image
            for p_ in idx:
                if p_.name == name + ".index":
                    p_.unlink()
        t = open_alos2(f"memory://{root}", backend_options={"use_cache": True})
        n += 1
        want_names = [e2e.group_name(p, s_) for p, s_, _ in images]
        if list(t["imagery"].children) != want_names:
            bad.append((root, ("imagery children with a partial cache", list(t["imagery"].children), want_names)))

    guarded("/c13/twins-and-partial-cache", twins_and_partial_cache)
    ses.bounded_check("C13/bounded/synthetic-products-k=1..8", not bad,
                      bound=f"k = 1..8 images x (level 1.5 with map projection, level 1.1 without), random distinct (pol, scan) "
                            f"sets, each opened twice ({n} trees)", function="ceos_alos2.xarray.open_alos2", evaluations=n,
                      replay=lambda m: {"confirmed": True, "input": bad[0][0], "observed": str(bad[0][1])[:300],
                                        "expected": "one correctly named group per image in summary order"},
                      detail={"wrong": str(bad[:2])[:400]})
