"""Contracts and obligations for ceos_alos2.array (used by C01, C02, C06, C11, C12, C18, C19).

Class invariant Inv(Array) — established by `Array.__post_init__` (obligations `post_init/*`), assumed by
`Array.__getitem__` (obligations `getitem/*`):
    n = len(byte_ranges) >= 1,  1 <= c = records_per_chunk <= n
    every row r in [0, n):  0 <= start(r) <= stop(r) <= |file|,   stop(r) - start(r) = W * S
    chunk_offsets is a mapping whose keys are exactly the chunk numbers {r // c}; for every row r, with k = r // c:
        off(k) <= start(r)  and  stop(r) <= off(k) + size(k)                       (chunk span covers its rows)
        off(k) = start(w1(k)),  off(k) + size(k) = stop(w2(k)),  w1(k), w2(k) rows of chunk k  (span is tight)
        0 <= off(k),  0 <= size(k),  off(k) + size(k) <= |file|
"""
from __future__ import annotations

import numpy as np
import z3

import pyvc  # noqa: F401
from pyvc.absobj import SymFS, SymNd, SymC32, decode_scalar
from pyvc.core import Sym, SymSeq, fresh_int
from pyvc.harness import explore_checked, path_hyps
from pyvc.interp import Interp
from pyvc.models import SymMapFn
from pyvc.ops import FDIV, as_int_term, floordiv_axioms, mk_int

from ceos_alos2 import array as A

TYPES = {"IU2": (2, "uint16"), "C*8": (8, "complex64")}


class World:
    """symbols and hypotheses describing one well-formed image array"""

    def __init__(self, type_code="IU2", with_inv=True):
        self.type_code = type_code
        self.S, self.dtype = TYPES[type_code]
        self.n, self.W, self.c = z3.Ints("n W c")
        self.fsize = z3.Int("size_of_file_100")
        I = z3.IntSort()
        self.start = z3.Function("start", I, I)
        self.stop = z3.Function("stop", I, I)
        self.off = z3.Function("chunk_off", I, I)
        self.size = z3.Function("chunk_size", I, I)
        self.dom = z3.Function("chunk_dom", I, z3.BoolSort())
        self.w1 = z3.Function("w_first", I, I)
        self.w2 = z3.Function("w_last", I, I)
        self.with_inv = with_inv

    def row_facts(self, r):
        w = self
        f = [w.start(r) >= 0, w.stop(r) == w.start(r) + w.W * w.S, w.stop(r) <= w.fsize]
        if self.with_inv:
            k = FDIV(r, w.c)
            f += [w.dom(k), w.off(k) <= w.start(r), w.stop(r) <= w.off(k) + w.size(k)]
            f += self.chunk_facts(k)
        return z3.Implies(z3.And(r >= 0, r < w.n), z3.And(*f))

    def chunk_facts(self, k):
        w = self
        return [
            w.off(k) >= 0, w.size(k) >= 0, w.off(k) + w.size(k) <= w.fsize,
            w.w1(k) >= 0, w.w1(k) < w.n, FDIV(w.w1(k), w.c) == k, w.start(w.w1(k)) == w.off(k),
            w.w2(k) >= 0, w.w2(k) < w.n, FDIV(w.w2(k), w.c) == k, w.stop(w.w2(k)) == w.off(k) + w.size(k),
        ]

    def hyps(self):
        w = self
        r = z3.Int("r")
        h = [w.n >= 1, w.W >= 1, w.c >= 1, w.fsize >= 0]
        if self.with_inv:
            h.append(w.c <= w.n)
        h += floordiv_axioms()
        h.append(z3.ForAll([r], self.row_facts(r), patterns=[w.start(r), w.stop(r), FDIV(r, w.c)]))
        return h

    def byte_ranges(self, path):
        w = self

        def fn(k):
            kt = as_int_term(k)
            path.assume(self.row_facts(kt))  # instantiate-on-access
            return (Sym(w.start(kt), int), Sym(w.stop(kt), int))

        return SymSeq(Sym(w.n, int), fn, list, "byte_ranges")

    def make_array(self, it, fs=None, rpc=None):
        """an Array object satisfying Inv (fields set directly; nothing of __post_init__ is assumed)"""
        w = self
        arr = object.__new__(A.Array)
        fs = fs or SymFS()
        fields = dict(
            fs=fs, url="img", byte_ranges=self.byte_ranges(it.path), shape=(Sym(w.n, int), Sym(w.W, int)),
            dtype=self.dtype, type_code=self.type_code, records_per_chunk=Sym(w.c, int),
            chunk_offsets=SymMapFn(lambda k: w.dom(k), lambda k: {"offset": Sym(w.off(k), int), "size": Sym(w.size(k), int)}),
        )
        for k_, v in fields.items():
            object.__setattr__(arr, k_, v)
        self.fs = fs
        return arr

    def spec_matrix(self):
        """M: the full decoded image, M[r, j] = dec(File[start(r) + j*S : +S])"""
        w = self
        raw = A.raw_dtypes[self.type_code] if self.type_code in A.raw_dtypes else None
        spec_dt = {"IU2": np.dtype(">u2"), "C*8": np.dtype(">c8")}[self.type_code]

        def elem(idx):
            r, j = idx
            return decode_scalar(100, self.start(as_int_term(r)) + as_int_term(j) * self.S, spec_dt)

        return SymNd((Sym(w.n, int), Sym(w.W, int)), elem, spec_dt, "spec")


def make_key(kind, prefix, hyps):
    """index key of the given kind; returns (key, description)"""
    if kind == "int":
        k = z3.Int(f"{prefix}_k")
        return Sym(k, int), [k]
    if kind == "slice_none":
        return slice(None), []
    if kind == "slice_sym":
        a, b, st = z3.Ints(f"{prefix}_a {prefix}_b {prefix}_st")
        hyps.append(st >= 1)
        return slice(Sym(a, int), Sym(b, int), Sym(st, int)), [a, b, st]
    raise ValueError(kind)


def elems_equal(a, b):
    """z3 formula: two decoded scalars are the same value (structural equality of terms)"""
    if isinstance(a, SymC32) and isinstance(b, SymC32):
        return z3.And(a.re == b.re, a.im == b.im)
    if isinstance(a, Sym) and isinstance(b, Sym) and a.pyt == b.pyt:
        return a.term == b.term
    return z3.BoolVal(False)


def definition_instances(path, terms):
    """ground instances of the index-map definitions I(p) = start + p*step for the given index terms"""
    out = []
    for d in getattr(path, "index_maps", []):
        for t in terms:
            out.append(z3.Implies(z3.And(t >= 0, t < d["count"]), d["I"](t) == d["start"] + t * d["step"]))
    return out


def case_getitem(ses, case):
    """obligations of Array.__getitem__ for one (type code, row key kind, column key kind)"""
    tc, k0kind, k1kind = case
    fn = ses.under_contract(A.Array.__getitem__, "ceos_alos2.array.Array.__getitem__")
    for f in (A.compute_selected_ranges, A.groupby_chunks, A.merge_chunk_info, A.relocate_ranges, A.extract_ranges,
              A.read_chunk, A.parse_data):
        ses.under_contract(f)
    w = World(tc)
    hyps = w.hyps()
    key0, v0 = make_key(k0kind, "row", hyps)
    key1, v1 = make_key(k1kind, "col", hyps)
    if k0kind == "int":
        hyps += [v0[0] >= 0, v0[0] < w.n]  # the xarray BASIC adapter hands over non-negative in-range ints
    if k1kind == "int":
        hyps += [v1[0] >= 0, v1[0] < w.W]
    tag = f"{tc}/{k0kind},{k1kind}"
    ses.cover(f"{ses.prop}/getitem/{tag}/pre-satisfiable", [h for h in hyps if not z3.is_quantifier(h)], function=fn)

    def run(path, extra):
        it = Interp(path)
        arr = w.make_array(it)
        # expected value first (same path state): numpy semantics of M[key0, key1]
        extra["exp"] = w.spec_matrix().sym_getitem(it, (key0, key1))
        res = it.call(it.getattr(arr, "__getitem__"), [(key0, key1)], {})
        extra["it"] = it
        return res

    ok = explore_checked(ses, f"{ses.prop}/getitem/{tag}", run, hyps, function=fn, timeout_ms=800, replay=replay_getitem)
    for pi, r in enumerate(ok):
        it = r.extra["it"]
        res = r.value
        path = r.path
        exp = r.extra["exp"]
        base = path_hyps(path)
        pid = f"{ses.prop}/getitem/{tag}/path{pi}"
        if not isinstance(res, SymNd):
            ses.decided(f"{pid}/result-is-array", False, function=fn, detail={"got": repr(res)[:200]})
            continue
        # shape (axis rule, empty rule)
        same_rank = len(res.shape) == len(exp.shape)
        ses.decided(f"{pid}/rank", same_rank, function=fn, replay=replay_getitem,
                    detail={"got": len(res.shape), "expected": len(exp.shape)})
        if not same_rank:
            continue
        lemmas = []
        for ax, (a, b) in enumerate(zip(res.shape, exp.shape)):
            ob = ses.prove(f"{pid}/shape[{ax}]", base, as_int_term(a) == as_int_term(b), function=fn, replay=replay_getitem)
            if ob.status == "discharged":
                lemmas.append(as_int_term(a) == as_int_term(b))  # proved above: usable as a lemma below
        # dtype of the result (up to byte order)
        ses.decided(f"{pid}/dtype", res.dtype.kind == np.dtype(w.dtype).kind and res.dtype.itemsize == np.dtype(w.dtype).itemsize,
                    function=fn, detail={"got": str(res.dtype), "declared": w.dtype})
        # elements: arbitrary (Skolem) position
        idx = [fresh_int(f"ix{ax}") for ax in range(len(res.shape))]
        rng = [z3.And(i >= 0, i < as_int_term(d)) for i, d in zip(idx, res.shape)]
        path.assume(z3.And(*rng)) if rng else None
        got = res.elem(tuple(idx))
        want = exp.elem(tuple(idx))
        defs = definition_instances(path, idx)
        ses.prove(f"{pid}/elements", path_hyps(path, defs + lemmas), elems_equal(got, want), function=fn, replay=replay_getitem,
                  detail={"got": repr(got)[:300], "want": repr(want)[:300]})
        io_log_obligations(ses, f"{ses.prop}/io/getitem/{tag}/path{pi}", w, it, path, fn)


def io_log_obligations(ses, oid, w, it, path, fn):
    """ghost I/O log of one load: open(url) · per touched chunk one (seek off, read size) · close; nothing else"""
    log = it.io_log
    kinds = [e[0] for e in log]
    ok_shape = kinds in (["open", "block", "close"], ["open", "close"])
    ses.decided(f"{oid}/log-shape", ok_shape, function=fn, detail={"log": [repr(e)[:160] for e in log]})
    if not ok_shape:
        return
    ses.decided(f"{oid}/opens-own-url", log[0][1] == "img" and log[0][2] == "rb", function=fn, replay=replay_getitem,
                detail={"open": repr(log[0])})
    if len(log) == 2:
        return
    _, g, G, events = log[1]
    ek = [e[0] for e in events]
    ses.decided(f"{oid}/one-seek-one-read-per-group", ek == ["seek", "read"], function=fn, detail={"events": ek})
    if ek != ["seek", "read"]:
        return
    seek, read = events
    base = path_hyps(path) + [g >= 0, g < G]
    gm = getattr(path, "groupby_models", [])
    if len(gm) != 1:
        ses.decided(f"{oid}/grouping-model", False, function=fn, detail={"groupby_models": len(gm)})
        return
    K, bnd, L = gm[0]["K"], gm[0]["bnd"], gm[0]["L"]
    kappa = K(bnd(g))
    pos, req, got = as_int_term(read[2]), as_int_term(read[3]), as_int_term(read[4])
    ses.prove(f"{oid}/seek-to-chunk-offset", base, as_int_term(seek[2]) == w.off(kappa), function=fn, replay=replay_getitem)
    ses.prove(f"{oid}/read-at-seek-position", base, pos == as_int_term(seek[2]), function=fn, replay=replay_getitem)
    ses.prove(f"{oid}/read-chunk-size", base, req == w.size(kappa), function=fn, replay=replay_getitem)
    ses.prove(f"{oid}/read-inside-file", base, z3.And(pos >= 0, pos + req <= w.fsize, got == req), function=fn, replay=replay_getitem)
    # confined to the group's bytes: the span is [start(first row w1) , stop(last row w2)] of chunk kappa
    ses.prove(f"{oid}/read-confined-to-chunk", base + w.chunk_facts(kappa),
              z3.And(pos == w.start(w.w1(kappa)), pos + req == w.stop(w.w2(kappa)),
                     FDIV(w.w1(kappa), w.c) == kappa, FDIV(w.w2(kappa), w.c) == kappa), function=fn, replay=replay_getitem)
    # one request per touched chunk: chunk numbers strictly increase with the group index
    h = fresh_int("h")
    ses.prove(f"{oid}/one-read-per-chunk", base + [h > g, h < G], K(bnd(h)) > kappa, function=fn, replay=replay_getitem)
    # no read for groups outside the selection: every group is the chunk of a selected row
    with_ctx = list(base)
    path.index_ctx.append((g, 0, G))
    try:
        key_term = gm[0]["key_at"](mk_int(bnd(g)))
    finally:
        path.index_ctx.pop()
    ses.prove(f"{oid}/only-touched-chunks", path_hyps(path) + [g >= 0, g < G],
              z3.And(bnd(g) >= 0, bnd(g) < L, kappa == key_term), function=fn, replay=replay_getitem)


# ---------------------------------------------------------------------------------------------------
# trusted base, replay search and bounded stand-ins (real code, small scope)
# ---------------------------------------------------------------------------------------------------
def trusted(ses):
    ses.trust(
        "pyvc engine (AST interpreter, VC generation) and z3 / cvc5",
        "CPython semantics of native operations; slice.indices; floor-division lemmas (pyvc.ops.floordiv_axioms)",
        "toolz get/groupby/partition_all/cons and builtins enumerate/zip/min/max/range as modelled in pyvc.models "
        "(groupby on a key-monotone sequence = contiguous runs); validated differentially (bounded)",
        "numpy: frombuffer with explicit big-endian dtype, np.stack, basic indexing shape rules (pyvc.absobj)",
        "fsspec: open().seek/read return the file's bytes (pyvc.absobj.SymFile)",
        "xarray explicit_indexing_adapter with IndexingSupport.BASIC passes ints in range and positive-step slices "
        "(validated bounded against a reference NumPy backend)",
        "induction schema for prefix sums of run lengths (FlatSeq/B = bnd)",
    )
    ses.assume(
        "machine arithmetic: Python ints are mathematical integers (exact)",
        "byte_ranges of a well-formed image: 0 <= start <= stop <= |file| and equal row widths W*S",
        "generators are evaluated eagerly (A-eager)",
    )


_NATIVE_CACHE = {}


def _native_getitem(budget):
    from native import arraycheck as ac

    key = ("getitem", budget)
    if key not in _NATIVE_CACHE:
        _NATIVE_CACHE[key] = ac.check_getitem(budget=budget)
    return _NATIVE_CACHE[key]


def replay_getitem(model):
    """replay search on the real code for a failed getitem obligation: small-scope differential run"""
    ok, n, info = _native_getitem(10**6)
    if ok:
        return {"confirmed": False, "input": f"{n} small cases tried, none fails"}
    return {"confirmed": True, "input": {k: v for k, v in info.items() if k not in ("observed", "expected")},
            "observed": info["observed"], "expected": info["expected"]}


def bounded_getitem(ses, prop, budget=None):
    budget = budget or 10**6
    ok, n, info = _native_getitem(budget)
    ses.bounded_check(
        f"{prop}/bounded/getitem-vs-numpy", ok, bound=f"images up to 5x3 plus 3x24 and 2x9 (narrow / single-column windows), rpc 1..n+1, every int/slice key with |bounds| <= n+1, steps 1..3; {n} cases",
        function="ceos_alos2.array.Array.__getitem__", evaluations=n,
        replay=(lambda m: {"confirmed": True, "input": {k: v for k, v in info.items() if k not in ("observed", "expected")},
                           "observed": info["observed"], "expected": info["expected"]}) if info else None)


def bounded_xarray_indexing(ses, prop):
    from native import arraycheck as ac

    budget = 1500 if ses.tier == "quick" else 20000
    ok, n, info, known = ac.check_xarray_indexing(budget=budget)
    ses.bounded_check(
        f"{prop}/bounded/xarray-indexing-vs-reference-backend", ok,
        bound=f"isel with ints, slices (all steps), int/bool arrays, vectorised keys on images up to 5x3; {n} selections",
        function="ceos_alos2.xarray.LazilyIndexedWrapper.__getitem__", evaluations=n,
        replay=(lambda m: {"confirmed": True, "input": {k: v for k, v in info.items() if k not in ("observed", "expected")},
                           "observed": info["observed"], "expected": info["expected"]}) if info else None)
    kinds = {}
    for k in known:
        kinds.setdefault(k[0], []).append(k)
    for kind, items in sorted(kinds.items()):
        first = items[0]
        ses.bounded_check(
            f"{prop}/dependency/{kind}", False, bound=f"{len(items)} selections of this class", evaluations=len(items),
            function="xarray.core.indexing (dependency)",
            replay=lambda m, kind=kind, first=first: {"confirmed": True, "witness_class": kind, "input": first[1],
                                                      "observed": first[2], "expected": first[3]})


# ---------------------------------------------------------------------------------------------------
# Array.__post_init__ establishes the class invariant Inv(Array) that case_getitem assumes
# ---------------------------------------------------------------------------------------------------
def case_post_init(ses, case):
    (tc,) = case
    fn = ses.under_contract(A.Array.__post_init__, "ceos_alos2.array.Array.__post_init__")
    for f in (A.normalize_chunksize, A.compute_chunk_offsets, A.compute_chunk_ranges, A.to_offset_size):
        ses.under_contract(f)
    w = World(tc, with_inv=False)
    rpc = z3.Int("rpc_given")
    hyps = w.hyps() + [rpc >= 1]
    P = ses.prop

    def run(path, extra):
        it = Interp(path)
        arr = object.__new__(A.Array)
        fields = dict(fs=SymFS(), url="img", byte_ranges=w.byte_ranges(path), shape=(Sym(w.n, int), Sym(w.W, int)),
                      dtype=w.dtype, type_code=tc, records_per_chunk=Sym(rpc, int))
        for k_, v in fields.items():
            object.__setattr__(arr, k_, v)
        it.call(it.getattr(arr, "__post_init__"), [], {})
        extra["it"] = it
        return arr

    ok = explore_checked(ses, f"{P}/post_init/{tc}", run, hyps, function=fn, timeout_ms=1500, limit_group="post_init")
    for pi, r in enumerate(ok):
        arr, it, path = r.value, r.extra["it"], r.path
        base = path_hyps(path)
        pid = f"{P}/post_init/{tc}/path{pi}"
        c = as_int_term(arr.records_per_chunk)
        ses.prove(f"{pid}/records_per_chunk=min(rpc,n)", base, c == z3.If(rpc <= w.n, rpc, w.n), function=fn)
        co = arr.chunk_offsets
        ok_map = hasattr(co, "sym_getitem")
        ses.decided(f"{pid}/chunk_offsets-is-a-mapping-by-chunk-number", ok_map, function=fn, detail={"got": repr(co)[:100]})
        if not ok_map:
            continue
        r_ = z3.Int("row")
        k = FDIV(r_, c)
        rng = [r_ >= 0, r_ < w.n]
        path.assume(z3.And(*rng))
        path.assume(z3.And(c * k <= r_, r_ < c * k + c))
        try:
            entry = co.sym_getitem(it, mk_int(k))
        except KeyError as e:
            ses.not_proved(f"{pid}/every-row's-chunk-has-an-entry", f"KeyError: {e}", function=fn)
            continue
        off, size = as_int_term(entry["offset"]), as_int_term(entry["size"])
        facts = []
        for info in getattr(path, "minmax", {}).values():
            # instantiate the min / max contracts at the row's position inside its chunk
            facts.append(info["instance"](r_ - c * k))
        hyp = path_hyps(path) + facts + [w.row_facts(r_)]
        ses.prove(f"{pid}/chunk-span-covers-every-row-of-the-chunk", hyp,
                  z3.And(off <= w.start(r_), w.stop(r_) <= off + size), function=fn, sliced=False)
        ses.prove(f"{pid}/chunk-span-non-negative-and-inside-file", hyp, z3.And(off >= 0, size >= 0, off + size <= w.fsize),
                  function=fn)
        # tightness: the span starts at the start of one of the chunk's rows and ends at the stop of one of them
        wit = [(info["witness"], info["is_min"]) for info in getattr(path, "minmax", {}).values()]
        ses.decided(f"{pid}/span-bounds-are-attained(min,max-witnesses)", {m for _, m in wit} == {True, False},
                    function=fn, detail={"witnesses": len(wit)})


def resolve_limits(ses):
    """bounded stand-ins for the array-chain obligations the verifier could not generate (engine limits)"""
    from native import arraycheck as ac

    budget = 10**6  # the whole small scope: about 130 000 evaluations, 5 s
    for group in ("getitem", "load"):
        ses.resolve_engine_limits(group, lambda: _native_getitem(budget),
                                  bound_text="images up to 5x3 plus 3x24 and 2x9 (narrow and single-column windows of wide lines), records_per_chunk 1..n+1, every int / slice key with |bounds| <= n+1, steps 1..3: "
                                             "values vs NumPy and the open/seek/read events vs the chunk spans, on fresh and on reused Array objects")
    ses.resolve_engine_limits("post_init", lambda: ac.check_post_init(seed=ses.seed),
                              bound_text="random byte ranges for 1..12 rows, records_per_chunk None / 1..n+2: class invariant of Array")
