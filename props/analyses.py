"""Per-path analyses applied to the symbolic result of a record unit (see props/records.py).

an_table    result == specification table (C03, C04, C16)
an_framing  consumed bytes == declared bytes; framing exceptions only on inadmissible counts/lengths (C05)
an_deps     no output term / branch condition depends on a spare, blank or reserved byte (C20)
an_blank    blank field => NaN / -1 / '' (C20)
an_sorts    every output leaf has an allowed sort (C12)
"""
from __future__ import annotations

import re

import z3

from pyvc import ops, tables
from pyvc.core import Sym, SymSeq, exc_text, is_concrete_int
from pyvc.harness import path_hyps
from pyvc.ops import as_int_term

_CHECKERS = {}


def _fn(unit):
    from props.records import _unit

    return _unit(unit)[1]


def an_table(sub, payload, unit, tag, res):
    key = unit
    tc = _CHECKERS.get(key)
    if tc is None:
        tc = _CHECKERS[key] = tables.TableChecker(sub, unit, f"{payload['prop']}/{unit}", function=_fn(unit))
    tc.ses = sub
    tc.prefix = f"{payload['prop']}/{unit}"
    only = payload.get("only_locs")
    dump = res.extra.get("dump") or {}
    tc.check_path(tag, res, dump, path_hyps(res.path), only=re.compile(only) if only else None)


# ---------------------------------------------------------------------------------------------------
# C05 framing
# ---------------------------------------------------------------------------------------------------
CEOS_LENGTHS = {
    "leader": {"file_descriptor": 720, "dataset_summary": 4096, "platform_position": 4680, "radiometric_data": 9860,
               "data_quality_summary": 1620, "facility_related_data_5": 5000},
    "volume": {"volume_descriptor": 360, "text_record": 360},
    "trailer": {},
}
VARIABLE = {"attitude", "facility_related_data_1", "facility_related_data_2", "facility_related_data_3",
            "facility_related_data_4"}


def _decoded(it, *path):
    return getattr(it, "decoded", {}).get(tuple(path))


def _leaf_value(it, *path):
    for lf in getattr(it, "all_leaves", []):
        if tuple(lf.path) == tuple(path):
            return lf.value
    return None


def admissible(it, unit):
    """the property's admissibility predicate over the counts / lengths that have been read so far on this path:
    attitude 1 <= N and 16+120N <= L; channels 1..16; facility 1-4 L >= 66; map projection count 0/1; file-pointer
    count >= 0; low-resolution image count 0..7; declared lengths of the fixed records = their CEOS constants"""
    conds = []
    T = as_int_term

    def have(*p):
        v = _decoded(it, *p)
        return v if v is not None else _leaf_value(it, *p)

    if unit == "leader":
        n = have("attitude", "number_of_points")
        L = have("attitude", "preamble", "record_length")
        if n is not None:
            conds.append(T(n) >= 1)
            if L is not None:
                conds.append(16 + 120 * T(n) <= T(L))
        c = have("data_quality_summary", "number_of_channels")
        if c is not None:
            conds += [T(c) >= 1, T(c) <= 16]
        for i in "1234":
            Lf = have(f"facility_related_data_{i}", "preamble", "record_length")
            if Lf is not None:
                conds.append(T(Lf) >= 66)
        m = have("file_descriptor", "map_projection", "number_of_records")
        if m is not None:
            conds.append(z3.Or(T(m) == 0, T(m) == 1))
    elif unit == "volume":
        k = have("volume_descriptor", "number_of_file_pointer_records")
        if k is not None:
            conds.append(T(k) >= 0)
    elif unit == "trailer":
        k = have("number_of_low_resolution_images")
        if k is not None:
            conds += [T(k) >= 0, T(k) <= 7]
    return conds


def an_framing(sub, payload, unit, tag, res):
    prop = payload["prop"]
    it = res.extra["it"]
    fn = _fn(unit)
    path = res.path
    base = path_hyps(path)
    adm = admissible(it, unit)
    pid = f"{prop}/{unit}/{tag}"
    if res.outcome == "raise":
        name = type(res.exc).__name__
        import construct as _C0

        if isinstance(res.exc, _C0.ConstructError):  # PaddingError, RangeError, StreamError, ExplicitError, ...
            if name == "StreamError" and payload.get("truncation"):
                return
            # framing failure: only on inadmissible counts / lengths
            sub.prove(f"{pid}/raises-{name}-only-when-inadmissible", base + adm, z3.BoolVal(False), function=fn, kind="safety",
                      detail={"exception": exc_text(res.exc, 200), "admissible": [str(a)[:80] for a in adm]})
        return
    # return path: every record span equals its declared length, and starts where the previous one ends
    spans = [s for s in getattr(it, "spans", []) if len(s[0]) <= 2]
    top = [s for s in spans if len(s[0]) == 1 or (len(s[0]) == 2 and isinstance(s[0][1], (int, str)) and s[0][1] == "[k]")]
    seen = 0
    import construct as _C

    for pth, start, end, con in top:
        if isinstance(con, _C.Array):
            continue  # arrays: element-size obligation below + continuity of the record starts
        name = pth[0]
        consumed = as_int_term(end) - as_int_term(start)
        declared = None
        if name in VARIABLE:
            L = _leaf_value(it, *pth, "preamble", "record_length")
            if L is not None:
                declared = as_int_term(L)
        elif name in CEOS_LENGTHS.get(unit, {}):
            declared = z3.IntVal(CEOS_LENGTHS[unit][name])
        if declared is None:
            continue
        seen += 1
        where = ".".join(map(str, pth))
        sub.prove(f"{pid}/{where}/consumed-equals-declared", base + adm, consumed == declared, function=fn, kind="post",
                  detail={"consumed": str(z3.simplify(consumed))[:200], "declared": str(declared)[:120]})
    ELEMENT_SIZE = {("map_projection",): 1620, ("file_descriptors",): 360, ("attitude", "data_points"): 120,
                    ("low_resolution_image_sizes",): 26}
    for lf in getattr(it, "all_leaves", []):
        if lf.codec.startswith("array[") and tuple(lf.path) in ELEMENT_SIZE:
            got = int(lf.codec[6:-1])
            seen += 1
            sub.decided(f"{pid}/{'.'.join(map(str, lf.path))}/element-size", got == ELEMENT_SIZE[tuple(lf.path)], function=fn,
                        detail={"element_size": got, "declared": ELEMENT_SIZE[tuple(lf.path)]})
    if unit == "trailer":
        # the descriptor is parsed from the 720 bytes read for it: it must not need more
        whole = [s for s in getattr(it, "spans", []) if len(s[0]) == 0]
        for pth, start, end, con in whole[:1]:
            seen += 1
            sub.prove(f"{pid}/descriptor/fits-in-720-bytes", base + adm, as_int_term(end) - as_int_term(start) <= 720,
                      function=fn, kind="post")
    sub.decided(f"{pid}/records-with-declared-length", seen > 0, function=fn,
                detail={"records": [".".join(map(str, s[0])) for s in top]})
    # sequential framing: each top-level record starts where the previous one ended
    prev_end = None
    for pth, start, end, con in [s for s in spans if len(s[0]) == 1 and unit != "trailer"]:
        if prev_end is not None:
            sub.prove(f"{pid}/{pth[0]}/starts-after-previous", base + adm, as_int_term(start) == as_int_term(prev_end),
                      function=fn, kind="post")
        prev_end = end


# ---------------------------------------------------------------------------------------------------
# frame: no write to state that outlives the call (module-level declarations, tables, defaults)
# ---------------------------------------------------------------------------------------------------
def an_frame(sub, payload, unit, tag, res):
    from pyvc import frame

    it = res.extra["it"]
    writes = frame.shared_state_writes(it, payload.get("_shared"))
    sub.decided(f"{payload['prop']}/{unit}/{tag}/no-write-to-shared-state", not writes, function=_fn(unit), kind="frame",
                backend="effect-log", detail={"writes": writes[:5], "effects_logged": len(it.effects)})
