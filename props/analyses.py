"""Per-path analyses applied to the symbolic result of a record unit (see props/records.py).

an_table    result == specification table (C03, C04, C16)
an_framing  consumed bytes == declared bytes; framing exceptions only on inadmissible counts/lengths (C05)
an_deps     no output term / branch condition depends on a spare, blank or reserved byte (C20)
an_blank    blank field => NaN / -1 / '' (C20)
an_sorts    every output leaf has an allowed sort (C12)
"""
from __future__ import annotations

import re

import z3

from pyvc import ops, tables
from pyvc.core import Sym, SymSeq, canon_sexpr, exc_text, is_concrete_int
from pyvc.harness import path_hyps
from pyvc.ops import as_int_term

_CHECKERS = {}


def _fn(unit):
    from props.records import _unit

    return _unit(unit)[1]


_REPLAYS = {}


def concrete_replay(tname, trials=60):
    """replay search for a failed record-contract obligation: random well-formed files, real reader vs the contract evaluated
    concretely (native/unitreplay.py); cached per unit and process"""
    if tname not in _REPLAYS:
        from native import unitreplay

        try:
            ok, n, info = unitreplay.check_unit(tname, trials=trials, seed=12345)
        except Exception as e:  # noqa: BLE001  (the replay harness must never mask the verifier's verdict)
            ok, n, info = True, 0, {"replay_error": f"{type(e).__name__}: {e}"[:200]}
        if ok:
            _REPLAYS[tname] = {"confirmed": False, "input": f"{n} random well-formed files tried, the real reader agrees with the contract on all"}
        else:
            _REPLAYS[tname] = {"confirmed": True, "input": info.get("input"), "observed": info.get("observed"),
                               "expected": info.get("expected"), "witness_class": "concrete file"}
    return _REPLAYS[tname]


def bounded_tables(ses, units, trials):
    """assumption validation (bounded): the record contracts evaluated concretely vs the real readers under CPython"""
    from native import unitreplay

    for u in units:
        ok, n, info = unitreplay.check_unit(u, trials=trials, seed=ses.seed)
        ses.bounded_check(f"{ses.prop}/bounded/contract-vs-real-reader/{u}", ok,
                          bound=f"{n} random well-formed files (random counts, lengths, field contents incl. blanks)",
                          function=_fn(u), evaluations=n,
                          replay=(lambda m, info=info: {"confirmed": True, "input": info.get("input"), "observed": info.get("observed"),
                                                        "expected": info.get("expected")}) if info else None)


def an_table(sub, payload, unit, tag, res):
    from pyvc.dump import definitional_equalities

    tname = (payload.get("table_of") or {}).get(unit, unit)  # e.g. the multi-chunk unit against the one-chunk contract
    key = (unit, tname)
    tc = _CHECKERS.get(key)
    if tc is None:
        tc = _CHECKERS[key] = tables.TableChecker(sub, tname, f"{payload['prop']}/{unit}", function=_fn(unit),
                                                  replay=lambda model, tname=tname: concrete_replay(tname))
    tc.ses = sub
    tc.prefix = f"{payload['prop']}/{unit}"
    only = payload.get("only_locs")
    dump = res.extra.get("dump") or {}
    tc.check_path(tag, res, dump, path_hyps(res.path) + definitional_equalities(res.path),
                  only=re.compile(only) if only else None, sliced=payload.get("sliced", False))


# ---------------------------------------------------------------------------------------------------
# C05 framing
# ---------------------------------------------------------------------------------------------------
CEOS_LENGTHS = {
    "leader": {"file_descriptor": 720, "dataset_summary": 4096, "platform_position": 4680, "radiometric_data": 9860,
               "data_quality_summary": 1620, "facility_related_data_5": 5000},
    "volume": {"volume_descriptor": 360, "text_record": 360},
    "trailer": {},
}
VARIABLE = {"attitude", "facility_related_data_1", "facility_related_data_2", "facility_related_data_3",
            "facility_related_data_4"}


def _decoded(it, *path):
    return getattr(it, "decoded", {}).get(tuple(path))


def _leaf_value(it, *path):
    for lf in getattr(it, "all_leaves", []):
        if tuple(lf.path) == tuple(path):
            return lf.value
    return None


def admissible(it, unit):
    """the property's admissibility predicate over the counts / lengths that have been read so far on this path:
    attitude 1 <= N and 16+120N <= L; channels 1..16; facility 1-4 L >= 66; map projection count 0/1; file-pointer
    count >= 0; low-resolution image count 0..7; declared lengths of the fixed records = their CEOS constants"""
    conds = []
    T = as_int_term

    def have(*p):
        v = _decoded(it, *p)
        return v if v is not None else _leaf_value(it, *p)

    if unit == "leader":
        n = have("attitude", "number_of_points")
        L = have("attitude", "preamble", "record_length")
        if n is not None:
            conds.append(T(n) >= 1)
            if L is not None:
                conds.append(16 + 120 * T(n) <= T(L))
        c = have("data_quality_summary", "number_of_channels")
        if c is not None:
            conds += [T(c) >= 1, T(c) <= 16]
        for i in "1234":
            Lf = have(f"facility_related_data_{i}", "preamble", "record_length")
            if Lf is not None:
                conds.append(T(Lf) >= 66)
        m = have("file_descriptor", "map_projection", "number_of_records")
        if m is not None:
            conds.append(z3.Or(T(m) == 0, T(m) == 1))
    elif unit == "volume":
        k = have("volume_descriptor", "number_of_file_pointer_records")
        if k is not None:
            conds.append(T(k) >= 0)
    elif unit == "trailer":
        k = have("number_of_low_resolution_images")
        if k is not None:
            conds += [T(k) >= 0, T(k) <= 7]
    return conds


def an_framing(sub, payload, unit, tag, res):
    prop = payload["prop"]
    it = res.extra["it"]
    fn = _fn(unit)
    path = res.path
    base = path_hyps(path)
    adm = admissible(it, unit)
    pid = f"{prop}/{unit}/{tag}"
    if res.outcome == "raise":
        name = type(res.exc).__name__
        import construct as _C0

        if isinstance(res.exc, _C0.ConstructError):  # PaddingError, RangeError, StreamError, ExplicitError, ...
            if name == "StreamError" and payload.get("truncation"):
                return
            # framing failure: only on inadmissible counts / lengths
            sub.prove(f"{pid}/raises-{name}-only-when-inadmissible", base + adm, z3.BoolVal(False), function=fn, kind="safety",
                      detail={"exception": exc_text(res.exc, 200), "admissible": [str(a)[:80] for a in adm]})
        return
    # return path: every record span equals its declared length, and starts where the previous one ends
    spans = [s for s in getattr(it, "spans", []) if len(s[0]) <= 2]
    top = [s for s in spans if len(s[0]) == 1 or (len(s[0]) == 2 and isinstance(s[0][1], (int, str)) and s[0][1] == "[k]")]
    seen = 0
    import construct as _C

    for pth, start, end, con in top:
        if isinstance(con, _C.Array):
            continue  # arrays: element-size obligation below + continuity of the record starts
        name = pth[0]
        consumed = as_int_term(end) - as_int_term(start)
        declared = None
        if name in VARIABLE:
            L = _leaf_value(it, *pth, "preamble", "record_length")
            if L is not None:
                declared = as_int_term(L)
        elif name in CEOS_LENGTHS.get(unit, {}):
            declared = z3.IntVal(CEOS_LENGTHS[unit][name])
        if declared is None:
            continue
        seen += 1
        where = ".".join(map(str, pth))
        sub.prove(f"{pid}/{where}/consumed-equals-declared", base + adm, consumed == declared, function=fn, kind="post",
                  detail={"consumed": str(z3.simplify(consumed))[:200], "declared": str(declared)[:120]})
    ELEMENT_SIZE = {("map_projection",): 1620, ("file_descriptors",): 360, ("attitude", "data_points"): 120,
                    ("low_resolution_image_sizes",): 26}
    for lf in getattr(it, "all_leaves", []):
        if lf.codec.startswith("array[") and tuple(lf.path) in ELEMENT_SIZE:
            got = int(lf.codec[6:-1])
            seen += 1
            sub.decided(f"{pid}/{'.'.join(map(str, lf.path))}/element-size", got == ELEMENT_SIZE[tuple(lf.path)], function=fn,
                        detail={"element_size": got, "declared": ELEMENT_SIZE[tuple(lf.path)]})
    if unit == "trailer":
        # the descriptor is parsed from the 720 bytes read for it: it must not need more
        whole = [s for s in getattr(it, "spans", []) if len(s[0]) == 0]
        for pth, start, end, con in whole[:1]:
            seen += 1
            sub.prove(f"{pid}/descriptor/fits-in-720-bytes", base + adm, as_int_term(end) - as_int_term(start) <= 720,
                      function=fn, kind="post")
    sub.decided(f"{pid}/records-with-declared-length", seen > 0, function=fn,
                detail={"records": [".".join(map(str, s[0])) for s in top]})
    # sequential framing: each top-level record starts where the previous one ended
    prev_end = None
    for pth, start, end, con in [s for s in spans if len(s[0]) == 1 and unit != "trailer"]:
        if prev_end is not None:
            sub.prove(f"{pid}/{pth[0]}/starts-after-previous", base + adm, as_int_term(start) == as_int_term(prev_end),
                      function=fn, kind="post")
        prev_end = end


# ---------------------------------------------------------------------------------------------------
# frame: no write to state that outlives the call (module-level declarations, tables, defaults)
# ---------------------------------------------------------------------------------------------------
def an_frame(sub, payload, unit, tag, res):
    from pyvc import frame

    it = res.extra["it"]
    writes = frame.shared_state_writes(it, payload.get("_shared"))
    sub.decided(f"{payload['prop']}/{unit}/{tag}/no-write-to-shared-state", not writes, function=_fn(unit), kind="frame",
                backend="effect-log", detail={"writes": writes[:5], "effects_logged": len(it.effects)})


# ---------------------------------------------------------------------------------------------------
# C20: spare / blank / reserved areas, dependency sets, blank => missing, preconditions not strengthened
# ---------------------------------------------------------------------------------------------------
SPARE_NAMES = ("spare", "blanks", "blank", "reserved", "system_reserve", "local_use_segment")


def is_spare_name(name):
    if not isinstance(name, str):
        return False
    return any(name == s or (name.startswith(s) and name[len(s):].strip("_0123456789") == "") for s in SPARE_NAMES)


def split_offset(t):
    """(constant part, canonical text of the symbolic rest) of an integer offset term"""
    t = z3.simplify(t)
    if z3.is_int_value(t):
        return t.as_long(), ""
    if z3.is_app(t) and t.decl().kind() == z3.Z3_OP_ADD:
        c = 0
        rest = []
        for ch in t.children():
            if z3.is_int_value(ch):
                c += ch.as_long()
            else:
                rest.append(ch)
        r = z3.simplify(z3.Sum(rest)) if len(rest) > 1 else rest[0]
        return c, r.sexpr()
    return 0, t.sexpr()


def spare_areas(it):
    """[(offset s-expr, width s-expr, name)] of the leaves that the declarations mark as spare / blank / reserved"""
    out = []
    for lf in getattr(it, "all_leaves", []):
        name = next((p for p in reversed(lf.path) if isinstance(p, str) and p != "[k]"), None)
        if is_spare_name(name):
            out.append([canon_sexpr(as_int_term(lf.off)), canon_sexpr(as_int_term(lf.width)),
                        ".".join(map(str, lf.path))])
    return out


INPUT_FUNCS = {"ascii_text": (1, 2), "be_uint": (1, 2), "raw_bytes": (1, 2), "byte_at": (1, None)}


def input_atoms(terms, descend=True):
    """applications of the byte-reading functions in the given terms: {id: (name, offset term, width term)};
    descend=False: not those that only occur inside the offset / width argument of another one"""
    out = {}
    seen = set()
    stack = list(terms)
    while stack:
        x = stack.pop()
        i = x.get_id()
        if i in seen:
            continue
        seen.add(i)
        if z3.is_app(x):
            nm = x.decl().name()
            if nm in INPUT_FUNCS and x.decl().kind() == z3.Z3_OP_UNINTERPRETED:
                oi, wi = INPUT_FUNCS[nm]
                out[i] = (nm, x.arg(oi), x.arg(wi) if wi is not None else z3.IntVal(1), x)
                if not descend:
                    continue
            stack.extend(x.children())
        elif z3.is_quantifier(x):
            stack.append(x.body())
    return out


def _case_for(tc, res):
    P_list = [canon_sexpr(c) for c in tables.fork_conditions(res.path)]
    P_when = set(P_list)
    for T in tc.table["cases"]:
        if set(T["when"]) == P_when:
            return T
    # no syntactically identical case (operand order of commutative terms may differ): first overlapping case with
    # the same outcome
    want = "return" if res.outcome == "return" else "raise"
    hyps = path_hyps(res.path)
    for T in tc.table["cases"]:
        if T["outcome"] != want:
            continue
        kind, _ = tc.overlap(P_list, res.path, T, hyps)
        if kind != "disjoint":
            return T
    return None


def _checker(sub, unit, prop):
    tc = _CHECKERS.get(unit)
    if tc is None:
        tc = _CHECKERS[unit] = tables.TableChecker(sub, unit, f"{prop}/{unit}", function=_fn(unit))
    tc.ses = sub
    return tc


def an_deps(sub, payload, unit, tag, res):
    """non-interference: no output term and no branch condition of a returning path reads a byte of an area that the
    specification marks as spare / blank / reserved"""
    if res.outcome != "return":
        return
    prop = payload["prop"]
    fn = _fn(unit)
    tc = _checker(sub, unit, prop)
    T = _case_for(tc, res)
    pid = f"{prop}/{unit}/{tag}"
    if T is None or "spares" not in T:
        sub.decided(f"{pid}/spare-areas-known", False, function=fn, detail={"problem": "no specification case for this path"})
        return
    it = res.extra["it"]
    atoms = {}
    actx = {}
    for t, ctx in list(getattr(it, "dump_term_ctx", [])) + [(c, ()) for c in tables.fork_conditions(res.path)]:
        found = input_atoms([t])
        for i, a in found.items():
            if i not in atoms:
                atoms[i] = a
                actx[i] = ctx
    decls = tc.decls(res.path.pc)
    spares = []
    for off_s, w_s, name in T["spares"]:
        o = tables.parse_term(off_s, decls)
        w = tables.parse_term(w_s, decls)
        spares.append((split_offset(o), o, w, name))
    groups = {}
    gctx = {}
    for i, (nm, off, w, app) in atoms.items():
        c, rest = split_offset(off)
        ctx = actx[i]
        key = (rest, tuple((k.get_id(), n.get_id()) for k, n in ctx))
        groups.setdefault(key, []).append((c, off, w, nm))
        gctx[key] = ctx
    base = path_hyps(res.path)
    bad = []
    undecided_pairs = []
    n_pairs = 0
    skipped = 0
    for (sc, srest), so, sw, sname in spares:
        swv = z3.simplify(sw)
        for gkey, items in groups.items():
            rest = gkey[0]
            if rest == srest and z3.is_int_value(swv):
                lo_s, hi_s = sc, sc + swv.as_long()
                for c, off, w, nm in items:
                    n_pairs += 1
                    wv = z3.simplify(w)
                    if not z3.is_int_value(wv):
                        undecided_pairs.append((off, w, so, sw, sname, gctx[gkey]))
                        continue
                    if c < hi_s and lo_s < c + wv.as_long():
                        bad.append({"reads": f"{nm}@{c}+{wv.as_long()} ({rest[:60]})", "spare": sname})
            elif rest == srest:
                for c, off, w, nm in items:  # same base, symbolic spare width (length-dependent padding)
                    n_pairs += 1
                    undecided_pairs.append((off, w, so, sw, sname, gctx[gkey]))
            elif not gctx[gkey]:
                # fixed-position reads against an area with another symbolic base: different records, whose spans are
                # disjoint by record framing (C05) — not re-proved here
                skipped += 1
            else:
                # array elements (symbolic index) against a spare area: one obligation per read
                for c, off, w, nm in items:
                    n_pairs += 1
                    undecided_pairs.append((off, w, so, sw, sname, gctx[gkey]))
    sub.decided(f"{pid}/no-read-of-spare-areas", not bad, function=fn, kind="frame", backend="interval-arithmetic",
                detail={"overlaps": bad[:5], "pairs_decided_concretely": n_pairs - len(undecided_pairs), "spare_areas": len(spares),
                        "cross_record_pairs_left_to_framing": skipped,
                        "input_atoms": len(atoms)})
    k = 0
    for lo, wd, so, sw, sname, ctx in undecided_pairs:
        k += 1
        goal = z3.Or(lo + wd <= so, so + sw <= lo, sw <= 0, wd <= 0)
        rng = [c_ for kk, nn in ctx for c_ in (kk >= 0, kk < nn)]
        sub.prove(f"{pid}/reads-disjoint-from/{sname}", base + rng, goal, function=fn, kind="frame", sliced=True,
                  detail={"reads": str(z3.simplify(lo))[:200], "width": str(z3.simplify(wd))[:100], "spare": str(z3.simplify(so))[:200]})
    sub.extra_coverage["spare_pairs"] = n_pairs


def an_wf(sub, payload, unit, tag, res):
    """the code may not demand more of the input than the specification does: every input excluded on this path
    (a field decoder raised) is excluded by the specification's well-formedness assumptions too"""
    prop = payload["prop"]
    fn = _fn(unit)
    tc = _checker(sub, unit, prop)
    T = _case_for(tc, res)
    pid = f"{prop}/{unit}/{tag}"
    wf = [(k, m, c) for k, m, c in getattr(res.path, "wf_assumptions", [])
          if k != "file-long-enough" and "!" not in canon_sexpr(c)]  # '!': generic element of a trial parse
    if T is None:
        return
    spec = {a for a in T.get("assumes", []) if "!" not in a}
    extra = [(k, m, c) for k, m, c in wf if canon_sexpr(c) not in spec]
    sub.decided(f"{pid}/preconditions-as-specified", True, function=fn, kind="safety", backend="term-identity",
                detail={"assumptions": len(wf), "identical_to_specification": len(wf) - len(extra)})
    if extra:
        decls = tc.decls(res.path.pc)
        hyp = [tables.parse_term(a, decls) for a in sorted(spec)]
        for k, m, c in extra[:40]:
            sub.prove(f"{pid}/precondition-not-strengthened/{k}", hyp, c, function=fn, kind="safety",
                      detail={"field": k, "decoder_raises": m, "excluded_inputs": str(z3.simplify(z3.Not(c)))[:300]})


def _pure_decode(t):
    """the term selects / converts one field's text without arithmetic on it (ite, comparisons, py_int, py_strip)"""
    ok_kinds = {z3.Z3_OP_ITE, z3.Z3_OP_EQ, z3.Z3_OP_NOT, z3.Z3_OP_AND, z3.Z3_OP_OR, z3.Z3_OP_UNINTERPRETED, z3.Z3_OP_ANUM,
                z3.Z3_OP_UMINUS, z3.Z3_OP_TRUE, z3.Z3_OP_FALSE, z3.Z3_OP_DISTINCT}
    stack = [t]
    seen = set()
    while stack:
        x = stack.pop()
        if x.get_id() in seen:
            continue
        seen.add(x.get_id())
        if not z3.is_app(x):
            return False
        k = x.decl().kind()
        if k not in ok_kinds:
            return False
        if k == z3.Z3_OP_UNINTERPRETED and x.decl().name() in INPUT_FUNCS:
            continue
        stack.extend(x.children())
    return True


def _float_like(t):
    return t.sort().kind() == z3.Z3_FLOATING_POINT_SORT


def an_blank(sub, payload, unit, tag, res):
    """blank field => NaN (float) / -1 (integer): for every output leaf that decodes exactly one text field"""
    if res.outcome != "return":
        return
    prop = payload["prop"]
    fn = _fn(unit)
    pid = f"{prop}/{unit}/{tag}"
    base = [h for h in path_hyps(res.path) if not z3.is_quantifier(h)]
    n_f = n_i = 0
    done = set()
    for t in res.extra.get("terms", []):
        if t.get_id() in done:
            continue
        done.add(t.get_id())
        atoms = input_atoms([t], descend=False)
        texts = [a for a in atoms.values() if a[0] == "ascii_text"]
        if len(atoms) != 1 or len(texts) != 1:
            continue
        f = texts[0][3]
        blank = ops.IS_EMPTY(ops.STRIP(f))
        s = t.sexpr()
        if _float_like(t):
            n_f += 1
            sub.prove(f"{pid}/blank-is-NaN/{texts[0][1]}", [blank], z3.fpIsNaN(t), function=fn, kind="post",
                      detail={"term": s[:200]})
        elif t.sort() == z3.IntSort() and "py_int" in s and _pure_decode(t):
            n_i += 1
            sub.prove(f"{pid}/blank-is-minus-one/{texts[0][1]}", [blank], t == -1, function=fn, kind="post",
                      detail={"term": s[:200]})
    sub.extra_coverage["blank_float_leaves"] = n_f
    sub.extra_coverage["blank_int_leaves"] = n_i


# ---------------------------------------------------------------------------------------------------
# C17: every time decoder ≡ Instant(year, day_of_year, fraction) with day 1 = 1 January
# ---------------------------------------------------------------------------------------------------
NS_DAY = 86400 * 10**9
YEAR_OF = z3.Function("year_of_us", z3.IntSort(), z3.IntSort())  # calendar year of a datetime given in µs


def instant_ns(year, doy, frac_ns):
    """the specification: 1 January of `year` + (doy - 1) days + fraction, in ns since the epoch"""
    return (ops.JAN1(year) + doy - 1) * NS_DAY + frac_ns


def _dump_elem_term(tc, dump, loc, pc):
    e = dump.get(loc)
    if not e:
        return None
    el = e.get("elem", e)
    if "t" not in el:
        return None
    return tables.parse_term(el["t"], tc.decls(pc))


def an_times(sub, payload, unit, tag, res):
    if res.outcome != "return":
        return
    prop = payload["prop"]
    fn = _fn(unit)
    dump = res.extra["dump"]
    tc = _checker(sub, unit, prop)
    base = path_hyps(res.path)
    K0 = z3.Int("K0")
    if unit.startswith("image"):
        from props.imageunit import R

        rec = 720 + K0 * R
        year, doy, ms = (ops.BEU(z3.IntVal(100), z3.simplify(rec + o), z3.IntVal(4)) for o in (36, 40, 44))  # prefix bytes 37-48
        got = _dump_elem_term(tc, dump, "/group/sensor_acquisition_date#data", res.path.pc)
        sub.decided(f"{prop}/{unit}/line-time/present", got is not None, function=fn)
        if got is not None:
            sub.prove(f"{prop}/{unit}/line-time/is-instant(year,day,ms)", [K0 >= 0], got == instant_ns(year, doy, ms * 10**6),
                      function=fn, kind="post", replay=replay_line_time,
                      detail={"got": str(z3.simplify(got))[:300]})
        if unit.startswith("image10"):
            from ceos_alos2.sar_image.signal_data import signal_data_record

            off = 0
            for sc in signal_data_record.subcons:
                if getattr(sc, "name", None) == "sensor_acquisition_date_microseconds":
                    break
                try:
                    off += sc.sizeof()
                except Exception:
                    pass
            us = ops.BEU(z3.IntVal(100), z3.simplify(rec + off), z3.IntVal(8))
            got = _dump_elem_term(tc, dump, "/group/sensor_acquisition_date_microseconds#data", res.path.pc)
            sub.decided(f"{prop}/{unit}/line-time-us/present", got is not None, function=fn)
            if got is not None:
                day_ns = (ops.JAN1(year) + doy - 1) * NS_DAY
                # ms < 86 400 000 is the stamp's own day (precondition of "rebased on that date")
                sub.prove(f"{prop}/{unit}/line-time-us/is-day(year,day)+us", [K0 >= 0, ms >= 0, ms < 86400000],
                          got == day_ns + us * 1000, function=fn, kind="post",
                          detail={"got": str(z3.simplify(got))[:300]})
    if unit == "leader":
        first = dump.get("/platform_position/@datetime_of_first_point")
        if first is None:
            return
        iso = tables.parse_term(first["t"], tc.decls(res.path.pc))
        sub.decided(f"{prop}/{unit}/first-point/is-isoformat", iso.decl().name() == "isoformat", function=fn,
                    detail={"term": first["t"][:200]})
        if iso.decl().name() != "isoformat":
            return
        first_us = iso.arg(0)
        x = z3.Int("x")
        axiom = z3.ForAll([x], absobj_NP_DT64()(ops.CONCAT(ops.SUBSTR(ops.ISOFMT(x), z3.IntVal(0), z3.IntVal(4)),
                                                              ops.str_const("-01-01"))) == ops.JAN1(YEAR_OF(x)) * NS_DAY,
                          patterns=[ops.ISOFMT(x)])
        for grp in ("attitude", "rates"):
            got = _dump_elem_term(tc, dump, f"/attitude/{grp}/time#data", res.path.pc)
            if got is None:
                continue
            atoms = [a for a in input_atoms([got], descend=False).values() if a[0] == "ascii_text"]
            # the two per-point fields: day of year (4 characters) and millisecond of day (8 characters)
            doy_f = [a[3] for a in atoms if z3.is_int_value(a[2]) and a[2].as_long() == 4 and "K0" in str(a[1])]
            ms_f = [a[3] for a in atoms if z3.is_int_value(a[2]) and a[2].as_long() == 8 and "K0" in str(a[1])]
            if len(doy_f) != 1 or len(ms_f) != 1:
                sub.decided(f"{prop}/{unit}/attitude/{grp}/time-fields-identified", False, function=fn,
                            detail={"atoms": [str(a[3])[:80] for a in atoms]})
                continue
            dec = lambda f: z3.If(ops.IS_EMPTY(ops.STRIP(f)), z3.IntVal(-1), ops.PY_INT(ops.STRIP(f)))  # noqa: E731
            want = instant_ns(YEAR_OF(first_us), dec(doy_f[0]), dec(ms_f[0]) * 10**6)
            sub.prove(f"{prop}/{unit}/attitude/time-is-instant(year,day,ms)", [axiom, K0 >= 0], got == want, function=fn,
                      kind="post", replay=replay_attitude_time,
                      detail={"got": str(z3.simplify(got))[:400], "group": grp})


def absobj_NP_DT64():
    from pyvc.absobj import NP_DT64

    return NP_DT64


def replay_attitude_time(model):
    """native replay on the real code: one attitude point with day_of_year = 1, 0 ms, year 2020"""
    import numpy as np

    from ceos_alos2.hierarchy import Group, Variable
    from ceos_alos2.sar_leader import attitude as A
    from ceos_alos2.sar_leader import metadata as M

    t = A.transform_time({"day_of_year": [1, 60], "millisecond_of_day": [0, 86399999]})
    sub = Group(path=None, url=None, data={"time": Variable(["points"], t, {})}, attrs={})
    g = {"platform_position": Group(path=None, url=None, data={}, attrs={"datetime_of_first_point": "2020-01-01T00:00:00"}),
         "attitude": Group(path=None, url=None, data={"attitude": sub}, attrs={})}
    out = M.fix_attitude_time(g)
    got = [str(v) for v in out["attitude"]["attitude"].data["time"].data]
    want = ["2020-01-01T00:00:00.000000000", "2020-02-29T23:59:59.999000000"]
    return {"confirmed": got != want, "witness_class": "any day_of_year",
            "input": {"year": 2020, "day_of_year": [1, 60], "millisecond_of_day": [0, 86399999]}, "observed": got, "expected": want}


def replay_line_time(model):
    import datetime as dt

    from ceos_alos2.datatypes import DatetimeYdms

    got = DatetimeYdms(None)._decode({"year": 2020, "day_of_year": 60, "milliseconds": 86399999}, None, None)
    want = dt.datetime(2020, 2, 29, 23, 59, 59, 999000)
    return {"confirmed": got != want, "input": {"year": 2020, "day_of_year": 60, "milliseconds": 86399999},
            "observed": str(got), "expected": str(want)}


# ---------------------------------------------------------------------------------------------------
# C12: sort discipline of the result tree
# ---------------------------------------------------------------------------------------------------
SCALAR_SORTS = {"int", "float", "bool", "str", "complex", "datetime", "timedelta", "dt64", "td64", "date"}


def _scalar_kind(e):
    """sort of a dump entry if it is a plain scalar, else None"""
    if "sym" in e:
        return e["sym"] if e["sym"] in SCALAR_SORTS else None
    if "complex" in e:
        return "complex"
    if "py" in e:
        r = e["py"]
        if r in ("True", "False"):
            return "bool"
        if r == "None":
            return None
        if r[:1] in "'\"":
            return "str"
        if r.startswith("datetime.") or r.startswith("dtype("):
            return "datetime" if r.startswith("datetime.") else None
        try:
            v = eval(r, {"nan": float("nan"), "inf": float("inf")})  # repr of an int / float / complex
        except Exception:
            return None
        return type(v).__name__ if isinstance(v, (int, float, complex)) else None
    return None


def _data_shape(e, depth=0):
    """(nesting depth, set of element sorts, problems) of a variable's data entry"""
    if "list" in e or "tuple" in e:
        items = e.get("list", e.get("tuple"))
        d, kinds, probs = 0, set(), []
        for x in items:
            dd, kk, pp = _data_shape(x, depth + 1)
            d = max(d, dd)
            kinds |= kk
            probs += pp
        return d + 1, kinds, probs
    if "seq" in e or "nd" in e:
        if "list" in e and "nd" in e:
            return _data_shape({"list": e["list"]}, depth)
        dd, kk, pp = _data_shape(e["elem"], depth + 1)
        return dd + 1, kk, pp
    if "nd0" in e:
        return _data_shape(e["elem"], depth)
    if "np" in e:
        return len(e.get("shape", [])), {e["np"]}, []
    if "Array" in e:
        return 2, {"backend:" + e["Array"]["dtype"].get("py", "?")}, []
    k = _scalar_kind(e)
    if k is None:
        return 0, set(), [str(e)[:160]]
    return 0, {k}, []


def _attr_ok(e):
    if "list" in e or "tuple" in e:
        return all(_attr_ok(x) for x in e.get("list", e.get("tuple")))
    return _scalar_kind(e) is not None


def an_sorts(sub, payload, unit, tag, res):
    if res.outcome != "return":
        return
    prop = payload["prop"]
    fn = _fn(unit)
    dump = res.extra["dump"]
    pid = f"{prop}/{unit}"
    for loc, e in dump.items():
        if loc.endswith("#data"):
            var = loc[: -len("#data")]
            depth, kinds, probs = _data_shape(e)
            dims = dump.get(var + "#dims", {})
            ndims = len(dims.get("list", dims.get("tuple", []))) if isinstance(dims, dict) else None
            numeric = {"int", "float", "bool"}
            homogeneous = len(kinds) <= 1 or kinds <= numeric or kinds <= {"int", "float", "bool", "complex"}
            ok = not probs and homogeneous and (ndims is None or depth == ndims)
            sub.decided(f"{pid}{var}/well-typed-data", ok, function=fn, kind="post", backend="sort-check", replay=replay_sorts,
                        detail={"path": tag, "element_sorts": sorted(kinds), "nesting": depth, "dims": ndims, "opaque": probs[:2]})
        elif "@" in loc.rsplit("/", 1)[-1]:
            sub.decided(f"{pid}{loc}/plain-attribute", _attr_ok(e), function=fn, kind="post", backend="sort-check",
                        detail={"path": tag, "value": str(e)[:200]})


def replay_sorts(model):
    """native replay: a synthetic level 1.1 product opened by the real code; any object-dtype variable?"""
    import fsspec
    import numpy as np

    from ceos_alos2.sar_image import open_image
    from ceos_alos2.xarray import to_dataset
    from native import synth

    fs = fsspec.filesystem("memory")
    root = "/c12replay"
    data = (np.arange(6, dtype="float32").reshape(2, 3) + 1j).astype("complex64")
    img = synth.image_file(data, level="1.1")
    fs.pipe(f"{root}/IMG-HH-ALOS2000000000-200229-UBSR1.1__D", bytes(img))
    mapper = fsspec.get_mapper(f"memory://{root}")
    group = open_image(mapper, "IMG-HH-ALOS2000000000-200229-UBSR1.1__D", use_cache=False, records_per_chunk=2)
    ds = to_dataset(group)
    bad = {name: str(v.dtype) for name, v in ds.variables.items() if v.dtype == object}
    return {"confirmed": bool(bad), "witness_class": "level-1.1 nested sub-structs",
            "input": "synthetic level 1.1 image, 2 lines x 3 pixels", "observed": bad,
            "expected": "no variable of dtype object"}


# ---------------------------------------------------------------------------------------------------
# C11: ghost I/O log of the metadata pass (open time)
# ---------------------------------------------------------------------------------------------------
def an_iolog(sub, payload, unit, tag, res):
    """read_metadata: read(720) · for chunk j = 0..ceil(n/rpc)-1 one read of chunksize_j*R bytes at 720 + R*rpc*j, front to
    back, no seek, each inside the file; nothing else"""
    if res.outcome != "return":
        return
    from props.imageunit import FSIZE, N, R, RPC

    prop = payload["prop"]
    fn = _fn(unit)
    it = res.extra["it"]
    log = it.io_log
    pid = f"{prop}/{unit}/metadata-pass"
    kinds = [e[0] for e in log]
    sub.decided(f"{pid}/log-shape=open,read(720),chunk-reads", kinds == ["open", "read", "block"], function=fn,
                detail={"log": kinds})
    if kinds != ["open", "read", "block"]:
        return
    sub.decided(f"{pid}/opens-only-the-image", log[0][1] == "IMG", function=fn)
    base = path_hyps(res.path)
    _, _, pos, req, got = log[1]
    sub.prove(f"{pid}/descriptor-read-is-720-bytes-at-0", base, z3.And(as_int_term(pos) == 0, as_int_term(req) == 720, as_int_term(got) == 720),
              function=fn, kind="post", sliced=True)
    _, iv, n, events = log[2]
    ek = [e[0] for e in events]
    sub.decided(f"{pid}/one-read-per-chunk-and-no-seek", ek == ["read"], function=fn, detail={"events": ek})
    if ek != ["read"]:
        return
    _, _, cpos, creq, cgot = events[0]
    rng = [iv >= 0, iv < as_int_term(n)]
    K = z3.Function("ceil_div", z3.IntSort(), z3.IntSort(), z3.IntSort())(N, RPC)
    from pyvc.dump import definitional_equalities

    hyp = base + definitional_equalities(res.path) + rng
    sub.prove(f"{pid}/number-of-requests=ceil(lines/rpc)", hyp, z3.And(RPC * (as_int_term(n) - 1) < N, N <= RPC * as_int_term(n)),
              function=fn, kind="post", sliced=True)
    sub.prove(f"{pid}/chunk-read-position=720+R*rpc*j", hyp, as_int_term(cpos) == 720 + R * RPC * iv, function=fn, kind="post", sliced=True)
    size = z3.If(RPC * (iv + 1) <= N, RPC, N - RPC * iv) * R
    sub.prove(f"{pid}/chunk-read-size=chunksize*R", hyp, z3.And(as_int_term(creq) == size, as_int_term(cgot) == size), function=fn,
              kind="post", sliced=True)
    sub.prove(f"{pid}/chunk-read-inside-the-file", hyp, z3.And(as_int_term(cpos) >= 720, as_int_term(cpos) + as_int_term(creq) <= FSIZE),
              function=fn, kind="post", sliced=True)
    sub.prove(f"{pid}/front-to-back", hyp + [iv + 1 < as_int_term(n)],
              as_int_term(cpos) + as_int_term(cgot) == 720 + R * RPC * (iv + 1), function=fn, kind="post", sliced=True)


# ---------------------------------------------------------------------------------------------------
# C01: where the samples are (byte ranges, shape, type code) — stated over the independent anchor positions
# ---------------------------------------------------------------------------------------------------
def an_pixels(sub, payload, unit, tag, res):
    if res.outcome != "return":
        return
    from props.imageunit import N, R, header_int, header_text
    from pyvc.dump import definitional_equalities

    prop = payload["prop"]
    fn = _fn(unit)
    dump = res.extra["dump"]
    tc = _checker(sub, (payload.get("table_of") or {}).get(unit, unit), prop)
    am = (dump.get("/array_metadata") or {}).get("dict")
    pid = f"{prop}/{unit}/array-metadata"
    sub.decided(f"{pid}/present", am is not None and set(am) == {"type_code", "shape", "dtype", "byte_ranges"}, function=fn,
                detail={"keys": sorted(am) if am else None})
    if not am or "elem" not in am["byte_ranges"]:
        return
    P = 544 if unit.startswith("image10") else 192     # prefix length of record type 10 / 11 (CEOS constants)
    tcode, dt = ("C*8", "complex64") if unit.startswith("image10") else ("IU2", "uint16")
    K0 = z3.Int("K0")
    decls = tc.decls(res.path.pc)
    base = path_hyps(res.path) + definitional_equalities(res.path) + [K0 >= 0, K0 < N]
    br = am["byte_ranges"]
    start, stop = (tables.parse_term(e["t"], decls) for e in br["elem"]["tuple"])
    ln = tables.parse_term(br["len"], decls)
    sub.prove(f"{pid}/one-byte-range-per-line", base, ln == N, function=fn, kind="post", sliced=True)
    sub.prove(f"{pid}/row-k-starts-at-720+k*R+prefix", base, start == 720 + K0 * R + P, function=fn, kind="post", sliced=True,
              detail={"got": str(z3.simplify(start))[:200], "prefix": P})
    sub.prove(f"{pid}/row-k-stops-at-720+(k+1)*R", base, stop == 720 + (K0 + 1) * R, function=fn, kind="post", sliced=True,
              detail={"got": str(z3.simplify(stop))[:200]})
    shape = am["shape"].get("tuple", [])
    lines, pixels = header_int(236, 8), header_int(248, 8)   # descriptor bytes 237-244 / 249-256
    ok = len(shape) == 2 and all("t" in s for s in shape)
    sub.decided(f"{pid}/shape-is-a-pair", ok, function=fn)
    if ok:
        sub.prove(f"{pid}/shape=(declared-lines,declared-pixels)", base,
                  z3.And(tables.parse_term(shape[0]["t"], decls) == lines, tables.parse_term(shape[1]["t"], decls) == pixels),
                  function=fn, kind="post", sliced=True)
    tcd = am["type_code"]
    if "t" in tcd:
        sub.prove(f"{pid}/type-code=descriptor-bytes-429-432", base, tables.parse_term(tcd["t"], decls) == header_text(428, 4),
                  function=fn, kind="post", sliced=True)
    sub.decided(f"{pid}/dtype-of-the-sample-type", am["dtype"].get("py") == repr(dt), function=fn,
                detail={"dtype": am["dtype"], "type_code": tcode})


# ---------------------------------------------------------------------------------------------------
# C18: truncation — a reader that returns has seen every declared byte
# ---------------------------------------------------------------------------------------------------
def an_truncation(sub, payload, unit, tag, res):
    """truncation mode (availability of every read is a branch): on a returning path the file holds at least the declared
    bytes of all records; every other path raises"""
    prop = payload["prop"]
    fn = _fn(unit)
    it = res.extra["it"]
    pid = f"{prop}/{unit}/{tag}"
    if res.outcome != "return":
        sub.decided(f"{pid}/raises-an-exception", isinstance(res.exc, Exception), function=fn, backend="engine",
                    detail={"exception": exc_text(res.exc, 120)})
        return
    size = z3.Int("size_of_file_100")
    base = path_hyps(res.path)
    spans = [s for s in getattr(it, "spans", []) if len(s[0]) == 1]
    total = z3.IntVal(0)
    import construct as _C

    known = 0
    for pth, start, end, con in spans:
        name = pth[0]
        if isinstance(con, _C.Array):
            cnt = con.count
            esize = {"map_projection": 1620, "file_descriptors": 360}.get(name)
            lf = [l for l in getattr(it, "all_leaves", []) if tuple(l.path) == (name,) and l.codec.startswith("array[")]
            if esize is None or not lf:
                continue
            total = total + as_int_term(lf[0].chain[0][1]) * esize
            known += 1
        elif name in VARIABLE:
            L = _leaf_value(it, name, "preamble", "record_length")
            if L is None:
                continue
            total = total + as_int_term(L)
            known += 1
        elif name in CEOS_LENGTHS.get(unit, {}):
            total = total + CEOS_LENGTHS[unit][name]
            known += 1
    sub.decided(f"{pid}/all-records-have-a-declared-length", known == len(spans) and known > 0, function=fn,
                detail={"records": [s[0][0] for s in spans], "with_declared_length": known})
    sub.prove(f"{pid}/returns-only-if-the-file-holds-every-declared-byte", base + admissible(it, unit), size >= total, function=fn,
              kind="post", detail={"declared_total": str(z3.simplify(total))[:200]})
