"""C16 Volume-directory fields surface unchanged as root attributes — DESIGN.md §4/C16."""
from props import records


def run(ses):
    from pyvc import frame as _frame

    _frame.purity_obligation(ses)
    records.check_unit(ses, "volume", ["table", "frame", "wf"])
    from props import analyses

    analyses.bounded_tables(ses, ('volume',), 12 if ses.tier == "quick" else 300)
    ses.trust("pyvc engine; z3/cvc5", "construct combinators and atomic codecs as modelled in pyvc.layout (T3)",
              "specification table spec/tables/volume.json (authored from the pinned layout; anchors checked)")
