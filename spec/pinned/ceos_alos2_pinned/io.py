import fsspec
from tlz.functoolz import curry

from ceos_alos2_pinned import sar_image
from ceos_alos2_pinned.hierarchy import Group
from ceos_alos2_pinned.sar_leader import open_sar_leader
from ceos_alos2_pinned.summary import open_summary
from ceos_alos2_pinned.volume_directory import open_volume_directory


def open(path, *, storage_options={}, create_cache=False, use_cache=True, records_per_chunk=1024):
    mapper = fsspec.get_mapper(path, **storage_options)

    # read summary
    summary = open_summary(mapper, "summary.txt")

    filenames = summary["product_information"]["data_files"].attrs

    # read volume directory
    volume_directory = open_volume_directory(mapper, filenames["volume_directory"])
    # read sar leader
    sar_leader = open_sar_leader(mapper, filenames["sar_leader"])
    # read actual imagery
    imagery_groups = list(
        map(
            curry(
                sar_image.open_image,
                mapper,
                records_per_chunk=records_per_chunk,
                create_cache=create_cache,
                use_cache=use_cache,
            ),
            filenames["sar_imagery"],
        )
    )
    imagery = Group(
        "/imagery", url=mapper.root, data={group.name: group for group in imagery_groups}, attrs={}
    )
    # read sar trailer
    subgroups = {"summary": summary, "metadata": sar_leader, "imagery": imagery}

    attrs = {
        "reference_document": (
            "https://www.eorc.jaxa.jp/ALOS-2/en/doc/fdata/PALSAR-2_xx_Format_CEOS_E_f.pdf"
        )
    }

    return Group(path="/", data=subgroups, url=mapper.root, attrs=volume_directory.attrs | attrs)
