import datetime

from construct import Adapter, Struct
from construct import PaddedString as PaddedString_


class AsciiInteger(Adapter):
    def __init__(self, n_bytes):
        base = PaddedString_(n_bytes, "ascii")
        super().__init__(base)

    def _decode(self, obj, context, path):
        stripped = obj.strip()
        if not stripped:
            return -1
        return int(stripped)

    def _encode(self, obj, context, path):
        raise NotImplementedError


class AsciiFloat(Adapter):
    def __init__(self, n_bytes):
        base = PaddedString_(n_bytes, "ascii")
        super().__init__(base)

    def _decode(self, obj, context, path):
        stripped = obj.strip()
        if not stripped:
            stripped = "nan"

        return float(stripped)

    def _encode(self, obj, context, path):
        raise NotImplementedError


class AsciiComplex(Adapter):
    def __init__(self, n_bytes):
        base = Struct(
            "real" / AsciiFloat(n_bytes // 2),
            "imaginary" / AsciiFloat(n_bytes // 2),
        )
        super().__init__(base)

    def _decode(self, obj, context, path):
        return obj.real + 1j * obj.imaginary

    def _encode(self, obj, context, path):
        raise NotImplementedError


class PaddedString(Adapter):
    def __init__(self, n_bytes):
        base = PaddedString_(n_bytes, "ascii")
        super().__init__(base)

    def _decode(self, obj, context, path):
        return obj.strip()

    def _encode(self, obj, context, path):
        raise NotImplementedError


class Factor(Adapter):
    def __init__(self, obj, factor):
        super().__init__(obj)
        self.factor = factor

    def _decode(self, obj, context, path):
        return obj * self.factor

    def _encode(self, obj, context, path):
        raise NotImplementedError


class Metadata(Adapter):
    def __init__(self, obj, **kwargs):
        super().__init__(obj)

        self.attrs = kwargs

    def _decode(self, obj, context, path):
        return (obj, self.attrs)

    def _encode(self, obj, context, path):
        raise NotImplementedError


class StripNullBytes(Adapter):
    def _decode(self, obj, context, path):
        return obj.strip(b"\x00")

    def _encode(self, obj, context, path):
        raise NotImplementedError


class DatetimeYdms(Adapter):
    def _decode(self, obj, context, path):
        base = datetime.datetime(obj["year"], 1, 1)
        timedelta = datetime.timedelta(
            days=obj["day_of_year"] - 1, milliseconds=obj["milliseconds"]
        )

        return base + timedelta

    def _encode(self, obj, context, path):
        raise NotImplementedError


class DatetimeYdus(Adapter):
    def __init__(self, base, reference_date):
        self.reference_date = reference_date

        super().__init__(base)

    def _decode(self, obj, context, path):
        reference_date = (
            self.reference_date(context) if callable(self.reference_date) else self.reference_date
        )
        truncated = datetime.datetime.combine(reference_date.date(), datetime.time.min)
        return truncated + datetime.timedelta(microseconds=obj)

    def _encode(self, obj, context, path):
        raise NotImplementedError
