import datetime

from construct import EnumIntegerString
from construct.lib.containers import ListContainer
from tlz.dicttoolz import keymap


def unique(seq):
    return list(dict.fromkeys(seq))


def starcall(f, args, **kwargs):
    return f(*args, **kwargs)


def to_dict(container):
    if isinstance(container, EnumIntegerString):
        return str(container)
    if isinstance(container, (int, float, str, bytes, complex, datetime.datetime)):
        return container
    elif isinstance(container, (list, tuple)):
        if isinstance(container, ListContainer):
            type_ = list
        else:
            type_ = type(container)
        return type_(to_dict(elem) for elem in container)

    return {name: to_dict(section) for name, section in container.items() if name != "_io"}


def rename(mapping, translations):
    return keymap(lambda k: translations.get(k, k), mapping)


def remove_nesting_layer(mapping):
    def _remove(mapping):
        for key, value in mapping.items():
            if not isinstance(value, dict):
                yield key, value
                continue

            yield from value.items()

    return dict(_remove(mapping))


# vendored from `dask.utils.parse_bytes`
# https://github.com/dask/dask/blob/a68bbc814306c51177407d32067ee5a8aaa22181/dask/utils.py#L1455-L1528
byte_sizes = {
    "kB": 10**3,
    "MB": 10**6,
    "GB": 10**9,
    "TB": 10**12,
    "PB": 10**15,
    "KiB": 2**10,
    "MiB": 2**20,
    "GiB": 2**30,
    "TiB": 2**40,
    "PiB": 2**50,
    "B": 1,
    "": 1,
}
byte_sizes = {k.lower(): v for k, v in byte_sizes.items()}
byte_sizes.update({k[0]: v for k, v in byte_sizes.items() if k and "i" not in k})
byte_sizes.update({k[:-1]: v for k, v in byte_sizes.items() if k and "i" in k})


def parse_bytes(s: float | str) -> int:
    """Parse byte string to numbers

    >>> from dask.utils import parse_bytes
    >>> parse_bytes("100")
    100
    >>> parse_bytes("100 MB")
    100000000
    >>> parse_bytes("100M")
    100000000
    >>> parse_bytes("5kB")
    5000
    >>> parse_bytes("5.4 kB")
    5400
    >>> parse_bytes("1kiB")
    1024
    >>> parse_bytes("1e6")
    1000000
    >>> parse_bytes("1e6 kB")
    1000000000
    >>> parse_bytes("MB")
    1000000
    >>> parse_bytes(123)
    123
    >>> parse_bytes("5 foos")
    Traceback (most recent call last):
        ...
    ValueError: Could not interpret 'foos' as a byte unit
    """
    if isinstance(s, (int, float)):
        return int(s)
    s = s.replace(" ", "")
    if not any(char.isdigit() for char in s):
        s = "1" + s

    # this will never run until the end
    for i in range(len(s) - 1, -1, -1):
        if not s[i].isalpha():
            break
    index = i + 1

    prefix = s[:index]
    suffix = s[index:]

    try:
        n = float(prefix)
    except ValueError as e:
        raise ValueError(f"Could not interpret '{prefix}' as a number") from e

    try:
        multiplier = byte_sizes[suffix.lower()]
    except KeyError as e:
        raise ValueError(f"Could not interpret '{suffix}' as a byte unit") from e

    result = n * multiplier
    return int(result)
