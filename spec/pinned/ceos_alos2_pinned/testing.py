import textwrap
from itertools import zip_longest

import numpy as np
from tlz.dicttoolz import merge_with, valfilter, valmap
from tlz.functoolz import curry, pipe
from tlz.itertoolz import cons, groupby

from ceos_alos2_pinned.array import Array
from ceos_alos2_pinned.dicttoolz import valsplit, zip_default
from ceos_alos2_pinned.hierarchy import Group, Variable

newline = "\n"


def dict_overlap(a, b):
    def status(k):
        if k not in a:
            return "missing_left"
        elif k not in b:
            return "missing_right"
        else:
            return "common"

    all_keys = list(a | b)
    g = groupby(status, all_keys)

    missing_left = g.get("missing_left", [])
    common = g.get("common", [])
    missing_right = g.get("missing_right", [])

    return missing_left, common, missing_right


def format_item(x):
    dtype = x.dtype
    if dtype.kind in {"m", "M"}:
        return str(x)

    return repr(x.item())


def format_array(arr):
    if isinstance(arr, Array):
        url = f"{arr.fs.fs.protocol}://" + arr.fs.sep.join([arr.fs.path, arr.url])
        lines = [
            f"Array(shape={arr.shape}, dtype={arr.dtype}, rpc={arr.records_per_chunk})",
            f"    url: {url}",
        ]

        return newline.join(lines)

    flattened = np.reshape(arr, (-1,))
    if flattened.size < 8:
        return f"{flattened.dtype}  " + " ".join(format_item(x) for x in flattened)
    else:
        head = flattened[:3]
        tail = flattened[-2:]

        return (
            f"{flattened.dtype}  "
            + " ".join(format_item(x) for x in head)
            + " ... "
            + " ".join(format_item(x) for x in tail)
        )


def format_variable(var):
    base_string = f"({', '.join(var.dims)})    {format_array(var.data)}"
    attrs = [f"    {k}: {v}" for k, v in var.attrs.items()]
    return newline.join(cons(base_string, attrs))


def format_inline(value):
    if isinstance(value, Variable):
        return format_variable(value)
    else:
        return str(value)


def diff_mapping_missing(keys, side):
    lines = [f"Missing {side}:"] + [f" - {k}" for k in keys]

    return newline.join(lines)


def diff_mapping_not_equal(left, right, name):
    merged = valfilter(lambda v: len(v) == 2, merge_with(list, left, right))

    lines = []
    for k, (vl, vr) in merged.items():
        if vl == vr:
            continue
        lines.append(f"  L {k}  {format_inline(vl)}")
        lines.append(f"  R {k}  {format_inline(vr)}")

    if not lines:
        return None

    formatted_lines = textwrap.indent(newline.join(lines), " ")

    return newline.join([f"Differing {name}:", formatted_lines])


def diff_mapping(a, b, name):
    missing_left, common, missing_right = dict_overlap(a, b)

    sections = []
    if missing_left:
        sections.append(diff_mapping_missing(missing_left, "left"))
    if missing_right:
        sections.append(diff_mapping_missing(missing_right, "right"))
    if common:
        sections.append(diff_mapping_not_equal(a, b, name=name.lower()))

    formatted_sections = textwrap.indent(newline.join(filter(None, sections)), "  ")

    return newline.join([f"{name.title()}:", formatted_sections])


def diff_scalar(a, b, name):
    return textwrap.dedent(
        f"""\
        Differing {name.title()}:
        L  {a}
        R  {b}
        """.rstrip()
    )


def compare_data(a, b):
    if type(a) is not type(b):
        return False

    if isinstance(a, Array):
        return a == b
    else:
        return a.shape == b.shape and np.all(a == b)


def diff_array(a, b):
    if not isinstance(a, Array):
        lines = [
            f"  L {format_array(a)}",
            f"  R {format_array(b)}",
        ]

        return newline.join(lines)

    sections = []
    if a.fs != b.fs:
        lines = ["Differing filesystem:"]
        # fs.protocol is always `dir`, so we have to check the wrapped fs
        if a.fs.fs.protocol != b.fs.fs.protocol:
            lines.append(f"  L protocol  {a.fs.fs.protocol}")
            lines.append(f"  R protocol  {b.fs.fs.protocol}")
        if a.fs.path != b.fs.path:
            lines.append(f"  L path  {a.fs.path}")
            lines.append(f"  R path  {b.fs.path}")
        sections.append(newline.join(lines))
    if a.url != b.url:
        lines = [
            "Differing urls:",
            f"  L url  {a.url}",
            f"  R url  {b.url}",
        ]
        sections.append(newline.join(lines))
    if a.byte_ranges != b.byte_ranges:
        lines = ["Differing byte ranges:"]
        for index, (range_a, range_b) in enumerate(zip_longest(a.byte_ranges, b.byte_ranges)):
            if range_a == range_b:
                continue
            lines.append(f"  L line {index + 1}  {range_a}")
            lines.append(f"  R line {index + 1}  {range_b}")
        sections.append(newline.join(lines))
    if a.shape != b.shape:
        lines = [
            "Differing shapes:",
            f"  {a.shape} != {b.shape}",
        ]
        sections.append(newline.join(lines))
    if a.dtype != b.dtype:
        lines = [
            "Differing dtypes:",
            f"  {a.dtype} != {b.dtype}",
        ]
        sections.append(newline.join(lines))
    if a.type_code != b.type_code:
        lines = [
            "Differing type code:",
            f"  L type_code  {a.type_code}",
            f"  R type_code  {b.type_code}",
        ]
        sections.append(newline.join(lines))
    if a.records_per_chunk != b.records_per_chunk:
        lines = [
            "Differing chunksizes:",
            f"  L records_per_chunk  {a.records_per_chunk}",
            f"  R records_per_chunk  {b.records_per_chunk}",
        ]
        sections.append(newline.join(lines))

    return newline.join(sections)


def diff_data(a, b, name):
    if type(a) is not type(b):
        lines = [
            f"Differing {name.lower()} types:",
            f"  L {type(a)}",
            f"  R {type(b)}",
        ]
        return newline.join(lines)

    diff = diff_array(a, b)
    return newline.join([f"Differing {name.lower()}:", textwrap.indent(diff, "  ")])


def format_sizes(sizes):
    return "(" + ", ".join(f"{k}: {s}" for k, s in sizes.items()) + ")"


def diff_variable(a, b):
    sections = []
    if a.dims != b.dims:
        lines = ["Differing dimensions:", f"  {format_sizes(a.sizes)} != {format_sizes(b.sizes)}"]
        sections.append(newline.join(lines))
    if not compare_data(a.data, b.data):
        sections.append(diff_data(a.data, b.data, name="Data"))
    if a.attrs != b.attrs:
        sections.append(diff_mapping(a.attrs, b.attrs, name="Attributes"))

    diff = newline.join(sections)
    return newline.join(
        ["Left and right Variable objects are not equal", textwrap.indent(diff, "  ")]
    )


def diff_group(a, b):
    sections = []
    if a.path != b.path:
        sections.append(diff_scalar(a.path, b.path, name="Path"))
    if a.url != b.url:
        sections.append(diff_scalar(a.url, b.url, name="URL"))
    if a.variables != b.variables:
        sections.append(diff_mapping(a.variables, b.variables, name="Variables"))
    if a.attrs != b.attrs:
        sections.append(diff_mapping(a.attrs, b.attrs, name="Attributes"))

    return newline.join(sections)


def diff_tree(a, b):
    tree_a = dict(a.subtree)
    tree_b = dict(b.subtree)

    sections = []

    missing, common = pipe(
        zip_default(tree_a, tree_b, default=None),
        curry(valmap, curry(map, lambda g: g.decouple() if g is not None else None)),
        curry(valmap, list),
        curry(valsplit, lambda groups: any(g is None for g in groups)),
    )
    if missing:
        lines = ["Differing tree structure:"]
        missing_left, missing_right = map(list, valsplit(lambda x: x[0] is None, missing))

        if missing_left:
            lines.append("  Missing left:")
            lines.extend(f"  - {k}" for k in missing_left)
        if missing_right:
            lines.append("  Missing right:")
            lines.extend(f"  - {k}" for k in missing_right)

        sections.append(newline.join(lines))
    if common:
        lines = []
        for path, (left, right) in common.items():
            if left == right:
                continue

            lines.append(f"  Group {path}:")
            lines.append(textwrap.indent(diff_group(left, right), "    "))
        if lines:
            sections.append(newline.join(cons("Differing groups:", lines)))

    diff = newline.join(sections)
    return newline.join(["Left and right Group objects are not equal", textwrap.indent(diff, "  ")])


def assert_identical(a, b):
    __tracebackhide__ = True
    # compare types
    assert type(a) is type(b), f"types mismatch: {type(a)} != {type(b)}"

    if not isinstance(a, (Group, Variable, Array)):
        raise TypeError("can only compare Group and Variable and Array objects")

    if isinstance(a, Group):
        assert a == b, diff_tree(a, b)
    elif isinstance(a, Variable):
        assert a == b, diff_variable(a, b)
    else:
        assert a == b, diff_array(a, b)
