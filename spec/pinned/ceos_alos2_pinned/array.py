from dataclasses import dataclass, field
from typing import Any

import numpy as np
from tlz.itertoolz import cons, first, get, groupby, partition_all, second

from ceos_alos2_pinned.utils import parse_bytes

raw_dtypes = {
    "C*8": np.dtype([("real", ">f4"), ("imag", ">f4")]),
    "IU2": np.dtype(">u2"),
}


def parse_data(content, type_code):
    dtype = raw_dtypes.get(type_code)
    if dtype is None:
        raise ValueError(f"unknown type code: {type_code}")

    raw = np.frombuffer(content, dtype)
    if type_code == "C*8":
        # reinterpret the (real, imag) pairs without arithmetic to keep them bit-exact
        return raw.view(">c8").astype("complex64")
    return raw


def normalize_chunksize(chunksize, dim_size):
    if chunksize in (None, -1) or chunksize > dim_size:
        return dim_size

    return chunksize


def determine_nearest_chunksize(sizes, reference_size):
    diff = np.cumsum(sizes) - reference_size
    index = np.argmin(abs(diff))

    return index + 1


def compute_chunk_ranges(byte_ranges, chunks):
    partitioned = partition_all(chunks, byte_ranges)

    return {
        chunk_number: (min(map(first, ranges_)), max(map(second, ranges_)))
        for chunk_number, ranges_ in enumerate(partitioned)
    }


def to_offset_size(ranges):
    return {
        index: {"offset": start, "size": stop - start} for index, (start, stop) in ranges.items()
    }


def compute_chunk_offsets(byte_ranges, chunks):
    ranges = compute_chunk_ranges(byte_ranges, chunks)
    return to_offset_size(ranges)


def compute_selected_ranges(byte_ranges, indexer):
    n_rows = len(byte_ranges)
    if isinstance(indexer, int):
        indexer = [indexer]

    if isinstance(indexer, slice):
        selected_rows = range(n_rows)[indexer]
    else:
        selected_rows = indexer

    return list(get(list(selected_rows), list(enumerate(byte_ranges))))


def groupby_chunks(byte_ranges, chunksize):
    grouped = groupby(lambda it: it[0] // chunksize, byte_ranges)
    return {key: [value for _, value in ranges] for key, ranges in grouped.items()}


def merge_chunk_info(selected, chunk_offsets):
    return [(chunk_offsets[index], ranges) for index, ranges in selected.items()]


def relocate_ranges(chunk_info, ranges):
    offset = chunk_info["offset"]

    return chunk_info, [(min_ - offset, max_ - offset) for min_, max_ in ranges]


def extract_ranges(content, ranges):
    return [content[start:stop] for start, stop in ranges]


def read_chunk(f, offset, size):
    f.seek(offset)

    return f.read(size)


@dataclass(order=False, unsafe_hash=True)
class Array:
    """2d array from chunked data"""

    # TODO: decide whether having a cached file object or fs instance and url are better
    # file location / access
    fs: Any = field(repr=False)
    url: str = field(repr=True)

    # data positions
    byte_ranges: list[tuple[int, int]] = field(repr=False)

    # array information
    shape: tuple[int, int] = field(repr=True)
    dtype: str | np.dtype = field(repr=True)

    # convert raw bytes to data
    type_code: str = field(repr=False)

    # chunk sizes: chunks in (rows, cols)
    records_per_chunk: int | None = field(repr=True, default=None)
    chunk_offsets: list[tuple[int, int]] = field(repr=False, init=False)

    def __post_init__(self):
        sizes = np.array([stop - start for start, stop in self.byte_ranges])
        if self.records_per_chunk is None:
            self.records_per_chunk = 1024
        elif isinstance(self.records_per_chunk, str):
            if self.records_per_chunk == "auto":
                size = 100 * 2**20
            else:
                size = parse_bytes(self.records_per_chunk)

            self.records_per_chunk = determine_nearest_chunksize(sizes, size)
        else:
            self.records_per_chunk = normalize_chunksize(self.records_per_chunk, self.shape[0])
        self.chunk_offsets = compute_chunk_offsets(self.byte_ranges, self.records_per_chunk)

    def __eq__(self, other):
        if type(self) is not type(other):
            return False

        return (
            self.url == other.url
            and self.fs == other.fs
            and self.byte_ranges == other.byte_ranges
            and self.shape == other.shape
            and self.dtype == other.dtype
            and self.records_per_chunk == other.records_per_chunk
            and self.type_code == other.type_code
        )

    def __getitem__(self, indexers):
        selected_ranges = compute_selected_ranges(self.byte_ranges, indexers[0])
        grouped = groupby_chunks(selected_ranges, chunksize=self.records_per_chunk)
        merged = merge_chunk_info(grouped, chunk_offsets=self.chunk_offsets)
        tasks = [relocate_ranges(info, ranges) for info, ranges in merged]

        with self.fs.open(self.url, mode="rb") as f:
            data_ = []
            for chunk_info, ranges in tasks:
                chunk = read_chunk(f, **chunk_info)
                raw_bytes = extract_ranges(chunk, ranges)
                chunk_data = [parse_data(part, type_code=self.type_code) for part in raw_bytes]
                data_.extend(chunk_data)

            if data_:
                data = np.stack(data_, axis=0)
            else:
                # empty selection: nothing to stack
                data = np.empty((0, *self.shape[1:]), dtype=self.dtype)

        # an integer selects a single row and drops the axis
        row_indexer = 0 if isinstance(indexers[0], int) else slice(None)
        new_indexers = tuple(cons(row_indexer, indexers[1:]))
        return data[new_indexers]

    @property
    def ndim(self):
        return len(self.shape)

    @property
    def chunks(self):
        return (self.records_per_chunk, *self.shape[1:])
