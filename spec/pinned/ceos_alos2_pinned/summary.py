import re

from tlz.dicttoolz import dissoc, keyfilter, keymap, merge, valmap
from tlz.functoolz import compose_left, curry, pipe
from tlz.functoolz import identity as passthrough
from tlz.itertoolz import first, get, groupby, second

from ceos_alos2_pinned import decoders
from ceos_alos2_pinned.dicttoolz import apply_to_items
from ceos_alos2_pinned.hierarchy import Group
from ceos_alos2_pinned.utils import remove_nesting_layer, rename

try:
    ExceptionGroup
except NameError:  # pragma: no cover
    from exceptiongroup import ExceptionGroup  # pragma: no cover

entry_re = re.compile(r'(?P<section>[A-Za-z]{3})_(?P<keyword>.*?)="(?P<value>.*?)"')

section_names = {
    "odi": "ordering_information",
    "scs": "scene_specification",
    "pds": "product_specification",
    "img": "image_information",
    "pdi": "product_information",
    "ach": "autocheck",
    "rad": "result_information",
    "lbi": "label_information",
}


def parse_line(line):
    match = entry_re.fullmatch(line)
    if match is None:
        raise ValueError("invalid line")

    return match.groupdict()


def with_lineno(e, lineno):
    message = e.args[0]

    e.args = (f"line {lineno:02d}: {message}",) + e.args[1:]

    return e


def parse_summary(content):
    lines = content.splitlines()

    entries = []
    errors = {}
    for lineno, line in enumerate(lines):
        try:
            parsed = parse_line(line)
            entries.append(parsed)
        except ValueError as e:
            errors[lineno] = e

    if errors:
        new_errors = [with_lineno(error, lineno) for lineno, error in errors.items()]
        raise ExceptionGroup("failed to parse the summary", new_errors)

    merged = pipe(
        entries,
        curry(groupby, curry(get, "section")),
        curry(
            valmap,
            compose_left(curry(map, lambda x: {x["keyword"]: x["value"]}), merge),
        ),
    )
    return keymap(str.lower, merged)


def categorize_filenames(mapping):
    def file_index(item):
        # the roles follow the file index in the key (`...ProductFileName01`), not the order of the lines
        match = re.search(r"[0-9]+$", item[0])
        return int(match.group()) if match else 0

    filenames = [value for _, value in sorted(mapping.items(), key=file_index)]
    volume_directory, leader, *imagery, trailer = filenames
    return {
        "volume_directory": volume_directory,
        "sar_leader": leader,
        "sar_imagery": imagery,
        "sar_trailer": trailer,
    }


def reformat_date(s):
    return f"{s[:4]}-{s[4:6]}-{s[6:]}"


def to_isoformat(s):
    date, time = s.split()
    return f"{reformat_date(date)}T{time}"


def transform_ordering_info(section):
    # TODO: figure out what this means or what it would be used for
    return Group(path=None, url=None, data={}, attrs=section)


def transform_scene_spec(section):
    transformers = {
        "SceneID": compose_left(
            decoders.decode_scene_id,
            curry(
                apply_to_items,
                {
                    "date": lambda d: d.isoformat().split("T")[0],
                    "scene_frame": int,
                    "orbit_accumulation": int,
                },
            ),
        ),
        "SceneShift": int,
    }
    attrs = remove_nesting_layer(apply_to_items(transformers, section))
    return Group(path=None, url=None, data={}, attrs=attrs)


def transform_product_spec(section):
    transformers = {
        "ProductID": decoders.decode_product_id,
        "ResamplingMethod": curry(decoders.lookup, decoders.resampling_methods),
        "UTM_ZoneNo": int,
        "MapDirection": passthrough,
        "OrbitDataPrecision": passthrough,
        "AttitudeDataPrecision": passthrough,
    }

    attrs = remove_nesting_layer(apply_to_items(transformers, section, default=float))
    return Group(path=None, url=None, data={}, attrs=attrs)


def transform_image_info(section):
    def determine_type(key):
        if "DateTime" in key:
            return "datetime"
        else:
            return "float"

    transformers = {
        "datetime": to_isoformat,
        "float": float,
    }
    attrs = {k: transformers[determine_type(k)](v) for k, v in section.items()}
    return Group(path=None, url=None, data={}, attrs=attrs)


def transform_product_info(section):
    def categorize_key(item):
        key, _ = item
        if "ProductFileName" in key:
            return "data_files"
        elif key.startswith(("NoOfPixels", "NoOfLines")):
            return "shapes"
        else:
            return "other"

    def transform_file_info(mapping):
        filenames = keyfilter(lambda k: not k.startswith("Cnt"), mapping)
        categorized = categorize_filenames(filenames)

        return Group(path="data_files", url=None, data={}, attrs=categorized)

    def transform_shape(mapping):
        split_keys = keymap(lambda k: tuple(k.split("_")), mapping)
        grouped = groupby(lambda it: second(it[0]), split_keys.items())
        shapes = valmap(
            compose_left(
                dict,
                curry(keymap, first),
                curry(get, ["NoOfPixels", "NoOfLines"]),
                curry(map, int),
                tuple,
            ),
            grouped,
        )

        return Group(path="shapes", url=None, data={}, attrs=shapes)

    def transform_other(mapping):
        transformers = {
            "ProductFormat": passthrough,
            "BitPixel": int,
            "ProductDataSize": float,
        }

        return apply_to_items(transformers, mapping)

    categorized = valmap(dict, groupby(categorize_key, section.items()))
    transformers = {
        "data_files": transform_file_info,
        "shapes": transform_shape,
        "other": transform_other,
    }
    groups = apply_to_items(transformers, categorized)
    return Group(
        path="product_info", url=None, data=dissoc(groups, "other"), attrs=groups.get("other", {})
    )


def transform_autocheck(section):
    attrs = valmap(lambda s: s or "N/A", section)

    return Group(path=None, url=None, data={}, attrs=attrs)


def transform_result_info(section):
    return Group(path=None, url=None, data={}, attrs=section)


def transform_label_info(section):
    transformers = {
        "ObservationDate": reformat_date,
        "ProcessFacility": curry(decoders.lookup, decoders.processing_facilities),
    }
    attrs = apply_to_items(transformers, section)
    return Group(path=None, url=None, data={}, attrs=attrs)


def transform_summary(summary):
    transformers = {
        "odi": transform_ordering_info,
        "scs": transform_scene_spec,
        "pds": transform_product_spec,
        "img": transform_image_info,
        "pdi": transform_product_info,
        "ach": transform_autocheck,
        "rad": transform_result_info,
        "lbi": transform_label_info,
    }

    return pipe(
        summary,
        curry(apply_to_items, transformers),
        curry(rename, translations=section_names),
        curry(Group, "summary", None, attrs={}),
    )


def open_summary(mapper, path):
    try:
        bytes_ = mapper[path]
    except KeyError as e:
        raise OSError(
            f"Cannot find the summary file (`{path}`)."
            f" Make sure the dataset at {mapper.root} is complete and in the JAXA CEOS format."
        ) from e

    raw_summary = parse_summary(bytes_.decode())

    return transform_summary(raw_summary)
