from construct import Struct, this

from ceos_alos2_pinned.common import record_preamble
from ceos_alos2_pinned.datatypes import AsciiInteger, PaddedString

small_record_info = Struct(
    "number_of_records" / AsciiInteger(6),
    "record_length" / AsciiInteger(6),
)
big_record_info = Struct(
    "number_of_records" / AsciiInteger(6),
    "record_length" / AsciiInteger(8),
)
low_res_image_size = Struct(
    "record_length" / AsciiInteger(8),
    "number_of_pixels" / AsciiInteger(6),
    "number_of_lines" / AsciiInteger(6),
    "number_of_bytes_per_one_sample" / AsciiInteger(6),
)
file_descriptor_record = Struct(
    "preamble" / record_preamble,
    "ascii_ebcdic_code" / PaddedString(2),
    "blanks1" / PaddedString(2),
    "format_control_document_id" / PaddedString(12),
    "format_control_document_revision_number" / PaddedString(2),
    "record_format_revision_level" / PaddedString(2),
    "software_release_and_revision_number" / PaddedString(12),
    "file_number" / AsciiInteger(4),
    "file_id" / PaddedString(16),
    "record_sequence_and_location_type_flag" / PaddedString(4),
    "sequence_number_of_location" / AsciiInteger(8),
    "field_length_of_sequence_number" / AsciiInteger(4),
    "record_code_and_location_type_flag" / PaddedString(4),
    "location_of_record_code" / AsciiInteger(8),
    "field_length_of_record_code" / AsciiInteger(4),
    "record_length_and_location_type_flag" / PaddedString(4),
    "location_of_record_length" / AsciiInteger(8),
    "field_length_of_record_length" / AsciiInteger(4),
    "blanks1" / PaddedString(68),
    "dataset_summary" / small_record_info,
    "map_projection" / small_record_info,
    "platform_position" / small_record_info,
    "attitude" / small_record_info,
    "radiometric_data" / small_record_info,
    "radiometric_compensation" / small_record_info,
    "data_quality_summary" / small_record_info,
    "data_histogram" / small_record_info,
    "range_spectra" / small_record_info,
    "dem_descriptor" / small_record_info,
    "radar_parameter_update" / small_record_info,
    "annotation_data" / small_record_info,
    "detail_processing" / small_record_info,
    "calibration" / small_record_info,
    "gcp" / small_record_info,
    "spare" / PaddedString(60),
    "facility_related_data_1" / big_record_info,
    "facility_related_data_2" / big_record_info,
    "facility_related_data_3" / big_record_info,
    "facility_related_data_4" / big_record_info,
    "facility_related_data_5" / big_record_info,
    "number_of_low_resolution_images" / AsciiInteger(6),
    "low_resolution_image_sizes" / low_res_image_size[this.number_of_low_resolution_images],
    "blanks"
    / PaddedString(720 - 522 - this.number_of_low_resolution_images * low_res_image_size.sizeof()),
)
