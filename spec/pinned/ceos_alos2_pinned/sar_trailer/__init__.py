import itertools

from ceos_alos2_pinned.sar_trailer.file_descriptor import file_descriptor_record
from ceos_alos2_pinned.sar_trailer.image_data import parse_image_data


def read_sar_trailer(f):
    header = file_descriptor_record.parse(f.read(720))
    data = f.read()

    data_sizes = [record["record_length"] for record in header.low_resolution_image_sizes]
    offsets = list(itertools.accumulate(data_sizes, initial=0))

    ranges = list(zip(offsets, offsets[1:]))
    shapes = [
        (record["number_of_pixels"], record["number_of_lines"])
        for record in header.low_resolution_image_sizes
    ]
    n_bytes = [
        record["number_of_bytes_per_one_sample"] for record in header.low_resolution_image_sizes
    ]

    low_res_images = [
        parse_image_data(data[start:stop], shape, n_bytes_)
        for (start, stop), shape, n_bytes_ in zip(ranges, shapes, n_bytes)
    ]

    return header, low_res_images
