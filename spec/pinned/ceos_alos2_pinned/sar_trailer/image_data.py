import numpy as np


def parse_image_data(content, shape, n_bytes):
    dtype = np.dtype(f">i{n_bytes}")

    return np.frombuffer(content, dtype).reshape(shape)
