import copy

from tlz.dicttoolz import assoc as assoc_
from tlz.dicttoolz import assoc_in, get_in, keyfilter
from tlz.functoolz import identity as passthrough
from tlz.itertoolz import concat, groupby

from ceos_alos2_pinned.utils import unique

sentinel = object()


def itemsplit(predicate, d):
    groups = groupby(predicate, d.items())
    first = dict(groups.get(True, ()))
    second = dict(groups.get(False, ()))
    return first, second


def valsplit(predicate, d):
    wrapper = lambda item: predicate(item[1])
    return itemsplit(wrapper, d)


def keysplit(predicate, d):
    wrapper = lambda item: predicate(item[0])
    return itemsplit(wrapper, d)


def assoc(key, value, d):
    return assoc_(d, key, value)


def dissoc(keys, d):
    return keyfilter(lambda k: k not in keys, d)


def zip_default(*mappings, default=None):
    all_keys = unique(concat(map(list, mappings)))

    return {k: [m.get(k, default) for m in mappings] for k in all_keys}


def apply_to_items(funcs, mapping, default=passthrough):
    return {k: funcs.get(k, default)(v) for k, v in mapping.items()}


def copy_items(instructions, mapping):
    new = mapping
    for dest, source in instructions.items():
        value = get_in(source, mapping, default=sentinel)
        if value is sentinel:
            continue

        new = assoc_in(new, list(dest), value)

    return new


def move_items(instructions, mapping):
    copied = copy.deepcopy(copy_items(instructions, mapping))

    for *head, tail in instructions.values():
        subset = get_in(list(head), copied, default=sentinel)
        if subset is sentinel:
            continue
        subset.pop(tail, None)

    return copied


def key_exists(key, mapping):
    if "." in key:
        key = key.split(".")
    elif not isinstance(key, list):
        key = [key]

    value = get_in(key, mapping, default=sentinel)
    return value is not sentinel
