import copy
import posixpath
from collections.abc import Mapping
from dataclasses import dataclass
from typing import Any

import numpy as np
from numpy.typing import ArrayLike
from tlz.dicttoolz import valfilter

from ceos_alos2_pinned.array import Array


@dataclass(frozen=True)
class Variable:
    dims: str | list[str]
    data: Array | ArrayLike
    attrs: dict[str, Any]

    def __post_init__(self):
        if isinstance(self.dims, str):
            # normalize, need the hack
            super().__setattr__("dims", [self.dims])

    def __eq__(self, other):
        if not isinstance(other, Variable):
            return False

        if self.dims != other.dims:
            return False
        if type(self.data) is not type(other.data):
            return False
        if self.attrs != other.attrs:
            return False

        if isinstance(self.data, Array):
            return self.data == other.data
        else:
            return np.all(self.data == other.data)

    @property
    def ndim(self):
        return self.data.ndim

    @property
    def shape(self):
        return self.data.shape

    @property
    def dtype(self):
        return self.data.dtype

    @property
    def chunks(self):
        if not isinstance(self.data, Array):
            return {}

        return dict(zip(self.dims, self.data.chunks))

    @property
    def sizes(self):
        return dict(zip(self.dims, self.data.shape))


@dataclass
class Group(Mapping):
    path: str | None
    url: str
    data: dict[str, "Group | Variable"]
    attrs: dict[str, Any]

    def __post_init__(self):
        if self.path is None:
            self.path = "/"  # or raise

        self.data = {name: self._adjust_item(name, value) for name, value in self.data.items()}

    def _adjust_item(self, name, value):
        new_value = copy.copy(value)
        if not isinstance(value, Group):
            return new_value

        new_value.path = posixpath.join(self.path, name)

        if new_value.url is None:
            new_value.url = self.url

        new_value.data = {
            name: new_value._adjust_item(name, item) for name, item in new_value.data.items()
        }

        return new_value

    def __getitem__(self, item):
        return self.data[item]

    def __setitem__(self, item, value):
        self.data[item] = self._adjust_item(item, value)

    @property
    def name(self):
        if self.path == "/" or "/" not in self.path:
            return self.path

        _, name = self.path.rsplit("/", 1)
        return name

    def __len__(self):
        return len(self.data.keys())

    def __iter__(self):
        yield from self.data.keys()

    @property
    def groups(self):
        return valfilter(lambda el: isinstance(el, Group), self.data)

    @property
    def variables(self):
        return valfilter(lambda el: isinstance(el, Variable), self.data)

    def __eq__(self, other):
        if not isinstance(other, Group):
            return False

        if self.path != other.path:
            return False
        if self.url != other.url:
            return False
        if list(self.variables) != list(other.variables):
            # same variable names
            return False
        if list(self.groups) != list(other.groups):
            return False
        if self.attrs != other.attrs:
            return False

        for name, var in self.variables.items():
            if var == other.data[name]:
                continue

            return False

        for name, group in self.groups.items():
            if group == other.data[name]:
                continue

            return False

        return True

    def decouple(self):
        return Group(path=self.path, url=self.url, data=self.variables, attrs=self.attrs)

    @property
    def subtree(self):
        yield self.path, self.decouple()

        for item in self.data.values():
            if isinstance(item, Group):
                yield from item.subtree
