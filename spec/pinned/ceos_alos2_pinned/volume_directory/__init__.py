from ceos_alos2_pinned.volume_directory.io import open_volume_directory  # noqa: F401
