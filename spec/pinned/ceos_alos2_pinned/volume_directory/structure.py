from construct import Struct, this

from ceos_alos2_pinned.common import record_preamble
from ceos_alos2_pinned.datatypes import AsciiInteger, PaddedString

volume_descriptor = Struct(
    "preamble" / record_preamble,
    "ascii_ebcdic_flag" / PaddedString(2),
    "blanks" / PaddedString(2),
    "superstructure_format_control_document_id" / PaddedString(12),
    "superstructure_format_control_document_revision_level" / PaddedString(2),
    "superstructure_record_format_revision_level" / PaddedString(2),
    "software_release_and_revision_level" / PaddedString(12),
    "physical_volume_id" / PaddedString(16),
    "logical_volume_id" / PaddedString(16),
    "volume_set_id" / PaddedString(16),
    "total_number_of_physical_volumes_in_logical_volume" / AsciiInteger(2),
    "physical_volume_sequence_number_of_the_first_tape" / AsciiInteger(2),
    "physical_volume_sequence_number_of_the_last_tape" / AsciiInteger(2),
    "physical_volume_sequence_number_of_the_current_tape" / AsciiInteger(2),
    "file_number_in_the_logical_volume" / AsciiInteger(4),
    "logical_volume_within_a_volume_set" / AsciiInteger(4),
    "logical_volume_number_within_physical_volume" / AsciiInteger(4),
    "logical_volume_creation_datetime" / PaddedString(16),  # merged two entries
    "logical_volume_generation_country" / PaddedString(12),
    "logical_volume_generating_agency" / PaddedString(8),
    "logical_volume_generating_facility" / PaddedString(12),
    "number_of_file_pointer_records" / AsciiInteger(4),
    "number_of_text_records_in_volume_directory" / AsciiInteger(4),
    "spare" / PaddedString(92),
    "local_use_segment" / PaddedString(100),
)

file_descriptor = Struct(
    "preamble" / record_preamble,
    "ascii_ebcdic_flag" / PaddedString(2),
    "blanks" / PaddedString(2),
    "referenced_file_number" / AsciiInteger(4),
    "referenced_file_name_id" / PaddedString(16),
    "referenced_file_class" / PaddedString(28),
    "referenced_file_class_code" / PaddedString(4),
    "referenced_file_data_type" / PaddedString(28),
    "referenced_file_data_type_code" / PaddedString(4),
    "number_of_records_in_referenced_file" / AsciiInteger(8),
    "length_of_the_first_record_in_referenced_file" / AsciiInteger(8),
    "maximum_record_length_in_referenced_file" / AsciiInteger(8),
    "referenced_file_record_length_type" / PaddedString(12),
    "referenced_file_record_length_type_code" / PaddedString(4),
    "number_of_the_physical_volume_set_containing_the_first_record_of_the_file" / AsciiInteger(2),
    "number_of_the_physical_volume_set_containing_the_last_record_of_the_file" / AsciiInteger(2),
    "record_number_of_the_first_record_appearing_on_this_physical_volume" / AsciiInteger(8),
    "record_number_of_the_last_record_appearing_on_this_physical_volume" / AsciiInteger(8),
    "spare" / PaddedString(100),
    "local_use_segment" / PaddedString(100),
)

text_record = Struct(
    "preamble" / record_preamble,
    "ascii_ebcdic_flag" / PaddedString(2),
    "blanks" / PaddedString(2),
    "product_id" / PaddedString(40),
    "location_and_datetime_of_product_creation" / PaddedString(60),
    "physical_tape_id" / PaddedString(40),
    "scene_id" / PaddedString(40),
    "scene_location_id" / PaddedString(40),
    "blanks" / PaddedString(124),
)

volume_directory_record = Struct(
    "volume_descriptor" / volume_descriptor,
    "file_descriptors" / file_descriptor[this.volume_descriptor.number_of_file_pointer_records],
    "text_record" / text_record,
)
