from tlz.functoolz import curry, pipe

from ceos_alos2_pinned.dicttoolz import apply_to_items, dissoc
from ceos_alos2_pinned.hierarchy import Group
from ceos_alos2_pinned.transformers import normalize_datetime
from ceos_alos2_pinned.utils import remove_nesting_layer, rename


def transform_volume_descriptor(mapping):
    ignored = [
        "preamble",
        "ascii_ebcdic_flag",
        "blanks",
        "spare",
        "local_use_segment",
        "total_number_of_physical_volumes_in_logical_volume",
        "physical_volume_sequence_number_of_the_first_tape",
        "physical_volume_sequence_number_of_the_last_tape",
        "physical_volume_sequence_number_of_the_current_tape",
        "file_number_in_the_logical_volume",
        "logical_volume_within_a_volume_set",
        "logical_volume_number_within_physical_volume",
        "number_of_file_pointer_records",
        "number_of_text_records_in_volume_directory",
    ]

    translations = {
        "superstructure_format_control_document_id": "control_document_id",
        "superstructure_format_control_document_revision_level": "control_document_revision_level",
        "superstructure_record_format_revision_level": "record_format_revision_level",
        "software_release_and_revision_level": "software_version",
        "logical_volume_creation_datetime": "creation_datetime",
        "logical_volume_generation_country": "creation_country",
        "logical_volume_generating_agency": "creation_agency",
        "logical_volume_generating_facility": "creation_facility",
    }

    postprocessors = {
        "creation_datetime": normalize_datetime,
    }

    return pipe(
        mapping,
        curry(dissoc, ignored),
        curry(rename, translations=translations),
        curry(apply_to_items, postprocessors),
    )


def transform_text(mapping):
    ignored = ["preamble", "ascii_ebcdic_flag", "blanks", "physical_tape_id"]

    translations = {
        "location_and_datetime_of_product_creation": "product_creation",
    }

    transformed = pipe(
        mapping,
        curry(dissoc, ignored),
        curry(rename, translations=translations),
    )

    return transformed


def transform_record(mapping):
    ignored = ["file_descriptors"]

    transformers = {
        "volume_descriptor": transform_volume_descriptor,
        "text_record": transform_text,
    }
    transformed = pipe(
        mapping,
        curry(dissoc, ignored),
        curry(apply_to_items, transformers),
        curry(remove_nesting_layer),
    )

    return Group(path=None, url=None, data={}, attrs=transformed)
