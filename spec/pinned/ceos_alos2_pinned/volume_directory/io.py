from ceos_alos2_pinned.utils import to_dict
from ceos_alos2_pinned.volume_directory.metadata import transform_record
from ceos_alos2_pinned.volume_directory.structure import volume_directory_record


def parse_data(data):
    return to_dict(volume_directory_record.parse(data))


def open_volume_directory(mapper, path):
    try:
        data = mapper[path]
    except KeyError as e:
        raise FileNotFoundError(f"Cannot open {path}") from e

    metadata = parse_data(data)

    return transform_record(metadata)
