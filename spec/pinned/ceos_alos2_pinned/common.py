from construct import Int8ub, Int32ub, Struct

record_preamble = Struct(
    "record_sequence_number" / Int32ub,
    "first_record_subtype" / Int8ub,
    "record_type" / Int8ub,
    "second_record_subtype" / Int8ub,
    "third_record_subtype" / Int8ub,
    "record_length" / Int32ub,
)
