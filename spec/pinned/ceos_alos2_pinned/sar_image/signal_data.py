from construct import Bytes, Computed, Int32ub, Int64ub, Seek, Struct, Tell, this

from ceos_alos2_pinned.common import record_preamble
from ceos_alos2_pinned.datatypes import (
    DatetimeYdms,
    DatetimeYdus,
    Factor,
    Metadata,
    StripNullBytes,
)
from ceos_alos2_pinned.sar_image.enums import (
    Flag,
    chirp_type_designator,
    platform_position_parameters_update,
    pulse_polarization,
    sar_channel_code,
    sar_channel_id,
)

signal_data_record = Struct(
    "record_start" / Tell,
    "preamble" / record_preamble,
    "sar_image_data_line_number" / Int32ub,
    "sar_image_data_record_index" / Int32ub,
    "actual_count_of_left_fill_pixels" / Int32ub,
    "actual_count_of_data_pixels" / Int32ub,
    "actual_count_of_right_fill_pixels" / Int32ub,
    "sensor_parameters_update_flag" / Int32ub,
    "sensor_acquisition_date"
    / DatetimeYdms(
        Struct(
            "year" / Int32ub,
            "day_of_year" / Int32ub,
            "milliseconds" / Int32ub,
        )
    ),
    "sar_channel_id" / sar_channel_id,
    "sar_channel_code" / sar_channel_code,
    "transmitted_pulse_polarization" / pulse_polarization,
    "received_pulse_polarization" / pulse_polarization,
    "prf" / Metadata(Int32ub, units="mHz"),
    "scan_id" / Int32ub,
    "onboard_range_compressed_flag" / Flag(2),
    "chirp_type_designator" / chirp_type_designator,
    "chirp_length" / Metadata(Int32ub, units="ns"),
    "chirp_constant_coefficient" / Metadata(Int32ub, units="Hz"),
    "chirp_linear_coefficient" / Metadata(Int32ub, units="Hz/µs"),
    "chirp_quadratic_coefficient" / Metadata(Int32ub, units="Hz/µs^2"),
    "sensor_acquisition_date_microseconds" / DatetimeYdus(Int64ub, this.sensor_acquisition_date),
    "receiver_gain" / Metadata(Int32ub, units="dB"),
    "invalid_line_flag" / Flag(4),
    "elevation_angle_at_nadir_of_antenna"
    / Struct(
        "electronic" / Metadata(Int32ub, units="deg"),
        "mechanic" / Metadata(Int32ub, units="deg"),
    ),
    "antenna_squint_angle"
    / Struct(
        "electronic" / Metadata(Int32ub, units="deg"),
        "mechanic" / Metadata(Int32ub, units="deg"),
    ),
    "slant_range_to_first_data_sample" / Metadata(Int32ub, units="m"),
    "data_record_window_position" / Metadata(Int32ub, units="ns"),
    "blanks1" / Int32ub,
    "platform_position_parameters_update_flag" / platform_position_parameters_update,
    "platform_latitude" / Metadata(Factor(Int32ub, 1e-6), units="deg"),
    "platform_longitude" / Metadata(Factor(Int32ub, 1e-6), units="deg"),
    "platform_altitude" / Metadata(Int32ub, units="deg"),
    "platform_ground_speed" / Metadata(Int32ub, units="cm/s"),
    "platform_velocity"
    / Struct(
        "x" / Metadata(Int32ub, units="cm/s"),
        "y" / Metadata(Int32ub, units="cm/s"),
        "z" / Metadata(Int32ub, units="cm/s"),
    ),
    "platform_acceleration"
    / Struct(
        "x" / Metadata(Int32ub, units="cm/s^2"),
        "y" / Metadata(Int32ub, units="cm/s^2"),
        "z" / Metadata(Int32ub, units="cm/s^2"),
    ),
    "platform_track_angle" / Metadata(Factor(Int32ub, 1e-6), units="deg"),
    "platform_true_track_angle" / Metadata(Factor(Int32ub, 1e-6), units="deg"),
    "platform_attitude"
    / Struct(
        "pitch" / Metadata(Factor(Int32ub, 1e-6), units="deg"),
        "roll" / Metadata(Factor(Int32ub, 1e-6), units="deg"),
        "yaw" / Metadata(Factor(Int32ub, 1e-6), units="deg"),
    ),
    "latitude_of_first_pixel" / Metadata(Factor(Int32ub, 1e-6), units="deg"),
    "latitude_of_center_pixel" / Metadata(Factor(Int32ub, 1e-6), units="deg"),
    "latitude_of_last_pixel" / Metadata(Factor(Int32ub, 1e-6), units="deg"),
    "longitude_of_first_pixel" / Metadata(Factor(Int32ub, 1e-6), units="deg"),
    "longitude_of_center_pixel" / Metadata(Factor(Int32ub, 1e-6), units="deg"),
    "longitude_of_last_pixel" / Metadata(Factor(Int32ub, 1e-6), units="deg"),
    "burst_number" / Int32ub,
    "line_number_in_this_burst" / Int32ub,
    "blanks2" / StripNullBytes(Bytes(60)),
    "alos2_frame_number" / Int32ub,
    "palsar_auxiliary_data" / StripNullBytes(Bytes(256)),
    "data"
    / Struct(
        "start" / Tell,
        "size" / Computed(this._.preamble.record_length - (this.start - this._.record_start)),
        "stop" / Seek(this._.record_start + this._.preamble.record_length),
    ),
)
