import math

import numpy as np
from tlz.dicttoolz import keyfilter, merge_with, valfilter, valmap
from tlz.functoolz import compose_left, curry, pipe
from tlz.itertoolz import cons, first, second

from ceos_alos2_pinned.dicttoolz import apply_to_items, dissoc, keysplit
from ceos_alos2_pinned.transformers import as_group, remove_spares, separate_attrs
from ceos_alos2_pinned.utils import remove_nesting_layer, rename, starcall


def extract_format_type(header):
    return header["prefix_suffix_data_locators"]["sar_data_format_type_code"]


def extract_shape(header):
    return (
        header["sar_related_data_in_the_record"]["number_of_lines_per_dataset"],
        header["sar_related_data_in_the_record"]["number_of_data_groups_per_line"],
    )


def extract_attrs(header):
    # valid attrs:
    # - pixel range (level 1.5)
    # - burst data per file (level 1.1 specan)
    # - lines per burst (level 1.1 specan)
    # - overlap lines with adjacent bursts (level 1.1 specan)
    ignored = ["preamble"]
    known_attrs = {
        "interleaving_id",
        "maximum_data_range_of_pixel",
        "number_of_burst_data",
        "number_of_lines_per_burst",
        "number_of_overlap_lines_with_adjacent_bursts",
    }
    transformers = {
        "maximum_data_range_of_pixel": lambda v: [0, v] if v != -1 and not math.isnan(v) else [],
        "number_of_burst_data": lambda v: v if v != -1 else [],
        "number_of_lines_per_burst": lambda v: v if v != -1 else [],
        "number_of_overlap_lines_with_adjacent_bursts": lambda v: v if v != -1 else [],
    }
    translations = {
        "maximum_data_range_of_pixel": "valid_range",
    }

    return pipe(
        header,
        curry(dissoc, ignored),
        curry(remove_nesting_layer),
        curry(keyfilter, lambda k: k in known_attrs),
        curry(apply_to_items, transformers),
        curry(rename, translations=translations),
        curry(valfilter, lambda v: not isinstance(v, list) or v),
    )


def apply_overrides(dtype_overrides, mapping):
    def _apply(v, dtype):
        dims, data, attrs = v

        return dims, np.array(data, dtype=dtype), attrs

    return {
        k: v if k not in dtype_overrides else _apply(v, dtype_overrides[k])
        for k, v in mapping.items()
    }


def deduplicate_attrs(known, mapping):
    variables, attrs = keysplit(lambda k: k not in known, mapping)

    return variables | valmap(compose_left(second, first), attrs)


def transform_line_metadata(metadata):
    ignored = [
        "preamble",
        "record_start",
        "actual_count_of_left_fill_pixels",
        "actual_count_of_right_fill_pixels",
        "actual_count_of_data_pixels",
        "alos2_frame_number",
        "palsar_auxiliary_data",
        "data",
    ]
    translations = {
        "sar_image_data_line_number": "rows",
    }
    dtype_overrides = {
        "sensor_acquisition_date": "datetime64[ns]",
        "sensor_acquisition_date_microseconds": "datetime64[ns]",
    }
    known_attrs = {
        "sar_image_data_record_index",
        "sensor_parameters_update_flag",
        "scan_id",
        "sar_channel_code",
        "sar_channel_id",
        "onboard_range_compressed_flag",
        "chirp_type_designator",
        "platform_position_parameters_update_flag",
        "alos2_frame_number",
        "geographic_reference_parameter_update_flag",
        "transmitted_pulse_polarization",
        "received_pulse_polarization",
    }
    merged = pipe(
        metadata,
        curry(starcall, curry(merge_with, list)),
        curry(remove_spares),
        curry(dissoc, ignored),
        curry(valmap, compose_left(separate_attrs, curry(cons, "rows"), tuple)),
        curry(deduplicate_attrs, known_attrs),
        curry(apply_overrides, dtype_overrides),
        curry(rename, translations=translations),
        curry(as_group),
    )
    return merged


dtypes = {
    "C*8": np.dtype("complex64"),
    "IU2": np.dtype("uint16"),
}


def transform_metadata(header, metadata):
    byte_ranges = [(m["data"]["start"], m["data"]["stop"]) for m in metadata]
    type_code = extract_format_type(header)

    shape = extract_shape(header)
    dtype = dtypes.get(type_code)
    if dtype is None:
        raise ValueError(f"unknown type code: {type_code}")

    header_attrs = extract_attrs(header)
    group = transform_line_metadata(metadata)
    group.attrs |= header_attrs | {"coordinates": list(group.variables)}

    array_metadata = {
        "type_code": type_code,
        "shape": shape,
        "dtype": str(dtype),
        "byte_ranges": byte_ranges,
    }

    return group, array_metadata
