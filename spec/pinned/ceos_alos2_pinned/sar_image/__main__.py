from ceos_alos2_pinned.sar_image.cli import main

if __name__ == "__main__":
    main()
