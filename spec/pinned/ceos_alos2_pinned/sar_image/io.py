import itertools
import math

from tlz.itertoolz import concat

from ceos_alos2_pinned.common import record_preamble
from ceos_alos2_pinned.sar_image.file_descriptor import file_descriptor_record
from ceos_alos2_pinned.sar_image.processed_data import processed_data_record
from ceos_alos2_pinned.sar_image.signal_data import signal_data_record
from ceos_alos2_pinned.utils import to_dict

record_types = {
    10: signal_data_record,
    11: processed_data_record,
}


def parse_chunk(content, element_size):
    n_elements = len(content) // element_size
    if n_elements * element_size != len(content):
        raise ValueError(
            f"sizes mismatch: chunksize is {n_elements * element_size}"
            f" but got {len(content)} bytes"
        )

    record_type = record_preamble.parse(content[:12]).record_type
    data_record = record_types.get(record_type)
    if data_record is None:
        raise ValueError(f"unknown record type code: {record_type}")

    parser = data_record[n_elements]
    return list(parser.parse(content))


def _adjust_offset(record, offset):
    record.record_start += offset
    record.data.start += offset
    record.data.stop += offset

    return record


def adjust_offsets(records, offset):
    return [_adjust_offset(record, offset) for record in records]


def read_file_descriptor(f):
    return file_descriptor_record.parse(f.read(720))


def read_metadata(f, records_per_chunk=1024):
    header = read_file_descriptor(f)

    n_records = header["number_of_sar_data_records"]
    record_size = header["sar_data_record_length"]

    n_chunks = math.ceil(n_records / records_per_chunk)
    chunksizes = [
        (
            records_per_chunk
            if records_per_chunk * (index + 1) <= n_records
            else n_records - records_per_chunk * index
        )
        for index in range(n_chunks)
    ]
    chunk_offsets = [
        offset * record_size + 720 for offset in itertools.accumulate(chunksizes, initial=0)
    ]

    raw_metadata = (
        parse_chunk(f.read(chunksize * record_size), record_size) for chunksize in chunksizes
    )
    adjusted = (
        adjust_offsets(records, offset=offset)
        for records, offset in zip(raw_metadata, chunk_offsets)
    )
    metadata = list(concat(adjusted))

    return to_dict(header), to_dict(metadata)
