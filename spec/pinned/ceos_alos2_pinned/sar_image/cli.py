import argparse
import pathlib
import sys

import fsspec

from ceos_alos2_pinned.sar_image import caching, open_image


def create_cache(image_path, cache_root, records_per_chunk):
    if not image_path.is_file():
        raise FileNotFoundError(f"Cannot find image file at given path: {image_path}")

    if cache_root is not None and not cache_root.is_dir():
        raise OSError(f"Cannot find the target cache root: {cache_root}")
    elif cache_root is None:
        cache_root = image_path.parent

    uri = image_path.parent.as_uri()
    mapper = fsspec.get_mapper(uri)
    path = image_path.name

    group = open_image(
        mapper, path, use_cache=False, create_cache=False, records_per_chunk=records_per_chunk
    )

    encoded = caching.encode(group)
    target = cache_root / f"{path}.index"

    target.write_text(encoded)


def main():
    parser = argparse.ArgumentParser()
    parser.add_argument(
        "--rpc",
        nargs="?",
        type=int,
        default=4096,
        help="records-per-chunk size used to create the cache files",
    )
    parser.add_argument(
        "image_path",
        type=pathlib.Path,
        help="image path to create a cache file for",
    )
    parser.add_argument(
        "cache_root",
        nargs="?",
        type=pathlib.Path,
        default=None,
        help=(
            "Root path to the new cache file. By default, it is created"
            " in the same directory as the image file."
        ),
    )
    args = parser.parse_args()

    try:
        create_cache(args.image_path, args.cache_root, records_per_chunk=args.rpc)
    except OSError as e:
        print(e.args[0], file=sys.stderr)
        sys.exit(1)
