from construct import Bytes, Computed, Int32ub, Seek, Struct, Tell, this

from ceos_alos2_pinned.common import record_preamble
from ceos_alos2_pinned.datatypes import DatetimeYdms, Factor, Metadata, StripNullBytes
from ceos_alos2_pinned.sar_image.enums import (
    pulse_polarization,
    sar_channel_code,
    sar_channel_id,
)

processed_data_record = Struct(
    "record_start" / Tell,
    "preamble" / record_preamble,
    "sar_image_data_line_number" / Int32ub,
    "sar_image_data_record_index" / Int32ub,
    "actual_count_of_left_fill_pixels" / Int32ub,
    "actual_count_of_data_pixels" / Int32ub,
    "actual_count_of_right_fill_pixels" / Int32ub,
    "sensor_parameters_update_flag" / Int32ub,
    "sensor_acquisition_date"
    / DatetimeYdms(
        Struct(
            "year" / Int32ub,
            "day_of_year" / Int32ub,
            "milliseconds" / Int32ub,
        )
    ),
    "sar_channel_id" / sar_channel_id,
    "sar_channel_code" / sar_channel_code,
    "transmitted_pulse_polarization" / pulse_polarization,
    "received_pulse_polarization" / pulse_polarization,
    "prf" / Metadata(Int32ub, units="mHz"),
    "scan_id" / Int32ub,
    "slant_range_to_first_pixel" / Metadata(Int32ub, units="m"),
    "slant_range_to_mid_pixel" / Metadata(Int32ub, units="m"),
    "slant_range_to_last_pixel" / Metadata(Int32ub, units="m"),
    "doppler_centroid_value_at_first_pixel" / Metadata(Factor(Int32ub, 1e-3), units="Hz"),
    "doppler_centroid_value_at_mid_pixel" / Metadata(Factor(Int32ub, 1e-3), units="Hz"),
    "doppler_centroid_value_at_last_pixel" / Metadata(Factor(Int32ub, 1e-3), units="Hz"),
    "azimuth_fm_rate_of_first_pixel" / Metadata(Int32ub, units="Hz/ms"),
    "azimuth_fm_rate_of_mid_pixel" / Metadata(Int32ub, units="Hz/ms"),
    "azimuth_fm_rate_of_last_pixel" / Metadata(Int32ub, units="Hz/ms"),
    "look_angle_of_nadir" / Metadata(Factor(Int32ub, 1e-6), units="deg"),
    "azimuth_squint_angle" / Metadata(Factor(Int32ub, 1e-6), units="deg"),
    "blanks1" / StripNullBytes(Bytes(20)),
    "geographic_reference_parameter_update_flag" / Int32ub,
    "latitude_of_first_pixel" / Metadata(Factor(Int32ub, 1e-6), units="deg"),
    "latitude_of_center_pixel" / Metadata(Factor(Int32ub, 1e-6), units="deg"),
    "latitude_of_last_pixel" / Metadata(Factor(Int32ub, 1e-6), units="deg"),
    "longitude_of_first_pixel" / Metadata(Factor(Int32ub, 1e-6), units="deg"),
    "longitude_of_center_pixel" / Metadata(Factor(Int32ub, 1e-6), units="deg"),
    "longitude_of_last_pixel" / Metadata(Factor(Int32ub, 1e-6), units="deg"),
    "northing_of_first_pixel" / Metadata(Int32ub, units="m"),
    "blanks2" / StripNullBytes(Bytes(4)),
    "northing_of_last_pixel" / Metadata(Int32ub, units="m"),
    "easting_of_first_pixel" / Metadata(Int32ub, units="m"),
    "blanks3" / StripNullBytes(Bytes(4)),
    "easting_of_last_pixel" / Metadata(Int32ub, units="m"),
    "line_heading" / Metadata(Factor(Int32ub, 1e-6), units="deg"),
    "blanks4" / StripNullBytes(Bytes(8)),
    "data"
    / Struct(
        "start" / Tell,
        "size" / Computed(this._.preamble.record_length - (this.start - this._.record_start)),
        "stop" / Seek(this._.record_start + this._.preamble.record_length),
    ),
)
