import json

from ceos_alos2_pinned.sar_image.caching.decoders import decode_hierarchy, postprocess
from ceos_alos2_pinned.sar_image.caching.encoders import encode_hierarchy, preprocess
from ceos_alos2_pinned.sar_image.caching.path import (
    local_cache_location,
    remote_cache_location,
)


class CachingError(FileNotFoundError):
    pass


def encode(obj):
    encoded = encode_hierarchy(obj)

    return json.dumps(preprocess(encoded))


def decode(cache, records_per_chunk):
    try:
        partially_decoded = json.loads(cache, object_hook=postprocess)
    except json.JSONDecodeError as e:
        # e.g. a cache file that was only partially written
        raise CachingError(f"cannot decode the cache: {e}") from e

    return decode_hierarchy(partially_decoded, records_per_chunk=records_per_chunk)


def read_cache(mapper, path, records_per_chunk):
    remote = remote_cache_location(mapper.root, path)
    local = local_cache_location(mapper.root, path)

    if local.is_file():
        return decode(local.read_text(), records_per_chunk=records_per_chunk)

    if remote in mapper:
        return decode(mapper[remote].decode(), records_per_chunk=records_per_chunk)

    raise CachingError(f"no cache found for {path}")


def create_cache(mapper, path, data):
    local = local_cache_location(mapper.root, path)

    # ensure the directory exists
    local.parent.mkdir(exist_ok=True, parents=True)

    encoded = encode(data)

    local.write_text(encoded)
