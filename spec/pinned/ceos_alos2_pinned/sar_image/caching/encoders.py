import numpy as np
from tlz.dicttoolz import valmap

from ceos_alos2_pinned.array import Array
from ceos_alos2_pinned.hierarchy import Group, Variable


def encode_timedelta(obj):
    units, _ = np.datetime_data(obj.dtype)

    return obj.astype("int64").tolist(), {"units": units}


def encode_datetime(obj):
    units, _ = np.datetime_data(obj.dtype)
    # works for any shape: 0-d, empty and n-d arrays have no `obj[0]` scalar; NaT cannot serve as reference
    flat = obj.reshape(-1)
    valid = flat[~np.isnat(flat)]
    reference = valid[0] if valid.size else np.datetime64(0, units)

    encoding = {"reference": str(reference), "units": units}
    encoded = (obj - reference).astype("int64").tolist()

    return encoded, encoding


def encode_array(obj):
    if isinstance(obj, Array):
        return {
            "__type__": "backend_array",
            "root": obj.fs.path,
            "url": obj.url,
            "shape": obj.shape,
            "dtype": str(obj.dtype),
            "byte_ranges": obj.byte_ranges,
            "type_code": obj.type_code,
        }

    if not isinstance(obj, np.ndarray):
        # the image reader stores per-line metadata as plain lists
        obj = np.asarray(obj)

    def default_encode(obj):
        return obj.tolist(), {}

    encoders = {
        "m": encode_timedelta,
        "M": encode_datetime,
    }
    encoder = encoders.get(obj.dtype.kind, default_encode)
    encoded, encoding = encoder(obj)

    return {
        "__type__": "array",
        "dtype": str(obj.dtype),
        "data": encoded,
        "encoding": encoding,
    }


def encode_variable(var):
    encoded_data = encode_array(var.data)

    return {
        "__type__": "variable",
        "dims": var.dims,
        "data": encoded_data,
        "attrs": var.attrs,
    }


def encode_group(group):
    def encode_entry(obj):
        if isinstance(obj, Group):
            return encode_group(obj)
        else:
            return encode_variable(obj)

    encoded_data = valmap(encode_entry, group.data)

    return {
        "__type__": "group",
        "url": group.url,
        "data": encoded_data,
        "path": group.path,
        "attrs": group.attrs,
    }


def encode_hierarchy(obj):
    if isinstance(obj, Group):
        return encode_group(obj)
    elif isinstance(obj, Variable):
        return encode_variable(obj)
    else:
        return obj


def preprocess(data):
    if isinstance(data, dict):
        return valmap(preprocess, data)
    elif isinstance(data, list):
        return list(map(preprocess, data))
    elif isinstance(data, tuple):
        return {"__type__": "tuple", "data": list(map(preprocess, data))}
    else:
        return data
