import hashlib

import platformdirs

project_name = "xarray-ceos-alos2"
cache_root = platformdirs.user_cache_path(project_name)


def hashsum(data, algorithm="sha256"):
    m = hashlib.new(algorithm)
    m.update(data.encode())
    return m.hexdigest()


def local_cache_location(remote_root, path):
    _, fname = f"/{path}".rsplit("/", 1)
    cache_name = f"{fname}.index"

    return cache_root / hashsum(remote_root) / cache_name


def remote_cache_location(remote_root, path):
    return f"{path}.index"
