import fsspec
import numpy as np
from tlz.dicttoolz import valmap
from tlz.functoolz import curry

from ceos_alos2_pinned.array import Array
from ceos_alos2_pinned.hierarchy import Group, Variable


def postprocess(obj):
    if obj.get("__type__") == "tuple":
        return tuple(obj["data"])

    return obj


def decode_datetime(obj):
    encoding = obj["encoding"]
    reference = np.array(encoding["reference"], dtype=obj["dtype"])
    offsets = np.array(obj["data"], dtype=f"timedelta64[{encoding['units']}]")

    return reference + offsets


def decode_array(encoded, records_per_chunk):
    def default_decode(obj):
        return np.array(obj["data"], dtype=obj["dtype"])

    if encoded.get("__type__") == "array":
        dtype = np.dtype(encoded["dtype"])
        decoders = {"M": decode_datetime}
        decoder = decoders.get(dtype.kind, default_decode)

        return decoder(encoded)

    mapper = fsspec.get_mapper(encoded["root"])
    from fsspec.implementations.dirfs import DirFileSystem

    fs = DirFileSystem(path=mapper.root, fs=mapper.fs)

    type_code = encoded["type_code"]
    url = encoded["url"]
    shape = encoded["shape"]
    dtype = encoded["dtype"]
    byte_ranges = encoded["byte_ranges"]
    return Array(
        fs=fs,
        url=url,
        byte_ranges=byte_ranges,
        shape=shape,
        dtype=dtype,
        type_code=type_code,
        records_per_chunk=records_per_chunk,
    )


def decode_variable(encoded, records_per_chunk):
    data = decode_array(encoded["data"], records_per_chunk=records_per_chunk)

    return Variable(dims=encoded["dims"], data=data, attrs=encoded["attrs"])


def decode_group(encoded, records_per_chunk):
    data = valmap(curry(decode_hierarchy, records_per_chunk=records_per_chunk), encoded["data"])

    return Group(path=encoded["path"], url=encoded["url"], data=data, attrs=encoded["attrs"])


def decode_hierarchy(encoded, records_per_chunk):
    type_ = encoded.get("__type__")

    decoders = {
        "group": decode_group,
        "variable": decode_variable,
    }
    decoder = decoders.get(type_)
    if decoder is None:
        return encoded

    return decoder(encoded, records_per_chunk=records_per_chunk)
