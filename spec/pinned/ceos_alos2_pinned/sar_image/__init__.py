from ceos_alos2_pinned.array import Array
from ceos_alos2_pinned.decoders import decode_filename
from ceos_alos2_pinned.hierarchy import Variable
from ceos_alos2_pinned.sar_image import caching
from ceos_alos2_pinned.sar_image.caching import CachingError
from ceos_alos2_pinned.sar_image.io import read_metadata
from ceos_alos2_pinned.sar_image.metadata import transform_metadata


def filename_to_groupname(path):
    info = decode_filename(path)
    scan_number = f"scan{info['scan_number']}" if "scan_number" in info else None
    polarization = info.get("polarization")
    parts = [polarization, scan_number]
    return "_".join([_ for _ in parts if _])


def open_image(mapper, path, *, use_cache=True, create_cache=False, records_per_chunk=None):
    if use_cache:
        try:
            return caching.read_cache(mapper, path, records_per_chunk=records_per_chunk)
        except CachingError:
            pass

    from fsspec.implementations.dirfs import DirFileSystem

    fs = DirFileSystem(path=mapper.root, fs=mapper.fs)

    with fs.open(path, mode="rb") as f:
        header, metadata = read_metadata(f, records_per_chunk)

        group, array_metadata = transform_metadata(header, metadata)

    group["data"] = Variable(
        dims=["rows", "columns"],
        data=Array(fs=fs, url=path, records_per_chunk=records_per_chunk, **array_metadata),
        attrs={},
    )
    group.path = filename_to_groupname(path)

    if create_cache:
        caching.create_cache(mapper, path, group)

    return group
