from construct import Struct

from ceos_alos2_pinned.common import record_preamble
from ceos_alos2_pinned.datatypes import AsciiInteger, PaddedString

file_descriptor_record = Struct(
    "preamble" / record_preamble,
    "ascii_ebcdic_flag" / PaddedString(2),
    "blanks1" / PaddedString(2),
    "format_control_document_id" / PaddedString(12),
    "format_control_document_revision_level" / PaddedString(2),
    "file_design_descriptor_revision_letter" / PaddedString(2),
    "software_release_and_revision_number" / PaddedString(12),
    "file_number" / AsciiInteger(4),
    "file_id" / PaddedString(16),
    "record_sequence_and_location_type_flag" / PaddedString(4),
    "location_sequence_number" / AsciiInteger(8),
    "field_length_of_sequence_number" / AsciiInteger(4),
    "record_code_and_location_type_flag" / PaddedString(4),
    "record_code_location" / AsciiInteger(8),
    "record_code_field_length" / AsciiInteger(4),
    "record_length_and_location_type_flag" / PaddedString(4),
    "record_length_location" / AsciiInteger(8),
    "record_length_field_length" / AsciiInteger(4),
    "reserved1" / PaddedString(1),
    "reserved2" / PaddedString(1),
    "reserved3" / PaddedString(1),
    "reserved4" / PaddedString(1),
    "blanks6" / PaddedString(64),
    "number_of_sar_data_records" / AsciiInteger(6),
    "sar_data_record_length" / AsciiInteger(6),
    "reserved5" / PaddedString(24),
    "sample_group_data"
    / Struct(
        "bit_length_per_sample" / AsciiInteger(4),
        "number_of_samples_per_data_group" / AsciiInteger(4),
        "number_of_bytes_per_data_group" / AsciiInteger(4),
        "justification_and_order_of_samples_within_data_group" / PaddedString(4),
    ),
    "sar_related_data_in_the_record"
    / Struct(
        "number_of_sar_channels" / AsciiInteger(4),
        "number_of_lines_per_dataset" / AsciiInteger(8),
        "number_of_left_border_pixels_per_line" / AsciiInteger(4),
        "number_of_data_groups_per_line" / AsciiInteger(8),
        "number_of_right_border_pixels_per_line" / AsciiInteger(4),
        "number_of_top_border_lines" / AsciiInteger(4),
        "number_of_bottom_border_lines" / AsciiInteger(4),
        "interleaving_id" / PaddedString(4),
    ),
    "record_data_in_the_file"
    / Struct(
        "number_of_physical_records_per_line" / AsciiInteger(2),
        "number_of_physical_records_per_multichannel_line_in_this_file" / AsciiInteger(2),
        "number_of_bytes_of_prefix_data_per_record" / AsciiInteger(4),
        "number_of_bytes_of_sar_data_per_record" / AsciiInteger(8),
        "number_of_bytes_of_suffix_data_per_record" / AsciiInteger(4),
        "prefix_suffix_repeat_flag" / PaddedString(4),
    ),
    "prefix_suffix_data_locators"
    / Struct(
        "sample_data_line_number_locator" / PaddedString(8),
        "sar_channel_number_locator" / PaddedString(8),
        "time_of_sar_data_line_locator" / PaddedString(8),
        "left_fill_count_locator" / PaddedString(8),
        "right_fill_count_locator" / PaddedString(8),
        "pad_pixels_present_indicator" / PaddedString(4),
        "blanks" / PaddedString(28),
        "sar_data_line_quality_code_locator" / PaddedString(8),
        "calibration_information_field_locator" / PaddedString(8),
        "gain_values_field_locator" / PaddedString(8),
        "bias_values_field_locator" / PaddedString(8),
        "sar_data_format_type_indicator" / PaddedString(28),
        "sar_data_format_type_code" / PaddedString(4),
        "number_of_left_fill_bits_within_pixel" / AsciiInteger(4),
        "number_of_right_fill_bits_within_pixel" / AsciiInteger(4),
        "maximum_data_range_of_pixel" / AsciiInteger(8),
        "number_of_burst_data" / AsciiInteger(4),
        "number_of_lines_per_burst" / AsciiInteger(4),
    ),
    "scansar_burst_data_information"
    / Struct(
        "number_of_overlap_lines_with_adjacent_bursts" / AsciiInteger(4),
        "blanks" / PaddedString(260),
    ),
)
