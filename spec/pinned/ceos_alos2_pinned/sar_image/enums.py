from construct import Adapter, Enum, Int8ub, Int16ub, Int32ub, Int64ub


class Flag(Adapter):
    bases = {
        1: Int8ub,
        2: Int16ub,
        4: Int32ub,
        8: Int64ub,
    }

    def __init__(self, size):
        base = self.bases.get(size)
        if base is None:
            raise ValueError(f"unsupported size: {size}")

        super().__init__(base)

    def _decode(self, obj, context, path):
        return bool(obj)

    def _encode(self, obj, context, path):
        return int(obj)


sar_channel_id = Enum(Int16ub, single_polarization=1, dual_polarization=2, full_polarization=4)
sar_channel_code = Enum(Int16ub, L=0, S=1, C=2, X=3, KU=4, KA=5)
pulse_polarization = Enum(Int16ub, horizontal=0, vertical=1)
chirp_type_designator = Enum(Int16ub, linear_fm_chirp=0, phase_modulators=1)
platform_position_parameters_update = Enum(Int32ub, repeat=0, update=1)
