import numpy as np
import numpy.typing
import xarray as xr
from xarray.backends import BackendArray
from xarray.backends.locks import SerializableLock
from xarray.core import indexing

from ceos_alos2_pinned import io
from ceos_alos2_pinned.array import Array


class LazilyIndexedWrapper(BackendArray):
    def __init__(self, array, lock):
        self.array = array
        self.lock = lock
        self.shape = array.shape
        self.dtype = np.dtype(array.dtype)

    def __getitem__(self, key: indexing.ExplicitIndexer) -> np.typing.ArrayLike:
        return indexing.explicit_indexing_adapter(
            key,
            self.shape,
            indexing.IndexingSupport.BASIC,
            self._raw_indexing_method,
        )

    def _raw_indexing_method(self, key: tuple) -> np.typing.ArrayLike:
        with self.lock:
            return self.array[key]


def extract_encoding(var):
    chunks = var.chunks

    if all(c is None for c in chunks.values()):
        return {}

    normalized_chunks = {
        dim: chunksize if chunksize not in (None, -1) else var.sizes[dim]
        for dim, chunksize in chunks.items()
    }

    return {"preferred_chunksizes": normalized_chunks}


def to_variable(var):
    # only need a read lock, we don't support writing
    # TODO: do we even need the lock?
    if isinstance(var.data, Array):
        lock = SerializableLock()
        data = indexing.LazilyIndexedArray(LazilyIndexedWrapper(var.data, lock))
    else:
        data = var.data

    return xr.Variable(var.dims, data, var.attrs, encoding=extract_encoding(var))


def decode_coords(ds):
    coords = ds.attrs.pop("coordinates", [])

    return ds.set_coords(coords)


def to_dataset(group, chunks=None):
    variables = {name: to_variable(var) for name, var in group.variables.items()}
    ds = xr.Dataset(variables, attrs=group.attrs).pipe(decode_coords)
    if chunks is None:
        return ds

    filtered_chunks = {dim: size for dim, size in chunks.items() if dim in ds.dims}
    return ds.chunk(filtered_chunks)


def to_datatree(group, chunks=None):
    mapping = {"/": to_dataset(group, chunks=chunks)} | {
        path: to_dataset(subgroup, chunks=chunks) for path, subgroup in group.subtree
    }
    return xr.DataTree.from_dict(mapping)


def open_alos2(path, chunks=None, backend_options={}):
    """Open CEOS ALOS2 datasets

    Parameters
    ----------
    path : str
        Path or URL to the dataset.
    chunks : int, dict, "auto" or None, optional
        If chunks is provided, it is used to load the new dataset into dask
        arrays. ``chunks=-1`` loads the dataset with dask using a single chunk
        for all arrays. ``chunks={}`` loads the dataset with dask using engine
        preferred chunks if exposed by the backend, otherwise with a single
        chunk for all arrays. ``chunks='auto'`` will use dask ``auto`` chunking
        taking into account the engine preferred chunks. See dask chunking for
        more details.
    backend_options : dict, optional
        Additional keyword arguments passed on to the low-level open function:

        - 'storage_options': Additional arguments for `fsspec.get_mapper`
        - 'use_cache': Make use of image cache files, if they exist. Default: True
        - 'create_cache': Create a local cache file after reading the image
          metadata. Default: False
        - 'records_per_chunk': The image metadata is stored line by line. In order to
          avoid sending potentially thousands of requests, read this many lines
          at once. Default: 1024

    Returns
    -------
    tree : xarray.DataTree
        The newly created datatree.
    """
    root = io.open(path, **backend_options)

    return to_datatree(root, chunks=chunks)
