import datetime as dt

from tlz.dicttoolz import keyfilter, merge_with, valmap
from tlz.functoolz import curry, pipe
from tlz.itertoolz import groupby, second

from ceos_alos2_pinned.hierarchy import Group, Variable


def normalize_datetime(string):
    return dt.datetime.strptime(string, "%Y%m%d%H%M%S%f").isoformat()


def remove_spares(mapping):
    def predicate(k):
        if not k.startswith(("spare", "blanks")):
            return True

        k_ = k.removeprefix("spare").removeprefix("blanks")

        return k_ and not k_.isdigit()

    def _recursive(value):
        if isinstance(value, list):
            return list(map(remove_spares, value))
        elif isinstance(value, dict):
            filtered = keyfilter(predicate, value)

            return valmap(_recursive, filtered)
        else:
            return value

    return _recursive(mapping)


def item_type(item):
    value = second(item)
    if (isinstance(value, tuple) and not isinstance(value[0], dict)) or isinstance(value, list):
        return "variable"
    elif isinstance(value, dict) or (isinstance(value, tuple) and isinstance(value[0], dict)):
        return "group"
    else:
        return "attribute"


def transform_nested(mapping):
    def _transform(value):
        if not isinstance(value, list) or not value or not isinstance(value[0], dict):
            return value

        return merge_with(list, *value)

    return pipe(
        mapping,
        curry(_transform),
        curry(valmap, _transform),
    )


def separate_attrs(data):
    if not isinstance(data, list) or not data or not isinstance(data[0], tuple):
        return data, {}

    values, metadata_ = zip(*data)
    metadata = metadata_[0]

    return list(values), metadata


def as_variable(value):
    if len(value) == 2:
        data, attrs = value
        dims = ()
    else:
        dims, data, attrs = value

    return Variable(dims, data, attrs)


def as_group(mapping):
    if isinstance(mapping, tuple):
        mapping, additional_attrs = mapping
    else:
        additional_attrs = {}

    grouped = valmap(dict, dict(groupby(item_type, mapping.items())))

    attrs = grouped.get("attribute", {})
    variables = valmap(as_variable, grouped.get("variable", {}))
    groups = valmap(as_group, grouped.get("group", {}))

    return Group(path=None, url=None, data=variables | groups, attrs=attrs | additional_attrs)
