import datetime
import re

from tlz.dicttoolz import merge
from tlz.functoolz import curry
from tlz.functoolz import identity as passthrough

from ceos_alos2_pinned.dicttoolz import valsplit

scene_id_re = re.compile(
    r"""(?x)
    (?P<mission_name>[A-Z0-9]{5})
    (?P<orbit_accumulation>[0-9]{5})
    (?P<scene_frame>[0-9]{4})
    -(?P<date>[0-9]{6})
    """
)
product_id_re = re.compile(
    r"""(?x)
    (?P<observation_mode>[A-Z]{3})
    (?P<observation_direction>[LR])
    (?P<processing_level>1\.0|1\.1|1\.5|3\.1)
    (?P<processing_option>[GR_])
    (?P<map_projection>[UPML_])
    (?P<orbit_direction>[AD])
    """
)
scan_info_re = re.compile(
    r"""(?x)
    (?P<processing_method>[BF])
    (?P<scan_number>[0-9])
    """
)
fname_re = re.compile(
    r"""(?x)
    (?P<filetype>[A-Z]{3})
    (-(?P<polarization>[HV]{2}))?
    -(?P<scene_id>[A-Z0-9]{14}-[0-9]{6})
    -(?P<product_id>[A-Z0-9._]{10})
    (-(?P<scan_info>[BF][0-9]))?
    """
)

observation_modes = {
    "SBS": "spotlight mode",
    "UBS": "ultra-fine mode single polarization",
    "UBD": "ultra-fine mode dual polarization",
    "HBS": "high-sensitive mode single polarization",
    "HBD": "high-sensitive mode dual polarization",
    "HBQ": "high-sensitive mode full (quad.) polarimetry",
    "FBS": "fine mode single polarization",
    "FBD": "fine mode dual polarization",
    "FBQ": "fine mode full (quad.) polarimetry",
    "WBS": "ScanSAR nominal 14MHz mode single polarization",
    "WBD": "ScanSAR nominal 14MHz mode dual polarization",
    "WWS": "ScanSAR nominal 28MHz mode single polarization",
    "WWD": "ScanSAR nominal 28MHz mode dual polarization",
    "VBS": "ScanSAR wide mode single polarization",
    "VBD": "ScanSAR wide mode dual polarization",
}
observation_directions = {"L": "left looking", "R": "right looking"}
processing_levels = {
    "1.0": "level 1.0",
    "1.1": "level 1.1",
    "1.5": "level 1.5",
    "3.1": "level 3.1",
}
processing_options = {"G": "geo-code", "R": "geo-reference", "_": "not specified"}
map_projections = {"U": "UTM", "P": "PS", "M": "MER", "L": "LCC", "_": "not specified"}
orbit_directions = {"A": "ascending", "D": "descending"}
processing_methods = {"F": "full aperture_method", "B": "SPECAN method"}
resampling_methods = {"NN": "nearest-neighbor", "BL": "bilinear", "CC": "cubic convolution"}
processing_facilities = {
    "SCMO": "spacecraft control mission operation system",
    "EICS": "earth intelligence collection and sharing system",
}


def parse_date(value):
    # strict YYMMDD: impossible dates must be rejected, not re-interpreted
    return datetime.datetime.strptime(value, "%y%m%d")


def lookup(mapping, code):
    value = mapping.get(code)
    if value is None:
        raise ValueError(f"invalid code {code!r}")

    return value


translations = {
    "observation_mode": curry(lookup, observation_modes),
    "observation_direction": curry(lookup, observation_directions),
    "processing_level": curry(lookup, processing_levels),
    "processing_option": curry(lookup, processing_options),
    "map_projection": curry(lookup, map_projections),
    "orbit_direction": curry(lookup, orbit_directions),
    "date": parse_date,
    "mission_name": passthrough,
    "orbit_accumulation": passthrough,
    "scene_frame": passthrough,
    "processing_method": curry(lookup, processing_methods),
    "scan_number": passthrough,
}


def decode_scene_id(scene_id):
    match = scene_id_re.fullmatch(scene_id)
    if match is None:
        raise ValueError(f"invalid scene id: {scene_id}")

    groups = match.groupdict()
    try:
        return {name: translations[name](value) for name, value in groups.items()}
    except ValueError as e:
        raise ValueError(f"invalid scene id: {scene_id}") from e


def decode_product_id(product_id):
    match = product_id_re.fullmatch(product_id)
    if match is None:
        raise ValueError(f"invalid product id: {product_id}")

    groups = match.groupdict()
    try:
        return {name: translations[name](value) for name, value in groups.items()}
    except ValueError as e:
        raise ValueError(f"invalid product id: {product_id}") from e


def decode_scan_info(scan_info):
    if scan_info is None:
        return {}

    match = scan_info_re.fullmatch(scan_info)
    if match is None:
        raise ValueError(f"invalid scan info: {scan_info}")

    groups = match.groupdict()
    return {name: translations[name](value) for name, value in groups.items()}


def decode_filename(fname):
    match = fname_re.fullmatch(fname)
    if match is None:
        raise ValueError(f"invalid file name: {fname}")

    parts = match.groupdict()
    translators = {
        "filetype": passthrough,
        "polarization": passthrough,
        "scene_id": decode_scene_id,
        "product_id": decode_product_id,
        "scan_info": decode_scan_info,
    }

    mapping = {name: translators[name](value) for name, value in parts.items()}
    scalars, mappings = valsplit(lambda x: not isinstance(x, dict), mapping)
    return scalars | merge(*mappings.values())
