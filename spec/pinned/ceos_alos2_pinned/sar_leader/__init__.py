from ceos_alos2_pinned.sar_leader.io import open_sar_leader  # noqa: F401
