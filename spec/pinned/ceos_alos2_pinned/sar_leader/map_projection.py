import operator

from construct import Struct
from tlz.dicttoolz import merge_with, valmap
from tlz.functoolz import curry, pipe
from tlz.itertoolz import cons, get, remove

from ceos_alos2_pinned.common import record_preamble
from ceos_alos2_pinned.datatypes import AsciiFloat, AsciiInteger, Metadata, PaddedString
from ceos_alos2_pinned.dicttoolz import apply_to_items, dissoc
from ceos_alos2_pinned.transformers import as_group, remove_spares
from ceos_alos2_pinned.utils import rename

projected_map_point = Struct(
    "northing" / Metadata(AsciiFloat(16), units="km"),
    "easting" / Metadata(AsciiFloat(16), units="km"),
)
geographic_map_point = Struct(
    "latitude" / Metadata(AsciiFloat(16), units="deg"),
    "longitude" / Metadata(AsciiFloat(16), units="deg"),
)
map_projection_record = Struct(
    "preamble" / record_preamble,
    "blanks" / PaddedString(16),
    "map_projection_general_information"
    / Struct(
        "map_projection_type" / PaddedString(32),
        "number_of_pixels_per_line" / AsciiInteger(16),
        "number_of_lines" / AsciiInteger(16),
        "inter_line_distance_in_output_scene" / Metadata(AsciiFloat(16), units="m"),
        "inter_pixel_distance_in_output_scene" / Metadata(AsciiFloat(16), units="m"),
        "angle_between_projection_aixs_from_true_north_at_processed_scene_center"
        / Metadata(AsciiFloat(16), units="deg"),
        "actual_platform_orbital_inclination" / Metadata(AsciiFloat(16), units="deg"),
        "actual_ascending_node" / Metadata(AsciiFloat(16), units="deg"),
        "distance_of_platform_at_input_scene_center_from_geocenter"
        / Metadata(AsciiFloat(16), units="m"),
        "geodetic_altitude_of_the_platform_relative_to_the_ellipsoid"
        / Metadata(AsciiFloat(16), units="m"),
        "actual_ground_speed_at_nadir_at_input_scene_center_time"
        / Metadata(AsciiFloat(16), units="m/s"),
        "platform_headings" / Metadata(AsciiFloat(16), units="deg"),
    ),
    "map_projection_ellipsoid_parameters"
    / Struct(
        "reference_ellipsoid" / PaddedString(32),
        "semimajor_axis" / Metadata(AsciiFloat(16), units="m"),
        "semiminor_axis" / Metadata(AsciiFloat(16), units="m"),
        "datum_shift_parameters"
        / Struct(
            "dx" / Metadata(AsciiFloat(16), units="m"),
            "dy" / Metadata(AsciiFloat(16), units="m"),
            "dz" / Metadata(AsciiFloat(16), units="m"),
            "rotation_angle_1" / Metadata(AsciiFloat(16), units="deg"),
            "rotation_angle_2" / Metadata(AsciiFloat(16), units="deg"),
            "rotation_angle_3" / Metadata(AsciiFloat(16), units="deg"),
        ),
        "scale_factor" / AsciiFloat(16),
    ),
    "map_projection_designator" / PaddedString(32),
    "utm_projection"
    / Struct(
        "type" / PaddedString(32),
        "zone_number" / PaddedString(4),
        "map_origin"
        / Struct(
            "false_easting" / Metadata(AsciiFloat(16), units="m"),
            "false_northing" / Metadata(AsciiFloat(16), units="m"),
        ),
        "center_of_projection"
        / Struct(
            "longitude" / Metadata(AsciiFloat(16), units="deg"),
            "latitude" / Metadata(AsciiFloat(16), units="deg"),
        ),
        "blanks1" / PaddedString(16),
        "blanks2" / PaddedString(16),
        "scale_factor" / AsciiFloat(16),
    ),
    "ups_projection"
    / Struct(
        "type" / PaddedString(32),
        "center_of_projection"
        / Struct(
            "longitude" / Metadata(AsciiFloat(16), units="deg"),
            "latitude" / Metadata(AsciiFloat(16), units="deg"),
        ),
        "scale_factor" / AsciiFloat(16),
    ),
    "national_system_projection"
    / Struct(
        "projection_descriptor" / PaddedString(32),
        "map_origin"
        / Struct(
            "false_easting" / Metadata(AsciiFloat(16), units="m"),
            "false_northing" / Metadata(AsciiFloat(16), units="m"),
        ),
        "center_of_projection"
        / Struct(
            "longitude" / Metadata(AsciiFloat(16), units="deg"),
            "latitude" / Metadata(AsciiFloat(16), units="deg"),
        ),
        "standard_parallel"
        / Struct(
            "phi1" / Metadata(AsciiFloat(16), units="deg"),
            "phi2" / Metadata(AsciiFloat(16), units="deg"),
        ),
        "standard_parallel2"
        / Struct(
            "param1" / Metadata(AsciiFloat(16), units="deg"),
            "param2" / Metadata(AsciiFloat(16), units="deg"),
        ),
        "central_meridian"
        / Struct(
            "param1" / Metadata(AsciiFloat(16), units="deg"),
            "param2" / Metadata(AsciiFloat(16), units="deg"),
            "param3" / Metadata(AsciiFloat(16), units="deg"),
        ),
        "blanks" / PaddedString(64),
    ),
    "corner_points"
    / Struct(
        "projected"
        / Struct(
            "top_left_corner" / projected_map_point,
            "top_right_corner" / projected_map_point,
            "bottom_right_corner" / projected_map_point,
            "bottom_left_corner" / projected_map_point,
        ),
        "geographic"
        / Struct(
            "top_left_corner" / geographic_map_point,
            "top_right_corner" / geographic_map_point,
            "bottom_right_corner" / geographic_map_point,
            "bottom_left_corner" / geographic_map_point,
        ),
        "terrain_heights_relative_to_ellipsoid"
        / Struct(
            "top_left_corner" / Metadata(AsciiFloat(16), units="deg"),
            "top_right_corner" / Metadata(AsciiFloat(16), units="deg"),
            "bottom_right_corner" / Metadata(AsciiFloat(16), units="deg"),
            "bottom_left_corner" / Metadata(AsciiFloat(16), units="deg"),
        ),
    ),
    "conversion_coefficients"
    / Struct(
        "map_projection_to_pixels"
        / Metadata(
            Struct(
                "A11" / AsciiFloat(20),
                "A12" / AsciiFloat(20),
                "A13" / AsciiFloat(20),
                "A14" / AsciiFloat(20),
                "A21" / AsciiFloat(20),
                "A22" / AsciiFloat(20),
                "A23" / AsciiFloat(20),
                "A24" / AsciiFloat(20),
            ),
            formula=(
                "E = A11 + A12 * R + A13 * C + A14 * R * C;"
                " N = A21 + A22 * R + A23 * C + A24 * R * C"
            ),
            E="easting",
            N="northing",
            R="row (1-based)",
            C="column (1-based)",
        ),
        "pixels_to_map_projection"
        / Metadata(
            Struct(
                "B11" / AsciiFloat(20),
                "B12" / AsciiFloat(20),
                "B13" / AsciiFloat(20),
                "B14" / AsciiFloat(20),
                "B21" / AsciiFloat(20),
                "B22" / AsciiFloat(20),
                "B23" / AsciiFloat(20),
                "B24" / AsciiFloat(20),
            ),
            formula=(
                "R = B11 + B12 * E + B13 * N + B14 * E * N;"
                " C = B21 + B22 * E + B23 * N + B24 * E * N"
            ),
            E="easting",
            N="northing",
            R="row (1-based)",
            C="column (1-based)",
        ),
    ),
    "blanks" / PaddedString(36),
)


def filter_map_projection(mapping):
    all_projections = ["utm_projection", "ups_projection", "national_system_projection"]
    raw_designator = mapping.get("map_projection_designator")
    if raw_designator is None:
        return mapping

    designator, _ = raw_designator.lower().split("-", 1)

    sections = {
        "utm": "utm_projection",
        "ups": "ups_projection",
        "lcc": "national_system_projection",
        "mer": "national_system_projection",
    }
    to_keep = sections.get(designator)
    to_drop = list(
        cons("map_projection_designator", remove(lambda k: k == to_keep, all_projections))
    )

    return pipe(
        mapping,
        curry(dissoc, to_drop),
        curry(rename, translations={to_keep: "projection"}),
    )


def transform_general_info(mapping):
    translations = {
        "number_of_pixels_per_line": "n_columns",
        "number_of_lines": "n_rows",
    }

    return pipe(
        mapping,
        curry(rename, translations=translations),
    )


def transform_ellipsoid_parameters(mapping):
    # fixed to 0.0
    ignored = ["datum_shift_parameters", "scale_factor"]

    return dissoc(ignored, mapping)


def transform_projection(mapping):
    ignored = ["map_origin", "standard_parallel2", "central_meridian"]

    return dissoc(ignored, mapping)


def transform_corner_points(mapping):
    coordinate = ["top_left", "top_right", "bottom_right", "bottom_left"]
    keys = [f"{v}_corner" for v in coordinate]

    def separate_attrs(data):
        values, metadata_ = zip(*data)
        metadata = metadata_[0]

        return ["corner"], list(values), metadata

    def combine_corners(mapping):
        items = get(keys, mapping)
        merged = merge_with(list, *items)
        processed = valmap(separate_attrs, merged)

        return processed

    ignored = ["terrain_heights_relative_to_ellipsoid"]

    transformers = {
        "projected": curry(operator.or_, {"corner": (["corner"], coordinate, {})}),
        "geographic": curry(operator.or_, {"corner": (["corner"], coordinate, {})}),
    }

    result = pipe(
        mapping,
        curry(dissoc, ignored),
        curry(valmap, combine_corners),
        curry(apply_to_items, transformers),
    )
    return result


def transform_conversion_coefficients(mapping):
    def transform_coeffs(entry):
        raw_data, attrs = entry

        names, coeffs = zip(*raw_data.items())

        data = {"names": ("names", list(names), {}), "coefficients": ("names", list(coeffs), {})}
        return data, attrs

    translations = {
        "map_projection_to_pixels": "projected_to_image",
        "pixels_to_map_projection": "image_to_projected",
    }

    return pipe(
        mapping,
        curry(valmap, transform_coeffs),
        curry(rename, translations=translations),
    )


def transform_map_projection(mapping):
    ignored = ["preamble"]
    transformers = {
        "map_projection_general_information": transform_general_info,
        "map_projection_ellipsoid_parameters": transform_ellipsoid_parameters,
        "projection": transform_projection,
        "corner_points": transform_corner_points,
        "conversion_coefficients": transform_conversion_coefficients,
    }
    translations = {
        "map_projection_general_information": "general_information",
        "map_projection_ellipsoid_parameters": "ellipsoid_parameters",
    }

    result = pipe(
        mapping,
        curry(remove_spares),
        curry(dissoc, ignored),
        curry(filter_map_projection),
        curry(apply_to_items, transformers),
        curry(rename, translations=translations),
        curry(as_group),
    )

    return result
