from ceos_alos2_pinned.sar_leader.metadata import transform_metadata
from ceos_alos2_pinned.sar_leader.structure import sar_leader_record
from ceos_alos2_pinned.utils import to_dict


def parse_data(data):
    return to_dict(sar_leader_record.parse(data))


def open_sar_leader(mapper, path):
    try:
        data = mapper[path]
    except KeyError as e:
        raise FileNotFoundError(f"Cannot open {path}") from e

    metadata = parse_data(data)

    return transform_metadata(metadata)
