from construct import Enum, Struct
from tlz.functoolz import curry, pipe

from ceos_alos2_pinned.common import record_preamble
from ceos_alos2_pinned.datatypes import (
    AsciiFloat,
    AsciiInteger,
    Factor,
    Metadata,
    PaddedString,
)
from ceos_alos2_pinned.dicttoolz import apply_to_items, dissoc
from ceos_alos2_pinned.transformers import as_group, normalize_datetime, remove_spares
from ceos_alos2_pinned.utils import rename

motion_compensation = Enum(
    AsciiInteger(2),
    no_compensation=0,
    on_board_compensation=1,
    in_processor_compensation=10,
    both=11,
)
chirp_extraction_index = Enum(AsciiInteger(8), linear_up=0, linear_down=1, linear_up_and_down=2)
flag = Enum(PaddedString(4), yes="YES", no="NO", on="ON", off="OFF")
weighting_functions = Enum(PaddedString(32), rectangle="1")

dataset_summary_record = Struct(
    "preamble" / record_preamble,
    "dataset_summary_records_sequence_number" / AsciiInteger(4),
    "sar_channel_id" / PaddedString(4),
    "scene_id" / PaddedString(32),
    "number_of_scene_reference" / PaddedString(16),
    "scene_center_time" / PaddedString(32),
    "spare1" / PaddedString(16),
    "geodetic_latitude" / Metadata(AsciiFloat(16), units="deg"),
    "geodetic_longitude" / Metadata(AsciiFloat(16), units="deg"),
    "processed_scene_center_true_heading" / Metadata(AsciiFloat(16), units="deg"),
    "ellipsoid_designator" / PaddedString(16),
    "ellipsoid_semimajor_axis" / Metadata(AsciiFloat(16), units="km"),
    "ellipsoid_semiminor_axis" / Metadata(AsciiFloat(16), units="km"),
    "earth_mass" / Metadata(Factor(AsciiFloat(16), 1e24), units="kg"),
    "gravitational_constant" / Metadata(Factor(AsciiFloat(16), 1e-14), units="m^3 / s^2"),
    "ellipsoid_j2_parameter" / AsciiFloat(16),
    "ellipsoid_j3_parameter" / AsciiFloat(16),
    "ellipsoid_j4_parameter" / AsciiFloat(16),
    "spare2" / PaddedString(16),
    "average_terrain_height_above_ellipsoid_at_scene_center" / AsciiFloat(16),
    "scene_center_line_number" / AsciiInteger(8),
    "scene_center_pixel_number" / AsciiInteger(8),
    "processing_scene_length" / Metadata(AsciiFloat(16), units="km"),
    "processing_scene_width" / Metadata(AsciiFloat(16), units="km"),
    "spare3" / PaddedString(16),
    "number_of_sar_channel" / AsciiInteger(4),
    "spare4" / PaddedString(4),
    "sensor_platform_mission_identifier" / PaddedString(16),
    "sensor_id_and_operation_mode" / PaddedString(32),
    "orbit_number_or_flight_line_indicator" / AsciiInteger(8),
    "sensor_platform_geodetic_latitude_at_nadir_corresponding_to_scene_center"
    / Metadata(AsciiFloat(8), units="deg"),
    "sensor_platform_geodetic_longitude_at_nadir_corresponding_to_scene_center"
    / Metadata(AsciiFloat(8), units="deg"),
    "sensor_platform_heading_at_nadir_corresponding_to_scene_center"
    / Metadata(AsciiFloat(8), units="deg"),
    "sensor_clock_angle_as_measured_relative_to_sensor_platform_flight_direction"
    / Metadata(AsciiFloat(8), units="deg"),
    "incidence_angle_at_scene_center" / Metadata(AsciiFloat(8), units="deg"),
    "spare5" / PaddedString(8),
    "nominal_radar_wavelength" / Metadata(AsciiFloat(16), units="m"),
    "motion_compensation_indicator" / motion_compensation,
    "range_pulse_code" / PaddedString(16),
    "range_pulse_amplitude_coefficients"
    / Struct(
        "coefficient_1" / AsciiFloat(16),
        "coefficient_2" / AsciiFloat(16),
        "coefficient_3" / AsciiFloat(16),
        "coefficient_4" / AsciiFloat(16),
        "coefficient_5" / AsciiFloat(16),
    ),
    "range_pulse_phase_coefficients"
    / Struct(
        "coefficient_1" / AsciiFloat(16),
        "coefficient_2" / AsciiFloat(16),
        "coefficient_3" / AsciiFloat(16),
        "coefficient_4" / AsciiFloat(16),
        "coefficient_5" / AsciiFloat(16),
    ),
    "down_linked_data_chirp_extraction_index" / AsciiInteger(8),
    "spare6" / PaddedString(8),
    "sampling_rate" / Metadata(AsciiFloat(16), units="MHz"),
    "range_gate" / Metadata(AsciiFloat(16), units="µs"),
    "range_pulse_width" / Metadata(AsciiFloat(16), units="µs"),
    "base_band_conversion_flag" / flag,
    "range_compression_flag" / flag,
    "receiver_gain_for_like_polarized_at_early_edge_at_the_start_of_the_image" / AsciiFloat(16),
    "receiver_gain_for_cross_polarized_at_early_edge_at_the_start_of_the_image" / AsciiFloat(16),
    "quantization_in_bits_per_channel" / AsciiInteger(8),
    "quantized_descriptor" / PaddedString(12),
    "dc_bias_for_I_component" / AsciiFloat(16),
    "dc_bias_for_Q_component" / AsciiFloat(16),
    "gain_imbalance_for_I_and_Q" / AsciiFloat(16),
    "spare7" / AsciiFloat(16),
    "spare8" / AsciiFloat(16),
    "electronic_boresight" / AsciiFloat(16),
    "mechanical_boresight" / AsciiFloat(16),
    "echo_tracker_status" / flag,
    "prf" / Metadata(AsciiFloat(16), units="mHz"),
    "two_way_antenna_beam_width_elevation" / Metadata(AsciiFloat(16), units="deg"),
    "two_way_antenna_beam_width_azimuth" / Metadata(AsciiFloat(16), units="deg"),
    "satellite_encoded_binary_time_code" / AsciiInteger(16),
    "satellite_clock_time" / PaddedString(32),
    "satellite_clock_increment" / Metadata(AsciiInteger(16), units="ns"),
    "processing_facility_id" / PaddedString(16),
    "processing_system_id" / PaddedString(8),
    "processing_version_id" / PaddedString(8),
    "processing_code_of_processing_facility" / PaddedString(16),
    "product_level_code" / PaddedString(16),
    "product_type_specifier" / PaddedString(32),
    "processing_algorithm_id" / PaddedString(32),
    "number_of_looks_in_azimuth" / AsciiFloat(16),
    "number_of_looks_in_range" / AsciiFloat(16),
    "bandwidth_per_look_in_azimuth" / Metadata(AsciiFloat(16), units="Hz"),
    "bandwidth_per_look_in_range" / Metadata(AsciiFloat(16), units="Hz"),
    "bandwidth_in_azimuth" / Metadata(AsciiFloat(16), units="Hz"),
    "bandwidth_in_range" / Metadata(AsciiFloat(16), units="kHz"),
    "weighting_function_in_azimuth" / weighting_functions,
    "weighting_function_in_range" / weighting_functions,
    "data_input_source" / PaddedString(16),
    "resolution_in_ground_range" / Metadata(AsciiFloat(16), units="m"),
    "resolution_in_azimuth" / Metadata(AsciiFloat(16), units="m"),
    "radiometric_bias" / AsciiFloat(16),
    "radiometric_gain" / AsciiFloat(16),
    "along_track_doppler_frequency_center"
    / Struct(
        "constant_term_at_early_edge_of_the_image" / Metadata(AsciiFloat(16), units="Hz"),
        "linear_coefficient_terms_at_early_edge_of_the_image"
        / Metadata(AsciiFloat(16), units="Hz/px"),
        "quadratic_coefficient_terms_at_early_edge_of_the_image"
        / Metadata(AsciiFloat(16), units="Hz/px^2"),
    ),
    "spare9" / PaddedString(16),
    "cross_track_doppler_frequency_center"
    / Struct(
        "constant_term_at_early_edge_of_the_image" / Metadata(AsciiFloat(16), units="Hz"),
        "linear_coefficient_terms_at_early_edge_of_the_image"
        / Metadata(AsciiFloat(16), units="Hz/px"),
        "quadratic_coefficient_terms_at_early_edge_of_the_image"
        / Metadata(AsciiFloat(16), units="Hz/px^2"),
    ),
    "time_direction_indicator_along_pixel_direction" / PaddedString(8),
    "time_direction_indicator_along_line_direction" / PaddedString(8),
    "along_track_doppler_frequency_rate"
    / Struct(
        "constant_terms_at_early_edge_of_the_image" / Metadata(AsciiFloat(16), units="Hz/s"),
        "linear_coefficient_at_early_edge_of_the_image" / Metadata(AsciiFloat(16), units="Hz/s/px"),
        "quadratic_coefficient_at_early_edge_of_the_image"
        / Metadata(AsciiFloat(16), units="Hz/s/px^2"),
    ),
    "spare10" / PaddedString(16),
    "cross_track_doppler_frequency_rate"
    / Struct(
        "constant_terms_at_early_edge_of_the_image" / Metadata(AsciiFloat(16), units="Hz/s"),
        "linear_coefficient_at_early_edge_of_the_image" / Metadata(AsciiFloat(16), units="Hz/s/px"),
        "quadratic_coefficient_at_early_edge_of_the_image"
        / Metadata(AsciiFloat(16), units="Hz/s/px^2"),
    ),
    "spare11" / PaddedString(16),
    "line_content_indicator" / PaddedString(8),
    "clutter_lock_applied_flag" / flag,
    "auto_focusing_applied_flag" / flag,
    "line_spacing" / Metadata(AsciiFloat(16), units="m"),
    "pixel_spacing" / Metadata(AsciiFloat(16), units="m"),
    "processor_range_compression_designator" / PaddedString(16),
    "doppler_frequency_approximately_constant_coefficient_term"
    / Metadata(AsciiFloat(16), units="Hz"),
    "doppler_frequency_approximately_linear_coefficient_term"
    / Metadata(AsciiFloat(16), units="Hz/km"),
    "calibration_mode_data_location_flag" / AsciiInteger(4),
    "calibration_at_the_side_of_start"
    / Struct(
        "start_line_number" / AsciiInteger(8),
        "end_line_number" / AsciiInteger(8),
    ),
    "calibration_at_the_side_of_end"
    / Struct(
        "start_line_number" / AsciiInteger(8),
        "end_line_number" / AsciiInteger(8),
    ),
    "prf_switching_indicator" / AsciiInteger(4),
    "line_number_of_prf_switching" / AsciiInteger(8),
    "direction_of_a_beam_center_in_a_scene_center" / Metadata(AsciiFloat(16), units="deg"),
    "yaw_steering_mode_flag" / AsciiInteger(4),
    "parameter_table_number_of_automatically_setting" / AsciiInteger(4),
    "nominal_off_nadir_angle" / AsciiFloat(16),
    "antenna_beam_number" / AsciiInteger(4),
    "spare12" / PaddedString(28),
    "incidence_angle"
    / Metadata(
        Struct(
            "constant_term" / Metadata(AsciiFloat(20), units="rad"),
            "linear_term" / Metadata(AsciiFloat(20), units="rad/km"),
            "quadratic_term" / Metadata(AsciiFloat(20), units="rad/km^2"),
            "cubic_term" / Metadata(AsciiFloat(20), units="rad/km^3"),
            "fourth_term" / Metadata(AsciiFloat(20), units="rad/km^4"),
            "fifth_term" / Metadata(AsciiFloat(20), units="rad/km^5"),
        ),
        formula="θ = a0 + a1*R + a2*R^2 + a3*R^3 + a4*R^4 + a5*R^5",
        theta="incidence angle",
        r="slant range",
    ),
    "image_annotation_segment"
    / Struct(
        "number_of_annotation_points" / AsciiInteger(8),
        "spare" / PaddedString(8),
        "annotations"
        / Struct(
            "line_number_of_annotation_start" / AsciiInteger(8),
            "pixel_number_of_annotation_start" / AsciiInteger(8),
            "annotation_text" / PaddedString(16),
        )[64],
        "system_reserve" / PaddedString(26),
    ),
)


def transform_dataset_summary(mapping):
    ignored = [
        "preamble",
        "dataset_summary_records_sequence_number",
        "sar_channel_id",
        "number_of_scene_reference",
        "average_terrain_height_above_ellipsoid_at_scene_center",
        "processing_scene_length",
        "processing_scene_width",
        "range_pulse_phase_coefficients",
        "processing_code_of_processing_facility",
        "processing_algorithm_id",
        "radiometric_bias",
        "radiometric_gain",
        "time_direction_indicator_along_pixel_direction",
        "parameter_table_number_of_automatically_setting",
        "image_annotation_segment",
    ]
    transformers = {
        "scene_center_time": normalize_datetime,
    }
    translations = {}

    result = pipe(
        mapping,
        curry(remove_spares),
        curry(dissoc, ignored),
        curry(apply_to_items, transformers),
        curry(rename, translations=translations),
        curry(as_group),
    )

    return result
