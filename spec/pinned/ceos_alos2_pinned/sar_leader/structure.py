from construct import Struct, this

from ceos_alos2_pinned.sar_leader.attitude import attitude_record
from ceos_alos2_pinned.sar_leader.data_quality_summary import data_quality_summary_record
from ceos_alos2_pinned.sar_leader.dataset_summary import dataset_summary_record
from ceos_alos2_pinned.sar_leader.facility_related_data import (
    facility_related_data_5_record,
    facility_related_data_record,
)
from ceos_alos2_pinned.sar_leader.file_descriptor import file_descriptor_record
from ceos_alos2_pinned.sar_leader.map_projection import map_projection_record
from ceos_alos2_pinned.sar_leader.platform_position import platform_position_record
from ceos_alos2_pinned.sar_leader.radiometric_data import radiometric_data_record

sar_leader_record = Struct(
    "file_descriptor" / file_descriptor_record,
    "dataset_summary" / dataset_summary_record,
    "map_projection" / map_projection_record[this.file_descriptor.map_projection.number_of_records],
    "platform_position" / platform_position_record,
    "attitude" / attitude_record,
    "radiometric_data" / radiometric_data_record,
    "data_quality_summary" / data_quality_summary_record,
    "facility_related_data_1" / facility_related_data_record,
    "facility_related_data_2" / facility_related_data_record,
    "facility_related_data_3" / facility_related_data_record,
    "facility_related_data_4" / facility_related_data_record,
    "facility_related_data_5" / facility_related_data_5_record,
)
