import numpy as np
from construct import Struct, this
from tlz.dicttoolz import valmap
from tlz.functoolz import curry, pipe
from tlz.itertoolz import cons, get

from ceos_alos2_pinned.common import record_preamble
from ceos_alos2_pinned.datatypes import AsciiFloat, AsciiInteger, Metadata, PaddedString
from ceos_alos2_pinned.dicttoolz import apply_to_items, copy_items, dissoc
from ceos_alos2_pinned.transformers import as_group, separate_attrs, transform_nested

attitude_point = Struct(
    "time"
    / Struct(
        "day_of_year" / AsciiInteger(4),
        "millisecond_of_day" / AsciiInteger(8),
    ),
    "attitude"
    / Struct(
        "pitch_error" / AsciiInteger(4),
        "roll_error" / AsciiInteger(4),
        "yaw_error" / AsciiInteger(4),
        "pitch" / Metadata(AsciiFloat(14), units="deg"),
        "roll" / Metadata(AsciiFloat(14), units="deg"),
        "yaw" / Metadata(AsciiFloat(14), units="deg"),
    ),
    "rates"
    / Struct(
        "pitch_error" / AsciiInteger(4),
        "roll_error" / AsciiInteger(4),
        "yaw_error" / AsciiInteger(4),
        "pitch" / Metadata(AsciiFloat(14), units="deg/s"),
        "roll" / Metadata(AsciiFloat(14), units="deg/s"),
        "yaw" / Metadata(AsciiFloat(14), units="deg/s"),
    ),
)

attitude_record = Struct(
    "preamble" / record_preamble,
    "number_of_points" / AsciiInteger(4),
    "data_points" / attitude_point[this.number_of_points],
    "blanks" / PaddedString(this.preamble.record_length - (12 + 4 + this.number_of_points * 120)),
)


def transform_time(mapping):
    # no year information, so we have to convert to timedelta
    units = {"day_of_year": "D", "millisecond_of_day": "ms"}
    transformed = {k: np.asarray(v, dtype=f"timedelta64[{units[k]}]") for k, v in mapping.items()}

    return (transformed["day_of_year"] + transformed["millisecond_of_day"]).astype(
        "timedelta64[ns]"
    )


def prepend_dim(dim, var):
    if isinstance(var, dict):
        return valmap(curry(prepend_dim, dim), var)

    if not isinstance(var, tuple):
        var = (var, {})

    return tuple(cons(dim, var))


def transform_section(mapping):
    transformers = {
        "pitch": separate_attrs,
        "roll": separate_attrs,
        "yaw": separate_attrs,
        "pitch_error": lambda data: list(map(bool, data)),
        "roll_error": lambda data: list(map(bool, data)),
        "yaw_error": lambda data: list(map(bool, data)),
    }

    return apply_to_items(transformers, mapping)


def transform_attitude(mapping):
    transformers = {
        "time": transform_time,
        "attitude": transform_section,
        "rates": transform_section,
    }

    result = pipe(
        mapping,
        curry(get, "data_points"),
        curry(transform_nested),
        curry(apply_to_items, transformers),
        curry(prepend_dim, "points"),
        curry(copy_items, {("attitude", "time"): ["time"], ("rates", "time"): ["time"]}),
        curry(dissoc, ["time"]),
        curry(valmap, lambda x: (x, {"coordinates": ["time"]})),
        curry(as_group),
    )

    return result
