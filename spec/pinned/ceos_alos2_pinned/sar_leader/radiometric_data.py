from construct import Struct
from tlz.dicttoolz import valmap
from tlz.functoolz import curry, pipe
from tlz.itertoolz import partition

from ceos_alos2_pinned.common import record_preamble
from ceos_alos2_pinned.datatypes import (
    AsciiComplex,
    AsciiFloat,
    AsciiInteger,
    Metadata,
    PaddedString,
)
from ceos_alos2_pinned.dicttoolz import apply_to_items, assoc, dissoc
from ceos_alos2_pinned.transformers import as_group, remove_spares

radiometric_data_record = Struct(
    "preamble" / record_preamble,
    "radiometric_data_records_sequence_number" / AsciiInteger(4),
    "number_of_radiometric_fields" / AsciiInteger(4),
    "calibration_factor"
    / Metadata(
        AsciiFloat(16),
        formula=(
            "σ⁰=10*log_10<I^2 + Q^2> + CF - 32.0;" " σ⁰(level1.5/level3.1)=10*log_10<DN^2> + CF"
        ),
        I="level 1.1 real pixel value",
        Q="level 1.1 imaginary pixel value",
        DN="level 1.5/3.1 pixel value",
    ),
    "distortion_matrix"
    / Metadata(
        Struct(
            "transmission"
            / Struct(
                "dt11" / AsciiComplex(32),
                "dt12" / AsciiComplex(32),
                "dt21" / AsciiComplex(32),
                "dt22" / AsciiComplex(32),
            ),
            "reception"
            / Struct(
                "dr11" / AsciiComplex(32),
                "dr12" / AsciiComplex(32),
                "dr21" / AsciiComplex(32),
                "dr22" / AsciiComplex(32),
            ),
        ),
        formula="Z = A*1/r*exp(-4πr/λ) * RST + N",
        Z="measurement matrix",
        A="amplitude",
        r="slant range",
        S="true scattering matrix",
        N="noise component",
        R="reception distortion matrix",
        T="transmission distortion matrix",
    ),
    "blanks" / PaddedString(9568),
)


def transform_matrices(mapping):
    def transform_matrix(mapping):
        values = mapping.values()
        matrix = list(map(list, partition(2, values)))
        dims = ["i", "j"]

        return (dims, matrix, {})

    if isinstance(mapping, tuple):
        mapping, attrs = mapping
    else:
        attrs = {}

    var_i = ("i", ["horizontal", "vertical"], {"long_name": "reception polarization"})
    var_j = ("j", ["horizontal", "vertical"], {"long_name": "transmission polarization"})

    matrices = pipe(
        mapping,
        curry(valmap, transform_matrix),
        curry(assoc, "i", var_i),
        curry(assoc, "j", var_j),
    )

    return matrices, attrs


def transform_radiometric_data(mapping):
    ignored = [
        "preamble",
        "radiometric_data_records_sequence_number",
        "number_of_radiometric_fields",
    ]
    transformers = {
        "distortion_matrix": transform_matrices,
    }

    return pipe(
        mapping,
        curry(dissoc, ignored),
        curry(remove_spares),
        curry(apply_to_items, transformers),
        curry(as_group),
    )
