import datetime as dt

from construct import Enum, Struct
from tlz.dicttoolz import merge_with, valmap
from tlz.functoolz import compose_left, curry, pipe
from tlz.itertoolz import cons

from ceos_alos2_pinned.common import record_preamble
from ceos_alos2_pinned.datatypes import AsciiFloat, AsciiInteger, Metadata, PaddedString
from ceos_alos2_pinned.dicttoolz import apply_to_items, dissoc, move_items
from ceos_alos2_pinned.transformers import as_group, remove_spares, separate_attrs
from ceos_alos2_pinned.utils import rename, starcall

orbital_elements_designator = Enum(
    PaddedString(32), preliminary="0", decision="1", high_precision="2"
)
orbit_point = Struct(
    "position"
    / Struct(
        "x" / Metadata(AsciiFloat(22), units="m"),
        "y" / Metadata(AsciiFloat(22), units="m"),
        "z" / Metadata(AsciiFloat(22), units="m"),
    ),
    "velocity"
    / Struct(
        "x" / Metadata(AsciiFloat(22), units="m/s"),
        "y" / Metadata(AsciiFloat(22), units="m/s"),
        "z" / Metadata(AsciiFloat(22), units="m/s"),
    ),
)
platform_position_record = Struct(
    "preamble" / record_preamble,
    "orbital_elements_designator" / orbital_elements_designator,
    "orbital_elements"
    / Struct(
        "position"
        / Struct(
            "x" / Metadata(AsciiFloat(16), units="m"),
            "y" / Metadata(AsciiFloat(16), units="m"),
            "z" / Metadata(AsciiFloat(16), units="m"),
        ),
        "velocity"
        / Struct(
            "x" / Metadata(AsciiFloat(16), units="m/s"),
            "y" / Metadata(AsciiFloat(16), units="m/s"),
            "z" / Metadata(AsciiFloat(16), units="m/s"),
        ),
    ),
    "number_of_data_points" / AsciiInteger(4),
    "datetime_of_first_point"
    / Struct(
        "date" / PaddedString(12),
        "day_of_year" / AsciiInteger(4),
        "seconds_of_day" / AsciiFloat(22),
    ),
    "time_interval_between_data_points" / Metadata(AsciiFloat(22), units="s"),
    "reference_coordinate_system" / PaddedString(64),
    "greenwich_mean_hour_angle" / Metadata(AsciiFloat(22), units="deg"),
    "nominal_error"
    / Struct(
        "position"
        / Struct(
            "along_track" / Metadata(AsciiFloat(16), units="m"),
            "across_track" / Metadata(AsciiFloat(16), units="m"),
            "radial" / Metadata(AsciiFloat(16), units="m"),
        ),
        "velocity"
        / Struct(
            "along_track" / Metadata(AsciiFloat(16), units="m/s"),
            "across_track" / Metadata(AsciiFloat(16), units="m/s"),
            "radial" / Metadata(AsciiFloat(16), units="m/s"),
        ),
    ),
    "positions" / orbit_point[28],
    "blanks1" / PaddedString(18),
    "occurrence_flag_of_a_leap_second" / AsciiInteger(1),
    "blanks2" / PaddedString(579),
)


def transform_composite_datetime(mapping):
    date_str = "-".join(mapping["date"].split())
    date = dt.datetime.strptime(date_str, "%Y-%m-%d")
    timedelta = dt.timedelta(seconds=mapping["seconds_of_day"])

    datetime = date + timedelta

    return datetime.isoformat()


def transform_positions(elements):
    result = pipe(
        elements,
        curry(starcall, curry(merge_with, list)),
        curry(
            valmap,
            compose_left(
                curry(starcall, curry(merge_with, list)),
                curry(valmap, compose_left(separate_attrs, curry(cons, ["positions"]), tuple)),
            ),
        ),
    )
    return result


def transform_platform_position(mapping):
    ignored = ["preamble", "number_of_data_points", "greenwich_mean_hour_angle"]
    transformers = {
        "datetime_of_first_point": transform_composite_datetime,
        "positions": transform_positions,
        "occurrence_flag_of_a_leap_second": bool,
    }
    translations = {
        "occurrence_flag_of_a_leap_second": "leap_second",
        "time_interval_between_data_points": "sampling_frequency",
    }

    result = pipe(
        mapping,
        curry(dissoc, ignored),
        curry(remove_spares),
        curry(apply_to_items, transformers),
        curry(rename, translations=translations),
        curry(move_items, {("orbital_elements", "type"): ["orbital_elements_designator"]}),
        curry(as_group),
    )

    return result
