from construct import Struct, this
from tlz.dicttoolz import valmap
from tlz.functoolz import compose_left, curry, pipe
from tlz.itertoolz import cons, get

from ceos_alos2_pinned.common import record_preamble
from ceos_alos2_pinned.datatypes import AsciiFloat, AsciiInteger, Metadata, PaddedString
from ceos_alos2_pinned.dicttoolz import apply_to_items, dissoc
from ceos_alos2_pinned.transformers import (
    as_group,
    remove_spares,
    separate_attrs,
    transform_nested,
)

calibration_uncertainty = Struct(
    "magnitude" / Metadata(AsciiFloat(16), units="dB"),
    "phase" / Metadata(AsciiFloat(16), units="deg"),
)
misregistration_error = Struct(
    "along_track" / Metadata(AsciiFloat(16), units="m"),
    "across_track" / Metadata(AsciiFloat(16), units="m"),
)
data_quality_summary_record = Struct(
    "preamble" / record_preamble,
    "record_number" / AsciiInteger(4),
    "sar_channel_id" / PaddedString(4),
    "date_of_the_last_calibration_update" / PaddedString(6),
    "number_of_channels" / AsciiInteger(4),
    "absolute_radiometric_data_quality"
    / Struct(
        "islr" / Metadata(AsciiFloat(16), units="dB"),
        "pslr" / Metadata(AsciiFloat(16), units="dB"),
        "azimuth_ambiguity_rate" / AsciiFloat(16),
        "range_ambiguity_rate" / AsciiFloat(16),
        "estimate_of_snr" / Metadata(AsciiFloat(16), units="dB"),
        "ber" / Metadata(AsciiFloat(16), units="dB"),
        "slant_range_resolution" / Metadata(AsciiFloat(16), units="m"),
        "azimuth_resolution" / Metadata(AsciiFloat(16), units="m"),
        "radiometric_resolution" / Metadata(AsciiFloat(16), units="dB"),
        "instantaneous_dynamic_range" / Metadata(AsciiFloat(16), units="dB"),
        "nominal_absolute_radiometric_calibration_uncertainty" / calibration_uncertainty,
    ),
    "relative_radiometric_quality"
    / Struct(
        # TODO: does that actually make sense?
        "nominal_relative_radiometric_calibration_uncertainty"
        / calibration_uncertainty[this._.number_of_channels],
        "blanks" / PaddedString(512 - this._.number_of_channels * 32),
    ),
    "absolute_geometric_quality"
    / Struct(
        "absolute_location_error"
        / Struct(
            "along_track" / Metadata(AsciiFloat(16), units="m"),
            "across_track" / Metadata(AsciiFloat(16), units="m"),
        ),
        "geometric_distortion_scale"
        / Struct(
            "line_direction" / AsciiFloat(16),
            "pixel_direction" / AsciiFloat(16),
        ),
        "geometric_distortion_skew" / AsciiFloat(16),
        "scene_orientation_error" / AsciiFloat(16),
    ),
    "relative_geometric_quality"
    / Struct(
        # TODO: does that actually make sense?
        "relative_misregistration_error" / misregistration_error[this._.number_of_channels],
        # TODO: 534 is 16 more than stated in the reference... is this on us or on JAXA?
        "blanks" / PaddedString(534 + (8 - this._.number_of_channels) * 32),
    ),
)


def transform_relative(mapping, key):
    return pipe(
        mapping,
        curry(get, key),
        curry(transform_nested),
        curry(valmap, compose_left(separate_attrs, curry(cons, "channel"), tuple)),
    )


def transform_data_quality_summary(mapping):
    ignored = ["preamble", "record_number"]
    transformers = {
        "relative_radiometric_quality": curry(
            transform_relative, key="nominal_relative_radiometric_calibration_uncertainty"
        ),
        "relative_geometric_quality": curry(
            transform_relative, key="relative_misregistration_error"
        ),
    }

    result = pipe(
        mapping,
        curry(remove_spares),
        curry(dissoc, ignored),
        curry(apply_to_items, transformers),
        curry(as_group),
    )

    return result
