import numpy as np
from tlz.dicttoolz import valfilter
from tlz.functoolz import compose_left, curry, pipe
from tlz.itertoolz import first

from ceos_alos2_pinned.dicttoolz import apply_to_items, dissoc
from ceos_alos2_pinned.hierarchy import Group, Variable
from ceos_alos2_pinned.sar_leader.attitude import transform_attitude
from ceos_alos2_pinned.sar_leader.data_quality_summary import transform_data_quality_summary
from ceos_alos2_pinned.sar_leader.dataset_summary import transform_dataset_summary
from ceos_alos2_pinned.sar_leader.facility_related_data import transform_record5
from ceos_alos2_pinned.sar_leader.map_projection import transform_map_projection
from ceos_alos2_pinned.sar_leader.platform_position import transform_platform_position
from ceos_alos2_pinned.sar_leader.radiometric_data import transform_radiometric_data
from ceos_alos2_pinned.utils import rename


def fix_attitude_time(group):
    if "platform_position" not in group or "attitude" not in group:
        return group

    reference_year = group["platform_position"].attrs["datetime_of_first_point"][:4]
    reference_date = np.array(f"{reference_year}-01-01", dtype="datetime64[ns]")

    for subgroup in group["attitude"].groups.values():
        time = subgroup.data["time"]
        new_data = reference_date + time.data
        subgroup.data["time"] = Variable(time.dims, new_data, time.attrs)

    return group


def transform_metadata(mapping):
    ignored = [
        "file_descriptor",
        "facility_related_data_1",
        "facility_related_data_2",
        "facility_related_data_3",
        "facility_related_data_4",
    ]
    transformers = {
        "dataset_summary": transform_dataset_summary,
        "map_projection": compose_left(first, transform_map_projection),
        "platform_position": transform_platform_position,
        "attitude": transform_attitude,
        "radiometric_data": transform_radiometric_data,
        "data_quality_summary": transform_data_quality_summary,
        "facility_related_data_5": transform_record5,
    }
    translations = {
        "facility_related_data_5": "transformations",
    }

    postprocessors = [fix_attitude_time]

    groups = pipe(
        mapping,
        curry(dissoc, ignored),
        curry(valfilter, bool),
        curry(apply_to_items, transformers),
        curry(rename, translations=translations),
        compose_left(*postprocessors),
    )

    return Group(path=None, url=None, data=groups, attrs={})
