from construct import Enum, Struct, this
from tlz.dicttoolz import valmap
from tlz.functoolz import curry, pipe

from ceos_alos2_pinned.common import record_preamble
from ceos_alos2_pinned.datatypes import AsciiFloat, AsciiInteger, Metadata, PaddedString
from ceos_alos2_pinned.dicttoolz import apply_to_items, dissoc
from ceos_alos2_pinned.transformers import as_group, remove_spares
from ceos_alos2_pinned.utils import rename

facility_related_data_record = Struct(
    "preamble" / record_preamble,
    "record_sequence_number" / AsciiInteger(4),
    "blanks" / PaddedString(50),
    "raw_file_data" / PaddedString(this.preamble.record_length - 12 - 4 - 50),
)
facility_related_data_5_record = Struct(
    "preamble" / record_preamble,
    "record_sequence_number" / AsciiInteger(4),
    "conversion_from_map_projection_to_pixel"
    / Metadata(
        Struct(
            "a" / AsciiFloat(20)[10],
            "b" / AsciiFloat(20)[10],
        ),
        formula=(
            "P = a0 + a1*φ + a2*λ + a3*φ*λ + a4*φ^2 + a5*λ^2 + a6*φ^2*λ + a7*φ*λ^2 + a8*φ^3 + a9*λ^3;"
            " L = b0 + b1*φ + b2*λ + b3*φ*λ + b4*φ^2 + b5*λ^2 + b6*φ^2*λ + b7*φ*λ^2 + b8*φ^3 + b9*λ^3"
        ),
    ),
    "calibration_mode_data_location_flag"
    / Enum(
        AsciiInteger(4),
        no_calibration=0,
        side_of_observation_start=1,
        side_of_observation_end=2,
        side_of_observation_start_and_end=3,
    ),
    "calibration_at_upper_image"
    / Struct(
        "start_line_number" / AsciiInteger(8),
        "end_line_number" / AsciiInteger(8),
    ),
    "calibration_at_bottom_image"
    / Struct(
        "start_line_number" / AsciiInteger(8),
        "end_line_number" / AsciiInteger(8),
    ),
    "prf_switching_flag" / AsciiInteger(4),
    "start_line_number_of_prf_switching" / AsciiInteger(8),
    "blanks1" / PaddedString(8),
    "number_of_loss_lines"
    / Struct(
        "level1.0" / AsciiInteger(8),
        "others" / AsciiInteger(8),
    ),
    "blanks2" / PaddedString(312),
    "system_reserve" / PaddedString(224),
    "conversion_from_pixel_to_geographic"
    / Metadata(
        Struct(
            "a" / AsciiFloat(20)[25],
            "b" / AsciiFloat(20)[25],
            "origin_pixel" / AsciiFloat(20),
            "origin_line" / AsciiFloat(20),
        ),
        formula=(
            (
                "φ = a0*L^4*P^4 + a1*L^3*P^4 + a2*L^2*P^4 + a3*L*P^4 + a4*P^4"
                " + a5*L^4*P^3 + a6*L^3*P^3 + a7*L^2*P^3 + a8*L*P^3 + a9*P^3"
                " + a10*L^4*P^2 + a11*L^3*P^2 + a12*L^2*P^2 + a13*L*P^2 + a14*P^2"
                " + a15*L^4*P + a16*L^3*P + a17*L^2*P + a18*L*P + a19*P"
                " + a20*L^4 + a21*L^3 + a22*L^2 + a23*L + a24"
            )
            + "; "
            + (
                "λ = b0*L^4*P^4 + b1*L^3*P^4 + b2*L^2*P^4 + b3*L*P^4 + b4*P^4"
                " + b5*L^4*P^3 + b6*L^3*P^3 + b7*L^2*P^3 + b8*L*P^3 + b9*P^3"
                " + b10*L^4*P^2 + b11*L^3*P^2 + b12*L^2*P^2 + b13*L*P^2 + b14*P^2"
                " + b15*L^4*P + b16*L^3*P + b17*L^2*P + b18*L*P + b19*P"
                " + b20*L^4 + b21*L^3 + b22*L^2 + b23*L + b24"
            )
        ),
    ),
    "conversion_from_geographic_to_pixel"
    / Metadata(
        Struct(
            "c" / AsciiFloat(20)[25],
            "d" / AsciiFloat(20)[25],
            "origin_latitude" / AsciiFloat(20),
            "origin_longitude" / AsciiFloat(20),
        ),
        formula=(
            (
                "p = c0*Λ^4*Φ^4 + c1*Λ^3*Φ^4 + c2*Λ^2*Φ^4 + c3*Λ*Φ^4 + c4*Φ^4"
                " + c5*Λ^4*Φ^3 + c6*Λ^3*Φ^3 + c7*Λ^2*Φ^3 + c8*Λ*Φ^3 + c9*Φ^3"
                " + c10*Λ^4*Φ^2 + c11*Λ^3*Φ^2 + c12*Λ^2*Φ^2 + c13*Λ*Φ^2 + c14*Φ^2"
                " + c15*Λ^4*Φ + c16*Λ^3*Φ + c17*Λ^2*Φ + c18*Λ*Φ + c19*Φ"
            )
            + "; "
            + (
                "l = d0*Λ^4*Φ^4 + d1*Λ^3*Φ^4 + d2*Λ^2*Φ^4 + d3*Λ*Φ^4 + d4*Φ^4"
                " + d5*Λ^4*Φ^3 + d6*Λ^3*Φ^3 + d7*Λ^2*Φ^3 + d8*Λ*Φ^3 + d9*Φ^3"
                " + d10*Λ^4*Φ^2 + d11*Λ^3*Φ^2 + d12*Λ^2*Φ^2 + d13*Λ*Φ^2 + d14*Φ^2"
                " + d15*Λ^4*Φ + d16*Λ^3*Φ + d17*Λ^2*Φ + d18*Λ*Φ + d19*Φ"
                " + d20*Λ^4 + d21*Λ^3 + d22*Λ^2 + d23*Λ + d24"
            )
        ),
    ),
    "blanks" / PaddedString(1896),
)


def transform_auxiliary_file(mapping):
    ignored = ["preamble"]

    data_types = {
        1: "dummy data",
        2: "determined ephemeris",
        3: "time error information",
        4: "coordinate conversion information",
    }
    transformers = {"record_sequence_number": data_types.get}
    translations = {"record_sequence_number": "data_type"}

    return pipe(
        mapping,
        curry(remove_spares),
        curry(dissoc, ignored),
        curry(apply_to_items, transformers),
        curry(rename, translations=translations),
    )


def transform_group(mapping, dim):
    def attach_dim(value):
        if not isinstance(value, list):
            return (), value, {}
        return dim, value, {}

    mapping, attrs = mapping

    return valmap(attach_dim, mapping), attrs


def transform_record5(mapping):
    ignored = ["preamble", "record_sequence_number", "system_reserve"]

    transformers = {
        "prf_switching_flag": bool,
        "conversion_from_map_projection_to_pixel": curry(
            transform_group, dim="mid_precision_coeffs"
        ),
        "conversion_from_pixel_to_geographic": curry(transform_group, dim="high_precision_coeffs"),
        "conversion_from_geographic_to_pixel": curry(transform_group, dim="high_precision_coeffs"),
    }

    translations = {
        "conversion_from_map_projection_to_pixel": "projected_to_image",
        "conversion_from_pixel_to_geographic": "image_to_geographic",
        "conversion_from_geographic_to_pixel": "geographic_to_image",
        "prf_switching_flag": "prf_switching",
    }

    return pipe(
        mapping,
        curry(remove_spares),
        curry(dissoc, ignored),
        curry(apply_to_items, transformers),
        curry(rename, translations=translations),
        curry(as_group),
    )
