from importlib.metadata import version

from ceos_alos2_pinned.xarray import open_alos2  # noqa: F401

try:
    __version__ = version("alos2")
except Exception:
    __version__ = "999"
