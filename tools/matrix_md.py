"""tools/matrix_md.py — rewrite seeded/MATRIX.md from the final-machinery detection runs (seeded/<id>/<m>/detect3_*.txt)."""
import glob
import json
import os
import re

DST = "/verif/seeded"
rows = []
for pid in sorted(os.listdir(DST)):
    if not re.fullmatch(r"C\d+", pid):
        continue
    for m in sorted(os.listdir(f"{DST}/{pid}")):
        out = f"{DST}/{pid}/{m}"
        if not os.path.exists(f"{out}/meta.json"):
            continue
        meta = json.load(open(f"{out}/meta.json"))
        detect = {}
        files = sorted(glob.glob(f"{out}/detect3_*.txt"))
        for f in files:
            prop = os.path.basename(f)[8:-4]
            txt = open(f, errors="replace").read()
            viol = re.findall(r"VIOLATION property=\S+ replay=\S+ obligation=(\S+)( no-failing-input-found)?", txt)
            detect[prop] = {"detected": bool(viol), "with_concrete_witness": any(not s for _, s in viol),
                            "first_obligation": viol[0][0] if viol else None, "not_proved_lines": len(re.findall(r"^NOT-PROVED", txt, re.M))}
        # cross-detections recorded in earlier rounds (another property's check)
        for f in sorted(glob.glob(f"{out}/detect2_*.txt")):
            prop = os.path.basename(f)[8:-4]
            if prop in detect:
                continue
            txt = open(f, errors="replace").read()
            viol = re.findall(r"VIOLATION property=\S+ replay=\S+ obligation=(\S+)( no-failing-input-found)?", txt)
            if viol:
                detect[prop + " (earlier run)"] = {"detected": True, "with_concrete_witness": any(not s for _, s in viol),
                                                   "first_obligation": viol[0][0], "not_proved_lines": 0}
        meta["checks_run_final_machinery"] = detect
        json.dump(meta, open(f"{out}/meta.json", "w"), indent=1)
        rows.append((pid, m, meta.get("title", meta.get("what_changed", ""))[:70], meta.get("needs_to_manifest", "")[:90], detect))
n_det = sum(1 for r in rows if any(v["detected"] for v in r[4].values()))
n_wit = sum(1 for r in rows if any(v["detected"] and v["with_concrete_witness"] for v in r[4].values()))
with open(f"{DST}/MATRIX.md", "w") as f:
    f.write("# Seeded changes and the checks that catch them (final machinery)\n\n"
            f"{len(rows)} changes from four rounds of independent sub-agents; {n_det} detected, {n_wit} of them with a concrete failing input. "
            "Each compiles, leaves the suite at 1212 pass / the same 11 fail, and breaks its property (demo.py exits 0 clean, 1 patched; "
            "confirmed in a scratch worktree at the current HEAD).\n"
            "`witness` = the check produced a concrete failing input; otherwise the VIOLATION line ends with `no-failing-input-found`.\n"
            "`NOT-PROVED` = the change left the verifier's reach and the bounded stand-in did not find it.\n\n"
            "| change | what it needs to manifest | check → first failed obligation |\n|---|---|---|\n")
    for pid, m, title, needs, detect in rows:
        cells = []
        for prop, dct in detect.items():
            if dct["detected"]:
                cells.append(f"**{prop}** ✔ {'(witness) ' if dct['with_concrete_witness'] else ''}`{(dct['first_obligation'] or '')[:70]}`")
            else:
                cells.append(f"{prop} ✘ " + ("NOT-PROVED only" if dct["not_proved_lines"] else "not detected"))
        f.write(f"| {pid}/{m}: {title} | {needs} | {'<br>'.join(cells) or 'not run'} |\n".replace("\n|", " |") if False else
                f"| {pid}/{m}: {title.replace('|', '/')} | {needs.replace('|', '/').replace(chr(10), ' ')} | {'<br>'.join(cells) or 'not run'} |\n")
print(len(rows), "changes;", n_det, "detected;", n_wit, "with witness")
for r in rows:
    if not any(v["detected"] for v in r[4].values()):
        print("MISSED:", r[0], r[1], r[2])
