"""tools/register.py <PROP> "<level text>" "<level note>" [category] — add/replace a check in MANIFEST.json and validate."""
import json
import sys

import jsonschema

pid, text, note = sys.argv[1:4]
cat = sys.argv[4] if len(sys.argv) > 4 else "proof"
technique = sys.argv[5] if len(sys.argv) > 5 else None
m = json.load(open("MANIFEST.json"))
chk = {"property_id": pid, "quick_cmd": f"./check {pid} --tier quick", "thorough_cmd": f"./check {pid} --tier thorough",
       "evidence_file": f"evidence/{pid}.json", "replay_cmd_template": f"./check {pid} --replay {{path}}", "engine": "pyvc",
       "level_claimed": {"category": cat, "text": text, "design_ref": f"DESIGN.md §4 {pid}"}, "level_note": note,
       "technique": "contract-based deductive verification (VCs from the real source via symbolic interpretation, "
                    "discharged by z3/cvc5 or by term identity)"}
if technique:
    chk["technique"] = technique
m["checks"] = sorted([c for c in m["checks"] if c["property_id"] != pid] + [chk], key=lambda c: c["property_id"])
m["not_applicable"] = [n for n in m.get("not_applicable", []) if n["property_id"] != pid]
m["engines"][0]["serves_properties"] = sorted(c["property_id"] for c in m["checks"])
json.dump(m, open("MANIFEST.json", "w"), indent=1)
jsonschema.validate(m, json.load(open("/root/.vp/MANIFEST.schema.json")))
ev = json.load(open(f"evidence/{pid}.json"))
jsonschema.validate(ev, json.load(open("/root/.vp/EVIDENCE.schema.json")))
print("registered", pid, ev["level"], ev["coverage"].get("obligations"), ev["coverage"].get("discharged"))
