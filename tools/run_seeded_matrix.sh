#!/bin/bash
# tools/run_seeded_matrix.sh — every seeded change against the check of its property. Needs one scratch worktree per property:
#   for id in C01 .. C20; do git -C /repo worktree add --detach /tmp/wt4/$id HEAD; done   (remove them afterwards), mkdir -p /tmp/final; touch /tmp/final/since
# then: ls jobs into /tmp/final/matrix.jobs ("<id> <dir>" per line) and run this script; tools/matrix_md.py rewrites seeded/MATRIX.md.
# all seeded changes of /verif/seeded against the check of their property, final machinery; output: <dir>/detect3_<PROP>.txt
# (first violation lines, first NOT-PROVED lines, the summary line). Jobs whose detect3 file already ends with a summary line
# written after $SINCE are skipped.
run_one() {
  id=$1; d=$2; wt=/tmp/wt4/$id
  f=$d/detect3_$id.txt
  if [ -f $f ] && [ $f -nt /tmp/final/since ] && grep -q '^\[C' $f; then echo "$d: kept"; return; fi
  git -C $wt checkout -q -- . ; git -C $wt apply $d/patch.diff || { echo "$d apply failed"; return; }
  ( cd /verif && PYVC_EVIDENCE_DIR=/tmp/final/evidence PYTHONPATH=$wt PYVC_CASE_BUDGET=420 timeout 2700 ./check $id 2>&1 | grep -E "VIOLATION|NOT-PROVED|^\[C" | cut -c1-260 ) > /tmp/final/out_$id.txt
  { grep VIOLATION /tmp/final/out_$id.txt | head -4; grep NOT-PROVED /tmp/final/out_$id.txt | head -3; grep '^\[C' /tmp/final/out_$id.txt | tail -1; } > $f
  echo "$d: $(grep -c VIOLATION /tmp/final/out_$id.txt) violation lines, $(grep -c NOT-PROVED /tmp/final/out_$id.txt) not-proved; $(grep -o 'exit=[0-9]' $f | tail -1)"
  git -C $wt checkout -q -- .
}
export -f run_one
cut -d' ' -f1 /tmp/final/matrix.jobs | sort -u | xargs -P 2 -I{} nice -n 5 bash -c 'grep "^{} " /tmp/final/matrix.jobs | while read id d; do run_one $id $d; done'
