"""tools/collect_seeded3.py [3|4] — add the round-3 (/tmp/seed3) or round-4 (/tmp/seed4) seeded changes to
/verif/seeded/<id>/r<round>m<k> with the detection runs before (detect2_*.txt: what the checks of that moment said) and after
strengthening (detect3_*.txt, written by the final matrix run)."""
import glob
import json
import os
import re
import shutil
import sys

ROUND = sys.argv[1] if len(sys.argv) > 1 else "3"
SRC = f"/tmp/seed{ROUND}"

DST = "/verif/seeded"
confirm = {}
for line in open(f"{SRC}/confirm.log"):
    m = re.match(r"(C\d+)/(\w+) clean=(\d+) patched=(\d+) suite: (\d+) failed, (\d+) passed", line)
    if m:
        confirm[(m.group(1), m.group(2))] = {"demo_exit_clean": int(m.group(3)), "demo_exit_patched": int(m.group(4)),
                                              "failing_tests_with_patch": int(m.group(5)), "passing_tests_with_patch": int(m.group(6))}
n = 0
for pid in sorted(os.listdir(SRC)):
    if not re.fullmatch(r"C\d+", pid):
        continue
    for m in ("m1", "m2"):
        d = f"{SRC}/{pid}/{m}"
        c = confirm.get((pid, m))
        if not (os.path.exists(f"{d}/patch.diff") and c):
            continue
        if c["demo_exit_clean"] != 0 or c["demo_exit_patched"] == 0 or c["failing_tests_with_patch"] != 11 or c["passing_tests_with_patch"] != 1212:
            continue
        out = f"{DST}/{pid}/r{ROUND}{m}"
        os.makedirs(out, exist_ok=True)
        for f in ("patch.diff", "demo.py"):
            shutil.copy(f"{d}/{f}", f"{out}/{f}")
        for f in glob.glob(f"{d}/detect[23]_*.txt"):
            shutil.copy(f, out)
        meta = json.load(open(f"{d}/meta.json")) if os.path.exists(f"{d}/meta.json") else {}
        meta.update({"property": pid, "breaks_property": pid, "round": int(ROUND),
                     "confirmed_by_me": dict(c, baseline_failing_tests=11, how="scratch worktree at the current /repo HEAD: "
                                             "PYTHONPATH=<worktree> demo.py clean / patched; full suite with the patch")})
        det = {}
        for tagname, pat in (("first_run", "detect2_*.txt"), ("after_strengthening", "detect3_*.txt")):
            for f in sorted(glob.glob(f"{out}/{pat}")):
                prop = os.path.basename(f)[8:-4]
                txt = open(f, errors="replace").read()
                viol = re.findall(r"VIOLATION property=\S+ replay=\S+ obligation=(\S+)( no-failing-input-found)?", txt)
                det.setdefault(tagname, {})[prop] = {"detected": bool(viol), "with_concrete_witness": any(not s for _, s in viol),
                                                      "first_obligation": viol[0][0] if viol else None,
                                                      "not_proved_lines": len(re.findall(r"^NOT-PROVED", txt, re.M))}
        meta[f"checks_run_round{ROUND}"] = det
        json.dump(meta, open(f"{out}/meta.json", "w"), indent=1)
        n += 1
        print(pid, m, {k: {p: v["detected"] for p, v in d_.items()} for k, d_ in det.items()})
print(n, "changes collected")
