"""tools/pin_layout.py — freeze the record declarations of the clean tree as the package `ceos_alos2_pinned` under
spec/pinned/. The bounded stand-ins synthesise their input files from THIS copy (a specification, like spec/tables), never
from the declarations of the tree under test: a change to a declaration must not change the files the reader is tested on.
Run only on a clean /repo (like table generation); the commit is recorded in spec/pinned/PINNED_FROM."""
import os
import re
import shutil
import subprocess

SRC = "/repo/ceos_alos2"
DST = "/verif/spec/pinned/ceos_alos2_pinned"
dirty = subprocess.run(["git", "-C", "/repo", "status", "--porcelain"], capture_output=True, text=True).stdout.strip()
assert not dirty, "refusing to pin a modified tree:\n" + dirty
shutil.rmtree(DST, ignore_errors=True)
n = 0
for root, dirs, files in os.walk(SRC):
    dirs[:] = [d for d in dirs if d not in ("tests", "__pycache__")]
    for f in files:
        if not f.endswith(".py"):
            continue
        rel = os.path.relpath(os.path.join(root, f), SRC)
        out = os.path.join(DST, rel)
        os.makedirs(os.path.dirname(out), exist_ok=True)
        text = open(os.path.join(root, f)).read()
        text = re.sub(r"\bceos_alos2\b", "ceos_alos2_pinned", text)
        open(out, "w").write(text)
        n += 1
head = subprocess.run(["git", "-C", "/repo", "rev-parse", "HEAD"], capture_output=True, text=True).stdout.strip()
open("/verif/spec/pinned/PINNED_FROM", "w").write(f"{head}\n{n} modules copied from {SRC} with the package renamed\n")
print("pinned", n, "modules from", head)
