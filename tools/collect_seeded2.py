"""tools/collect_seeded2.py — add the round-2 seeded changes (/tmp/seed2) to /verif/seeded and rewrite MATRIX.md from the
latest detection runs (detect2_*.txt: runs under the final policy; detect_*.txt: first-policy runs, kept for reference)"""
import glob
import json
import os
import re
import shutil

DST = "/verif/seeded"
confirm = {}
for line in open("/tmp/seed2/confirm.log"):
    m = re.match(r"(C\d+)/(\w+) clean=(\d+) patched=(\d+) failed_tests=(\d+)", line)
    if m:
        confirm[(m.group(1), m.group(2))] = {"demo_exit_clean": int(m.group(3)), "demo_exit_patched": int(m.group(4)),
                                              "failing_tests_with_patch": int(m.group(5))}
for pid in sorted(os.listdir("/tmp/seed2")):
    if not re.fullmatch(r"C\d+", pid):
        continue
    for m in sorted(os.listdir(f"/tmp/seed2/{pid}")):
        d = f"/tmp/seed2/{pid}/{m}"
        c = confirm.get((pid, m))
        if not (os.path.isdir(d) and os.path.exists(f"{d}/patch.diff") and c):
            continue
        if c["demo_exit_clean"] != 0 or c["demo_exit_patched"] == 0 or c["failing_tests_with_patch"] != 11:
            continue
        out = f"{DST}/{pid}/r2{m}"
        os.makedirs(out, exist_ok=True)
        for f in ("patch.diff", "demo.py"):
            shutil.copy(f"{d}/{f}", f"{out}/{f}")
        for f in glob.glob(f"{d}/detect2_*.txt"):
            shutil.copy(f, out)
        meta = json.load(open(f"{d}/meta.json")) if os.path.exists(f"{d}/meta.json") else {}
        meta.update({"property": pid, "breaks_property": pid, "round": 2,
                     "confirmed_by_me": dict(c, baseline_failing_tests=11, how="scratch worktree at the current /repo HEAD: "
                                             "PYTHONPATH=<worktree> demo.py clean / patched; full suite with the patch")})
        json.dump(meta, open(f"{out}/meta.json", "w"), indent=1)
rows = []
for pid in sorted(os.listdir(DST)):
    if not re.fullmatch(r"C\d+", pid):
        continue
    for m in sorted(os.listdir(f"{DST}/{pid}")):
        out = f"{DST}/{pid}/{m}"
        if not os.path.exists(f"{out}/meta.json"):
            continue
        meta = json.load(open(f"{out}/meta.json"))
        detect = {}
        for f in sorted(glob.glob(f"{out}/detect2_*.txt")):
            prop = os.path.basename(f)[8:-4]
            txt = open(f, errors="replace").read()
            viol = re.findall(r"VIOLATION property=\S+ replay=\S+ obligation=(\S+)( no-failing-input-found)?", txt)
            detect[prop] = {"detected": bool(viol), "with_concrete_witness": any(not s for _, s in viol),
                            "first_obligation": viol[0][0] if viol else None, "not_proved_lines": len(re.findall(r"^NOT-PROVED", txt, re.M))}
        meta["checks_run_final_policy"] = detect
        json.dump(meta, open(f"{out}/meta.json", "w"), indent=1)
        rows.append((pid, m, meta.get("title", meta.get("what_changed", ""))[:70], meta.get("needs_to_manifest", "")[:90], detect))
n_det = sum(1 for r in rows if any(v["detected"] for v in r[4].values()))
with open(f"{DST}/MATRIX.md", "w") as f:
    f.write("# Seeded changes and the checks that catch them (final policy)\n\n"
            f"{len(rows)} changes from two rounds of independent sub-agents; {n_det} detected. Each compiles, leaves the suite at 1212 pass / the same 11 fail, and breaks "
            "its property (demo.py exits 0 clean, 1 patched; confirmed in a scratch worktree at the current HEAD).\n"
            "`witness` = the check produced a concrete failing input; otherwise the VIOLATION line ends with `no-failing-input-found`.\n"
            "`NOT-PROVED` = the change left the verifier's reach and the bounded stand-in did not find it.\n\n"
            "| change | what it needs to manifest | check → first failed obligation |\n|---|---|---|\n")
    for pid, m, title, needs, detect in rows:
        cells = []
        for prop, dct in detect.items():
            if dct["detected"]:
                cells.append(f"**{prop}** ✔ {'(witness) ' if dct['with_concrete_witness'] else ''}`{(dct['first_obligation'] or '')[:70]}`")
            else:
                cells.append(f"{prop} ✘ " + ("NOT-PROVED only" if dct["not_proved_lines"] else "not detected"))
        f.write(f"| {pid}/{m}: {title} | {needs} | {'<br>'.join(cells) or 'not run'} |\n")
print(len(rows), "changes;", n_det, "detected")
for r in rows:
    if not any(v["detected"] for v in r[4].values()):
        print("MISSED:", r[0], r[1], r[2])
