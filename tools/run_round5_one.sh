#!/bin/bash
# usage: run.sh <id> : confirm + detect for /tmp/r5/out/<id>
id=$1; wt=/tmp/r5/$id; d=/tmp/r5/out/$id
git -C $wt checkout -q -- . ; git -C $wt clean -fdq
( cd $d && PYTHONPATH=$wt /venv/bin/python demo.py >/dev/null 2>&1; echo "clean=$?" ) > $d/confirm.txt
git -C $wt apply $d/patch.diff || { echo "apply failed" >> $d/confirm.txt; exit; }
( cd $d && PYTHONPATH=$wt /venv/bin/python demo.py >/dev/null 2>&1; echo "patched=$?" ) >> $d/confirm.txt
( cd $wt && /venv/bin/python -m pytest -q -p no:cacheprovider ceos_alos2 2>&1 | tail -1 ) >> $d/confirm.txt &
mkdir -p /tmp/r5/evidence_$id
( cd /verif && PYVC_EVIDENCE_DIR=/tmp/r5/evidence_$id PYTHONPATH=$wt PYVC_CASE_BUDGET=420 timeout 1200 ./check $id --tier quick 2>&1 | grep -E "VIOLATION|NOT-PROVED|^\[C" | cut -c1-260 ) > /tmp/r5/out_$id.txt
{ grep VIOLATION /tmp/r5/out_$id.txt | head -4; grep NOT-PROVED /tmp/r5/out_$id.txt | head -3; grep '^\[C' /tmp/r5/out_$id.txt | tail -1; } > $d/detect5_$id.txt
wait
git -C $wt checkout -q -- . ; git -C $wt clean -fdq
cat $d/confirm.txt $d/detect5_$id.txt
