#!/bin/bash
# tools/run_benign_matrix.sh — the refactorings of seeded/benign against the checks of their area (worktrees /tmp/wt4/benign{A,B,C,D});
# tools/benign_md.py rewrites seeded/benign/RESULTS.md from /tmp/final/benign/*/check_*.txt.
# false-alarm test with the final machinery: behaviour-preserving refactorings must leave every related check green
declare -A CHECKS=( [A]="C02 C11 C19 C12 C01" [B]="C03 C06 C01 C11 C07" [C]="C04 C05 C20 C17 C12" [D]="C07 C09 C10 C14 C15 C16 C13 C08" )
for a in A B C D; do
  wt=/tmp/wt4/benign$a
  for r in r1 r2 r3 r4 r5; do
    d=/verif/seeded/benign/$a-$r
    [ -f $d/patch.diff ] || continue
    git -C $wt checkout -q -- . ; git -C $wt apply $d/patch.diff || { echo "$a/$r APPLY-FAILED"; continue; }
    mkdir -p /tmp/final/benign/$a-$r
    echo ${CHECKS[$a]} | tr ' ' '\n' | xargs -P 2 -I{} bash -c "cd /verif && PYVC_EVIDENCE_DIR=/tmp/final/evidence PYTHONPATH=$wt timeout 3000 ./check {} 2>&1 | grep -E 'VIOLATION|NOT-PROVED|^\[C' | grep -v KNOWN | cut -c1-300 | (head -4; tail -1) > /tmp/final/benign/$a-$r/check_{}.txt; echo \"$a/$r {}: \$(grep -c VIOLATION /tmp/final/benign/$a-$r/check_{}.txt) violations \$(grep -c NOT-PROVED /tmp/final/benign/$a-$r/check_{}.txt) not-proved \$(grep -o 'exit=[0-9]' /tmp/final/benign/$a-$r/check_{}.txt | tail -1)\""
    git -C $wt checkout -q -- .
  done
done
