import json, os, re, shutil, sys, glob
for pid in sys.argv[1:]:
    d=f"/tmp/r5/out/{pid}"; out=f"/verif/seeded/{pid}/r5m1"
    conf=open(f"{d}/confirm.txt").read()
    clean=int(re.search(r"clean=(\d+)",conf).group(1)); patched=int(re.search(r"patched=(\d+)",conf).group(1))
    m=re.search(r"(\d+) failed, (\d+) passed",conf)
    assert clean==0 and patched!=0 and m and m.group(1)=="11" and m.group(2)=="1212", (pid,conf)
    os.makedirs(out,exist_ok=True)
    for f in ("patch.diff","demo.py"): shutil.copy(f"{d}/{f}",out)
    for f in glob.glob(f"{d}/detect5_*.txt"): shutil.copy(f,out)
    meta=json.load(open(f"{d}/meta.json"))
    meta.update({"property":pid,"breaks_property":pid,"round":5,
      "confirmed_by_me":{"demo_exit_clean":clean,"demo_exit_patched":patched,"failing_tests_with_patch":11,"passing_tests_with_patch":1212,"baseline_failing_tests":11,
        "how":"scratch worktree at the current /repo HEAD: PYTHONPATH=<worktree> demo.py clean / patched; full suite with the patch"}})
    det={}
    for f in sorted(glob.glob(f"{out}/detect5_*.txt")):
        prop=os.path.basename(f)[8:-4]; txt=open(f,errors="replace").read()
        viol=re.findall(r"VIOLATION property=\S+ replay=\S+ obligation=(\S+)( no-failing-input-found)?",txt)
        det[prop]={"detected":bool(viol),"with_concrete_witness":any(not s for _,s in viol),"first_obligation":viol[0][0] if viol else None,
                   "not_proved_lines":len(re.findall(r"^NOT-PROVED",txt,re.M)),"summary":(re.findall(r"^\[C.*$",txt,re.M) or [None])[-1]}
    meta["checks_run_round5"]=det
    json.dump(meta,open(f"{out}/meta.json","w"),indent=1)
    print(pid,det)
