"""tools/collect_seeded.py — copy the confirmed seeded changes from /tmp/seed into /verif/seeded and write MATRIX.md"""
import glob
import json
import os
import re
import shutil

SRC, DST = "/tmp/seed", "/verif/seeded"
confirm = {}
for line in open(f"{SRC}/confirm.log"):
    m = re.match(r"(C\d+)/(\w+) clean=(\d+) patched=(\d+) failed_tests=(\d+)", line)
    if m:
        confirm[(m.group(1), m.group(2))] = {"demo_exit_clean": int(m.group(3)), "demo_exit_patched": int(m.group(4)),
                                              "failing_tests_with_patch": int(m.group(5))}
rows = []
for pid in sorted(os.listdir(SRC)):
    if not re.fullmatch(r"C\d+", pid):
        continue
    for m in sorted(os.listdir(f"{SRC}/{pid}")):
        d = f"{SRC}/{pid}/{m}"
        if not (os.path.isdir(d) and os.path.exists(f"{d}/patch.diff")):
            continue
        c = confirm.get((pid, m))
        if not c or c["demo_exit_clean"] != 0 or c["demo_exit_patched"] == 0 or c["failing_tests_with_patch"] != 11:
            continue  # superseded (does not apply any more) or not confirmed
        out = f"{DST}/{pid}/{m}"
        os.makedirs(out, exist_ok=True)
        for f in ("patch.diff", "demo.py"):
            shutil.copy(f"{d}/{f}", f"{out}/{f}")
        meta = json.load(open(f"{d}/meta.json")) if os.path.exists(f"{d}/meta.json") else {}
        detect = {}
        for f in sorted(glob.glob(f"{d}/detect_*.txt")):
            prop = os.path.basename(f)[7:-4]
            txt = open(f).read()
            shutil.copy(f, f"{out}/{os.path.basename(f)}")
            viol = re.findall(r"VIOLATION property=\S+ replay=\S+ obligation=(\S+)( no-failing-input-found)?", txt)
            detect[prop] = {"detected": bool(viol), "violation_lines_shown": len(viol),
                            "with_concrete_witness": any(not s for _, s in viol), "first_obligation": viol[0][0] if viol else None}
        meta.update({"property": pid, "breaks_property": pid, "confirmed_by_me": dict(c, baseline_failing_tests=11,
                     how="scratch worktree at the current /repo HEAD: PYTHONPATH=<worktree> demo.py clean / patched; full suite with the patch"),
                     "checks_run": detect})
        if m.endswith("r"):
            meta["note"] = "rebased onto the fix commits made in this round (the sub-agent's patch no longer applied)"
        json.dump(meta, open(f"{out}/meta.json", "w"), indent=1)
        rows.append((pid, m, meta.get("title", meta.get("what_changed", ""))[:70], meta.get("needs_to_manifest", "")[:90], detect))
with open(f"{DST}/MATRIX.md", "w") as f:
    f.write("# Seeded changes and the checks that catch them\n\n"
            "Each change compiles, leaves the suite at 1212 pass / the same 11 fail, and breaks its property (demo.py exits 0 clean, 1 patched).\n"
            "`witness` = the check produced a concrete failing input; otherwise the VIOLATION line ends with `no-failing-input-found`.\n\n"
            "| change | what it needs to manifest | check → first failed obligation |\n|---|---|---|\n")
    for pid, m, title, needs, detect in rows:
        cells = []
        for prop, dct in detect.items():
            if dct["detected"]:
                cells.append(f"**{prop}** ✔ {'(witness) ' if dct['with_concrete_witness'] else ''}`{(dct['first_obligation'] or '')[:70]}`")
            else:
                cells.append(f"{prop} ✘ not detected")
        f.write(f"| {pid}/{m}: {title} | {needs} | {'<br>'.join(cells) or 'not run'} |\n")
print(len(rows), "seeded changes collected")
