"""tools/benign_md.py — rewrite seeded/benign/RESULTS.md from the final-machinery runs (/tmp/final/benign/<X-ri>/check_<PROP>.txt)."""
import glob
import json
import os
import re

SRC = "/tmp/final/benign"
rows = []
alarms = []
for d in sorted(glob.glob("/verif/seeded/benign/*-r*")):
    name = os.path.basename(d)
    meta = json.load(open(f"{d}/meta.json")) if os.path.exists(f"{d}/meta.json") else {}
    cells = []
    for f in sorted(glob.glob(f"{SRC}/{name}/check_*.txt")):
        prop = os.path.basename(f)[6:-4]
        txt = open(f, errors="replace").read()
        viol = len(re.findall(r"^VIOLATION", txt, re.M))
        npv = len(re.findall(r"^NOT-PROVED", txt, re.M))
        m = re.findall(r"exit=(\d)", txt)
        code = m[-1] if m else "?"
        if viol or code not in ("0",):
            alarms.append((name, prop, viol, code))
            cells.append(f"{prop} ✘ exit {code}, {viol} violation lines")
        else:
            cells.append(f"{prop} ✔ " + ("bounded-only" if npv else "proved"))
    rows.append((name, (meta.get("kind") or meta.get("title") or "")[:80], cells))
n_runs = sum(len(r[2]) for r in rows)
with open("/verif/seeded/benign/RESULTS.md", "w") as f:
    f.write("# Behaviour-preserving refactorings vs the checks (false-alarm test, final machinery)\n\n"
            "Every refactoring leaves the suite unchanged and, per its author's differential harness, the behaviour. Expected: every check exits 0.\n"
            "`proved` = all obligations discharged; `bounded-only` = some obligations were outside the verifier's reach and the bounded stand-in "
            "passed (NOT-PROVED lines, level exploration).\n\n"
            f"{n_runs} (refactoring, check) runs; {len(alarms)} alarms.\n\n| refactoring | kind | checks |\n|---|---|---|\n")
    for name, kind, cells in rows:
        f.write(f"| {name} | {kind.replace('|', '/')} | {', '.join(cells) or 'not run'} |\n")
print(n_runs, "runs;", len(alarms), "alarms", alarms)
