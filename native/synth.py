import struct, numpy as np
from . import walk
from ceos_alos2_pinned.sar_image.file_descriptor import file_descriptor_record as IMGFD
from ceos_alos2_pinned.sar_image.signal_data import signal_data_record as SIG
from ceos_alos2_pinned.sar_image.processed_data import processed_data_record as PROC
from ceos_alos2_pinned.sar_leader import structure as LS
from ceos_alos2_pinned.volume_directory.structure import volume_descriptor, file_descriptor, text_record

def _random_value(rng, ln, kind, names, chain):
    """random well-formed content for a leaf (numeric text for numeric adapters, a listed code for enums, ASCII text)"""
    enum = [c[1] for c in chain if c[0] == 'Enum']
    if kind.startswith('fmt:'):
        if enum:
            return int(rng.choice(list(enum[0].values())))
        return int(rng.integers(0, 2 ** min(8 * ln, 31)))
    if kind == 'bytes':
        return bytes(rng.integers(0, 256, ln, dtype='uint8'))
    if enum:
        return str(rng.choice([str(v) for v in enum[0].values()]))
    if 'AsciiInteger' in names:
        r = rng.random()
        if r < 0.15:
            return ''
        if r < 0.25:
            return str(int(rng.integers(0, 2)))  # boundary values 0 / 1
        if r < 0.33 and ln > 1:
            # full-width values (beyond 2**31 / 2**53 where the field is wide enough): all nines, or random digits
            return '9' * ln if rng.random() < 0.5 else ''.join(rng.choice(list('123456789')) + ''.join(rng.choice(list('0123456789'), ln - 1)))
        return str(int(rng.integers(0, 10 ** min(ln - 1, 9)))) if ln > 1 else str(int(rng.integers(0, 10)))
    if 'AsciiFloat' in names:
        r = rng.random()
        if r < 0.15:
            return ''
        x = float(rng.normal()) * 10 ** int(rng.integers(-3, 4))
        for fmt in (f'{{:.{max(ln - 8, 1)}E}}', f'{{:.{max(ln - 9, 1)}f}}', '{:.3f}', '{:.1f}'):
            t = fmt.format(x)
            if len(t) <= ln:
                return t
        return '0'
    alphabet = 'ABCDEFGHIJKLMNOPQRSTUVWXYZabcdefghijklmnopqrstuvwxyz0123456789 -_./:'
    # free text: boundary shapes too - blank, digits only (text that would also parse as a number), full width, right-justified;
    # TEXT_MODE makes all free-text leaves of one record take the same shape (records that are blank / numeric throughout)
    if ln == 0:
        return ''
    mode = TEXT_MODE[0] if TEXT_MODE[0] != 'mixed' else str(rng.choice(['any', 'any', 'any', 'any', 'blank', 'digits', 'full', 'right']))
    if mode == 'blank':
        return ''
    if mode == 'digits':
        return ''.join(rng.choice(list('0123456789'), int(rng.integers(1, ln + 1))))
    if mode == 'full':
        return ''.join(rng.choice(list(alphabet.replace(' ', '')), ln))
    n = int(rng.integers(0, ln + 1))
    t = ''.join(rng.choice(list(alphabet), n))
    if mode == 'right':
        return t.strip().rjust(ln)
    return t


TEXT_MODE = ['mixed']


def fill(rec, size, values, counts=None, defaults=True, rng=None):
    out=[]; end = walk.describe(rec, counts or {}, 0, (), out)
    buf = bytearray(b' '*size)
    if rng is not None:
        TEXT_MODE[0] = str(rng.choice(['mixed'] * 7 + ['blank', 'digits', 'full']))
    for path, off, ln, kind, chain in out:
        key = '.'.join(map(str,path))
        v = values.get(key)
        names = [c[0] for c in chain]
        if v is None and rng is not None and kind.split(':')[0] in ('fmt', 'bytes', 'str') and key not in values:
            v = _random_value(rng, ln, kind, names, chain)
        if kind.startswith('fmt:'):
            if v is None: v = 0
            buf[off:off+ln] = struct.pack(kind[4:], v)
        elif kind == 'bytes':
            buf[off:off+ln] = (v if v is not None else b'\0'*ln)
        elif kind.startswith('str:'):
            if v is None:
                if 'AsciiInteger' in names and defaults: v = '0'
                elif 'AsciiFloat' in names and defaults: v = '0.0'
                else: v = ''
            s = str(v)
            assert len(s) <= ln, (key, s, ln)
            buf[off:off+ln] = s.rjust(ln).encode() if ('AsciiInteger' in names or 'AsciiFloat' in names) else s.ljust(ln).encode()
    return buf, out

def preamble(seq, sub1, typ, sub2, sub3, length):
    return {'preamble.record_sequence_number': seq, 'preamble.first_record_subtype': sub1, 'preamble.record_type': typ,
            'preamble.second_record_subtype': sub2, 'preamble.third_record_subtype': sub3, 'preamble.record_length': length}

def image_file(data, level='1.5', year=2020, doy=60, ms0=1000, extra_hdr=None, extra_line=None, rng=None):
    nl, npx = data.shape
    if level == '1.1':
        rec, P, tc, bps, typ = SIG, 544, 'C*8', 8, 10
        raw = np.empty((nl, npx), dtype=[('real','>f4'),('imag','>f4')]); raw['real']=data.real; raw['imag']=data.imag
    else:
        rec, P, tc, bps, typ = PROC, 192, 'IU2', 2, 11
        raw = data.astype('>u2')
    R = P + npx*bps
    hv = preamble(1, 50, 192, 18, 18, 720) | {
        'number_of_sar_data_records': nl, 'sar_data_record_length': R,
        'sar_related_data_in_the_record.number_of_lines_per_dataset': nl,
        'sar_related_data_in_the_record.number_of_data_groups_per_line': npx,
        'sar_related_data_in_the_record.interleaving_id': 'BSQ',
        'prefix_suffix_data_locators.sar_data_format_type_code': tc,
        'prefix_suffix_data_locators.maximum_data_range_of_pixel': '' if level=='1.1' else 65535,
        'prefix_suffix_data_locators.number_of_burst_data': '',
        'prefix_suffix_data_locators.number_of_lines_per_burst': '',
        'scansar_burst_data_information.number_of_overlap_lines_with_adjacent_bursts': '',
    } | (extra_hdr or {})
    hdr, _ = fill(IMGFD, 720, hv, rng=rng)
    body = bytearray()
    for i in range(nl):
        lv = preamble(i+2, 50, typ, 18, 20, R) | {
            'sar_image_data_line_number': i+1, 'sar_image_data_record_index': 1,
            'actual_count_of_data_pixels': npx,
            'sensor_acquisition_date.year': year, 'sensor_acquisition_date.day_of_year': doy,
            'sensor_acquisition_date.milliseconds': ms0 + i,
            'sar_channel_id': 1, 'prf': 2000000+i,
        } | (extra_line(i) if extra_line else {})
        if level == '1.1':
            lv['sensor_acquisition_date_microseconds'] = (ms0+i)*1000 + 7
        pre, _ = fill(rec, P, lv, rng=rng)
        body += pre + raw[i].tobytes()
    return bytes(hdr) + bytes(body)

def leader_file(n_att=3, n_chan=2, mapproj=1, fac_len=(1000,1200,1400,1600), year=2020, att_doy=60, att_ms=1000, rng=None, att_len=16384, platform_date=(2, 28), seconds_of_day='43200.5'):
    parts = []
    counts = {('map_projection',): mapproj,
        ('attitude','data_points'): n_att, ('attitude','blanks'): att_len-16-120*n_att,
        ('data_quality_summary','relative_radiometric_quality','nominal_relative_radiometric_calibration_uncertainty'): n_chan,
        ('data_quality_summary','relative_radiometric_quality','blanks'): 512-32*n_chan,
        ('data_quality_summary','relative_geometric_quality','relative_misregistration_error'): n_chan,
        ('data_quality_summary','relative_geometric_quality','blanks'): 534+(8-n_chan)*32}
    for k in range(1,5): counts[(f'facility_related_data_{k}','raw_file_data')] = fac_len[k-1]-66
    sizes = {'file_descriptor':720,'dataset_summary':4096,'map_projection':1620*mapproj,'platform_position':4680,'attitude':att_len,
             'radiometric_data':9860,'data_quality_summary':1620,'facility_related_data_5':5000}
    for k in range(1,5): sizes[f'facility_related_data_{k}'] = fac_len[k-1]
    values = {
        'file_descriptor.map_projection.number_of_records': mapproj,
        'dataset_summary.scene_center_time': f'{year}0228120000123',
        'dataset_summary.motion_compensation_indicator': '0', 'dataset_summary.base_band_conversion_flag':'YES',
        'dataset_summary.range_compression_flag':'NO','dataset_summary.echo_tracker_status':'ON',
        'dataset_summary.clutter_lock_applied_flag':'YES','dataset_summary.auto_focusing_applied_flag':'NO',
        'dataset_summary.weighting_function_in_azimuth':'1','dataset_summary.weighting_function_in_range':'1',
        'platform_position.orbital_elements_designator':'2',
        'platform_position.datetime_of_first_point.date': f'{year} {platform_date[0]:2d} {platform_date[1]:2d}', 'platform_position.datetime_of_first_point.day_of_year': 60,
        'platform_position.datetime_of_first_point.seconds_of_day': seconds_of_day,
        'attitude.number_of_points': n_att,
        'attitude.preamble.record_length': att_len,
        'data_quality_summary.number_of_channels': n_chan,
        'radiometric_data.calibration_factor': '-83.0',
        'facility_related_data_5.calibration_mode_data_location_flag': 0,
    }
    for i in range(mapproj):
        values[f'map_projection.{i}.map_projection_designator'] = 'UTM-PROJECTION'
    for i in range(n_att):
        values[f'attitude.data_points.{i}.time.day_of_year'] = att_doy
        values[f'attitude.data_points.{i}.time.millisecond_of_day'] = att_ms + i
    for k in range(1,5):
        values[f'facility_related_data_{k}.preamble.record_length'] = fac_len[k-1]
        values[f'facility_related_data_{k}.record_sequence_number'] = k
    total = sum(sizes.values())
    buf, out = fill(LS.sar_leader_record, total, values, counts, rng=rng)
    return bytes(buf)

def volume_dir(nfp=4, created='2020030112345678', rng=None):
    fixed = {} if rng is not None else {'physical_volume_id':'PHYS','logical_volume_id':'LOGI','volume_set_id':'VSET','logical_volume_generation_country':'JAPAN',
          'logical_volume_generating_agency':'JAXA','logical_volume_generating_facility':'EICS','superstructure_format_control_document_id':'CEOS-SAR'}
    vd, _ = fill(volume_descriptor, 360, {'number_of_file_pointer_records': nfp, 'logical_volume_creation_datetime': created} | fixed, rng=rng)
    fds = b''.join(bytes(fill(file_descriptor, 360, {'referenced_file_number': i+1}, rng=rng)[0]) for i in range(nfp))
    fixed = {} if rng is not None else {'product_id':'PRODUCT:WBDR1.5RUD','location_and_datetime_of_product_creation':'PROCESS:JAPAN-JAXA-EICS  20200301 123456',
          'physical_tape_id':'TAPE','scene_id':'ORBIT:ALOS2123450000','scene_location_id':'FRAME'}
    tx, _ = fill(text_record, 360, fixed, rng=rng)
    return bytes(vd)+fds+bytes(tx)

def summary(files, shapes, order=None):
    lines = ['Odi_SiteDateTime="20200301 12:34:56"', 'Scs_SceneID="ALOS2123450000-200229"', 'Scs_SceneShift="0"',
             'Pds_ProductID="WBDR1.5RUD"', 'Pds_ResamplingMethod="NN"', 'Pds_UTM_ZoneNo="31"', 'Pds_MapDirection="MapNorth"',
             'Pds_OrbitDataPrecision="Precision"','Pds_AttitudeDataPrecision="Onboard"','Pds_PixelSpacing="25.0"',
             'Img_SceneCenterDateTime="20200229 12:00:00.123"','Img_ImageSceneCenterLatitude="1.5"',
             f'Pdi_CntOfL15ProductFileName="{len(files)}"']
    for i, f in enumerate(files): lines.append(f'Pdi_L15ProductFileName{i+1:02d}="{f}"')
    lines += ['Pdi_BitPixel="16"', 'Pdi_ProductFormat="CEOS"', 'Pdi_ProductDataSize="12.5"']
    for i, (nl,npx) in enumerate(shapes):
        lines += [f'Pdi_NoOfPixels_{i}="{npx}"', f'Pdi_NoOfLines_{i}="{nl}"']
    lines += ['Ach_TimeCheck="GOOD"','Ach_AttitudeCheck=""','Rad_PracticeResultCode="GOOD"','Lbi_Satellite="ALOS2"','Lbi_ObservationDate="20200229"','Lbi_ProcessFacility="EICS"']
    if order == 'interleaved':
        # a legal summary whose sections are not contiguous blocks and whose file lines are not in index order
        moved = [l for i, l in enumerate(lines) if i % 3 == 1]
        lines = moved[::-1] + [l for i, l in enumerate(lines) if i % 3 != 1]
    return '\n'.join(lines)+'\n'

def product(fs, root, images, level='1.5', summary_order=None, **lk):
    sid, pid = 'ALOS2123450000-200229', 'WBDR1.5RUD' if level!='1.1' else 'WBDR1.1__D'
    names = [f'VOL-{sid}-{pid}', f'LED-{sid}-{pid}'] + [f'IMG-{pol}-{sid}-{pid}' + (f'-{scan}' if scan else '') for pol, scan, _ in images] + [f'TRL-{sid}-{pid}']
    fs.makedirs(root, exist_ok=True)
    fs.pipe(f'{root}/summary.txt', summary(names, [d.shape for _,_,d in images], order=summary_order).encode())
    fs.pipe(f'{root}/{names[0]}', volume_dir(len(names)))
    fs.pipe(f'{root}/{names[1]}', leader_file(**lk))
    for n, (_,_,d) in zip(names[2:-1], images):
        fs.pipe(f'{root}/{n}', image_file(d, level))
    fs.pipe(f'{root}/{names[-1]}', b'\0'*720)
    return names
