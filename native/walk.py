import construct as C
from ceos_alos2_pinned import datatypes as D
from ceos_alos2_pinned.sar_image import enums as E

def describe(con, ctx_counts=None, base=0, path=(), out=None, chain=()):
    """walk construct object; returns end offset. ctx_counts: dict for Array counts keyed by path"""
    if out is None: out = []
    if isinstance(con, C.Renamed):
        return describe(con.subcon, ctx_counts, base, path + ((con.name,) if con.name else ()), out, chain)
    if isinstance(con, C.Struct):
        off = base
        for sc in con.subcons:
            off = describe(sc, ctx_counts, off, path, out, chain)
        return off
    if isinstance(con, C.Array):
        cnt = con.count
        if callable(cnt):
            cnt = ctx_counts[path]
        off = base
        for i in range(cnt):
            off = describe(con.subcon, ctx_counts, off, path + (i,), out, chain)
        return off
    if isinstance(con, C.StringEncoded):
        sub = con.subcon  # FixedSized(NullStripped(GreedyBytes))
        ln = sub.length
        if callable(ln): ln = ctx_counts[path]
        out.append((path, base, ln, 'str:'+con.encoding, chain)); return base+ln
    if isinstance(con, C.Enum):
        return describe(con.subcon, ctx_counts, base, path, out, chain + (('Enum', dict(con.encmapping)),))
    if isinstance(con, C.Adapter):
        info = type(con).__name__
        extra = {}
        if isinstance(con, D.Factor): extra = con.factor
        if isinstance(con, D.Metadata): extra = con.attrs
        return describe(con.subcon, ctx_counts, base, path, out, chain + ((info, extra),))
    if isinstance(con, C.FormatField):
        out.append((path, base, con.length, 'fmt:'+con.fmtstr, chain)); return base+con.length
    if isinstance(con, C.Bytes):
        out.append((path, base, con.length, 'bytes', chain)); return base+con.length
    if isinstance(con, C.Tell.__class__):
        out.append((path, base, 0, 'tell', chain)); return base
    if isinstance(con, C.Computed):
        out.append((path, base, 0, 'computed', chain)); return base
    if isinstance(con, C.Seek):
        out.append((path, base, 0, 'seek', chain)); return base
    raise TypeError(f'{path}: {type(con)}')
if __name__ == '__main__':
    from ceos_alos2_pinned.sar_image.file_descriptor import file_descriptor_record
    from ceos_alos2_pinned.sar_image.signal_data import signal_data_record
    from ceos_alos2_pinned.sar_image.processed_data import processed_data_record
    for name, rec in [('imgfd', file_descriptor_record), ('signal', signal_data_record), ('processed', processed_data_record)]:
        out=[]; end = describe(rec, {}, 0, (), out)
        print(name, 'end', end, 'fields', len(out))
    from ceos_alos2_pinned.sar_leader import structure as S
    import ceos_alos2_pinned.sar_leader.structure
    for sc in S.sar_leader_record.subcons:
        out=[]
        counts = {('attitude','data_points'):3, ('attitude','blanks'): 16384-16-360,
                  ('data_quality_summary','relative_radiometric_quality','nominal_relative_radiometric_calibration_uncertainty'):2,
                  ('data_quality_summary','relative_radiometric_quality','blanks'):512-64,
                  ('data_quality_summary','relative_geometric_quality','relative_misregistration_error'):2,
                  ('data_quality_summary','relative_geometric_quality','blanks'):534+6*32,
                  ('map_projection',):1}
        for k in range(1,5): counts[(f'facility_related_data_{k}','raw_file_data')] = 1000-66
        end = describe(sc, counts, 0, (), out)
        print(sc.name, 'end', end, 'fields', len(out))
    from ceos_alos2_pinned.volume_directory.structure import volume_descriptor, file_descriptor, text_record
    for n, r in [('vd', volume_descriptor), ('fd', file_descriptor), ('text', text_record)]:
        out=[]; print(n, describe(r, {}, 0, (), out), len(out))
    from ceos_alos2_pinned.sar_trailer.file_descriptor import file_descriptor_record as tfd
    out=[]; print('trailer', describe(tfd, {('low_resolution_image_sizes',):2, ('blanks',):720-522-52}, 0, (), out), len(out))
    print([o for o in out if o[0][0]=='number_of_low_resolution_images'])
