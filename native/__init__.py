"""native — concrete (CPython) side of the machinery: input synthesis, bounded stand-ins, replay.

Input files are synthesised from the PINNED declarations (spec/pinned/ceos_alos2_pinned, a frozen copy of the clean tree's
record declarations, see tools/pin_layout.py), never from the declarations of the tree under test."""
import os
import sys

_p = os.path.join(os.path.dirname(os.path.dirname(os.path.abspath(__file__))), "spec", "pinned")
if _p not in sys.path:
    sys.path.insert(0, _p)
