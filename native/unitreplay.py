"""native/unitreplay.py — the record contracts (spec tables) evaluated on random concrete files versus the real readers
(bounded: assumption validation on the unchanged tree, replay search after a change)."""
from __future__ import annotations

import numpy as np

from native import specval


def _files(unit, rng, any_rpc=False):
    """(file bytes, variables of the specification, callable running the real code) for one random well-formed input"""
    import fsspec

    from native import synth

    if unit == "leader":
        n_att = int(rng.integers(1, 6))
        att_len = int(rng.choice([16 + 120 * n_att, 16384, 16 + 120 * n_att + int(rng.integers(1, 300))]))
        # dates whose digits read differently once the separating blanks are gone (1/11 vs 11/1 ...) are boundary values too
        pdate = [(1, 1), (12, 31), (2, 28), (1, 11), (1, 29), (11, 1), (10, 1), (int(rng.integers(1, 13)), int(rng.integers(1, 29)))][int(rng.integers(0, 8))]
        secs = ["43200.5", "86399.999", "0.001", f"{rng.uniform(0, 86399):.6f}", f"{rng.uniform(0, 86399):.3f}",
                f"{int(rng.integers(0, 86400))}.{int(rng.integers(0, 1000000)):06d}"][int(rng.integers(0, 6))]
        data = synth.leader_file(seconds_of_day=secs, platform_date=pdate, n_att=n_att, n_chan=int(rng.integers(1, 17)), mapproj=int(rng.integers(0, 2)),
                                 fac_len=tuple(int(x) for x in rng.integers(66, 400, 4)), year=int(rng.integers(2014, 2050)),
                                 att_doy=int(rng.integers(1, 366)), att_ms=int(rng.integers(0, 86399000)), rng=rng, att_len=att_len)

        def real():
            from ceos_alos2.sar_leader.io import open_sar_leader

            return open_sar_leader({"LED": data}, "LED")

        return data, {}, real, ""
    if unit == "volume":
        y, m, d = int(rng.integers(2014, 2050)), int(rng.integers(1, 13)), int(rng.integers(1, 29))
        stamp = f"{y:04d}{m:02d}{d:02d}{int(rng.integers(0, 24)):02d}{int(rng.integers(0, 60)):02d}{int(rng.integers(0, 60)):02d}{int(rng.integers(0, 100)):02d}"
        data = synth.volume_dir(nfp=int(rng.integers(0, 7)), created=stamp, rng=rng)

        def real():
            from ceos_alos2.volume_directory.io import open_volume_directory

            return open_volume_directory({"VOL": data}, "VOL")

        return data, {}, real, ""
    if unit in ("image10s", "image11s"):
        level = "1.1" if unit == "image10s" else "1.5"
        nl, npx = int(rng.integers(1, 6)), int(rng.integers(1, 4))
        if level == "1.1":
            px = (rng.normal(size=(nl, npx)) + 1j * rng.normal(size=(nl, npx))).astype("complex64")
        else:
            px = rng.integers(0, 65536, (nl, npx)).astype("uint16")
        blank = lambda: rng.choice(["", "", 0, 1, int(rng.integers(0, 9999))]).item() if False else \
            (["", "", 0, 1, int(rng.integers(0, 9999))][int(rng.integers(0, 5))])  # noqa: E731  blank / boundary / arbitrary
        hdr = {"prefix_suffix_data_locators.maximum_data_range_of_pixel": blank(),
               "prefix_suffix_data_locators.number_of_burst_data": blank(),
               "prefix_suffix_data_locators.number_of_lines_per_burst": blank(),
               "scansar_burst_data_information.number_of_overlap_lines_with_adjacent_bursts": blank()}
        order = list(rng.permutation(nl)) if rng.random() < 0.5 else list(range(nl))[::-1]
        data = synth.image_file(px, level=level, year=int(rng.integers(2014, 2050)), doy=int(rng.integers(1, 366)),
                                ms0=int(rng.integers(0, 86000000)), extra_hdr=hdr, rng=rng,
                                extra_line=lambda i: {"sar_image_data_line_number": int(order[i]) + 1})
        rpc = int(rng.integers(1, nl + 3)) if any_rpc else nl + int(rng.integers(0, 3))

        def real():
            import io

            from ceos_alos2.sar_image.io import read_metadata
            from ceos_alos2.sar_image.metadata import transform_metadata

            header, metadata = read_metadata(io.BytesIO(data), rpc)
            group, am = transform_metadata(header, metadata)
            return {"group": group, "array_metadata": am}

        return data, {"rpc": rpc}, real, "/group"
    raise KeyError(unit)


def check_unit(unit, trials=20, seed=0, any_rpc=False):
    """(ok, evaluations, first failure or None)"""
    from pyvc import tables

    rng = np.random.default_rng(seed)
    table = tables.load_table(unit)
    decls = tables.known_decls()
    cache = {}

    def parse(text):
        t = cache.get(text)
        if t is None:
            t = cache[text] = tables.parse_term(text, decls)
        return t

    n = 0
    for _ in range(trials):
        data, variables, real, prefix = _files(unit, rng, any_rpc)
        variables = dict(variables, size_of_file_100=len(data))
        cmp = specval.Comparer({100: data}, variables, parse)
        n += 1
        try:
            got = ("return", real())
        except Exception as e:  # noqa: BLE001
            got = ("raise", e)
        applicable = []
        for i, case in enumerate(table["cases"]):
            try:
                if all(cmp.evalterm(w) for w in case["when"]):
                    applicable.append((i, case))
            except (specval.Unevaluable, ValueError, IndexError, OverflowError):
                continue
        if not applicable:
            if got[0] == "raise":
                continue  # an input outside every case's branch conditions evaluates to an error on both sides
            return False, n, {"input": data.hex()[:400] + "...", "observed": "returned", "expected": "no case of the specification applies",
                              "file_length": len(data)}
        i, case = applicable[0]
        if case["outcome"] != got[0] or (got[0] == "raise" and type(got[1]).__name__ != case.get("exc")):
            return False, n, {"input": {"unit": unit, "file_length": len(data), "vars": variables, "head": data[:64].hex()},
                              "observed": got[0] + (f" {type(got[1]).__name__}: {got[1]}"[:120] if got[0] == "raise" else ""),
                              "expected": case["outcome"] + " " + case.get("exc", "")}
        if got[0] != "return":
            continue
        res = got[1]
        if isinstance(res, dict):
            realmap = specval.real_dump(res["group"], "/group")
            realmap["/array_metadata"] = res["array_metadata"]
        else:
            realmap = specval.real_dump(res, "")
        spec = case["dump"]
        for loc in sorted(set(spec) | set(realmap)):
            if loc not in spec or loc not in realmap:
                return False, n, {"input": {"unit": unit, "file_length": len(data), "vars": variables},
                                  "observed": f"location {loc} " + ("missing in the result" if loc in spec else "not in the specification"),
                                  "expected": "same set of output locations"}
            try:
                d = cmp.match(spec[loc], realmap[loc], where=loc)
            except specval.Unevaluable as e:
                d = f"{loc}: specification term not evaluable: {e}"
            if d:
                return False, n, {"input": {"unit": unit, "file_length": len(data), "vars": variables, "bytes_hex": data.hex() if len(data) < 6000 else data[:3000].hex()},
                                  "observed": d, "expected": "value of the specification term"}
    return True, n, None
