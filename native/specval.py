"""native/specval.py — concrete semantics of the specification terms (spec/tables) and comparison with what the real code
returns on concrete files.

Two uses:
  * assumption validation (bounded): on the unchanged tree, the record contracts evaluated on random well-formed files must
    agree with the real reader run by CPython / construct / numpy — this exercises the engine's models (T1–T5) and the
    tables end to end;
  * replay: after a change, a random-file search for a concrete input on which the real code and the contract disagree
    (a found input turns `no-failing-input-found` into a confirmed violation).
The uninterpreted functions of the specification language get their intended meaning here (ascii_text = the bytes decoded
as ASCII, py_int = int(), py_float = float(), jan1_days = days from the epoch to 1 January, ...).
"""
from __future__ import annotations

import datetime as dt
import math

import numpy as np
import z3

EPOCH = dt.datetime(1970, 1, 1)


class Unevaluable(Exception):
    pass


def _fp_numeral(t):
    """Python float of a z3 floating-point numeral, bit for bit"""
    import struct

    if t.isNaN():
        return float("nan")
    if t.isInf():
        return float("-inf") if t.isNegative() else float("inf")
    eb, sb = t.ebits(), t.sbits()
    sign = 1 if t.sign() else 0
    exp = t.exponent_as_long(biased=True)
    sig = t.significand_as_long()
    bits = (sign << (eb + sb - 1)) | (exp << (sb - 1)) | sig
    if (eb, sb) == (11, 53):
        return struct.unpack(">d", bits.to_bytes(8, "big"))[0]
    if (eb, sb) == (8, 24):
        return struct.unpack(">f", bits.to_bytes(4, "big"))[0]
    raise Unevaluable("floating-point format")


class Evaluator:
    def __init__(self, files, variables=None):
        self.files = files  # fid -> bytes
        self.vars = dict(variables or {})
        self.memo = {}

    def ev(self, t):
        key = t.get_id()
        if key in self.memo:
            return self.memo[key]
        v = self._ev(t)
        self.memo[key] = v
        return v

    def _ev(self, t):
        if z3.is_int_value(t):
            return t.as_long()
        if z3.is_true(t):
            return True
        if z3.is_false(t):
            return False
        if z3.is_fp(t) and not z3.is_fp_value(t) and z3.is_app(t) and t.decl().kind() == z3.Z3_OP_FPA_FP:
            t = z3.simplify(t)
        if z3.is_fp_value(t):
            return _fp_numeral(t)
        if z3.is_rational_value(t):
            return float(t.as_fraction())
        if not z3.is_app(t):
            raise Unevaluable(str(t)[:80])
        d = t.decl()
        k = d.kind()
        name = d.name()
        ch = t.children()
        if k == z3.Z3_OP_UNINTERPRETED:
            return self.uninterpreted(name, t, ch)
        if k == z3.Z3_OP_ITE:
            return self.ev(ch[1]) if self.ev(ch[0]) else self.ev(ch[2])  # only the selected branch is evaluated
        if k in (z3.Z3_OP_AND, z3.Z3_OP_OR):
            # operand order is not meaningful in the terms (z3 sorts commutative operands): three-valued evaluation, an
            # operand that cannot be evaluated (int('') behind a blank test) only matters if the others do not decide
            decisive = k == z3.Z3_OP_OR
            err = None
            for c in ch:
                try:
                    if bool(self.ev(c)) == decisive:
                        return decisive
                except (ValueError, Unevaluable, IndexError, OverflowError) as e:
                    err = e
            if err is not None:
                raise err
            return not decisive
        if k == z3.Z3_OP_NOT:
            return not self.ev(ch[0])
        if k == z3.Z3_OP_IMPLIES:
            return (not self.ev(ch[0])) or self.ev(ch[1])
        if k in (z3.Z3_OP_EQ, z3.Z3_OP_IFF):
            a, b = self.ev(ch[0]), self.ev(ch[1])
            if isinstance(a, float) and isinstance(b, float):
                return (a != a and b != b) or (a == b and math.copysign(1, a) == math.copysign(1, b))
            return a == b
        if k == z3.Z3_OP_DISTINCT:
            vals = [self.ev(c) for c in ch]
            return len(set(vals)) == len(vals)
        vals = [self.ev(c) for c in ch]
        if k == z3.Z3_OP_ADD:
            return sum(vals)
        if k == z3.Z3_OP_SUB:
            out = vals[0]
            for v in vals[1:]:
                out -= v
            return out
        if k == z3.Z3_OP_UMINUS:
            return -vals[0]
        if k == z3.Z3_OP_MUL:
            out = 1
            for v in vals:
                out *= v
            return out
        if k in (z3.Z3_OP_IDIV, z3.Z3_OP_DIV):
            if isinstance(vals[0], int) and isinstance(vals[1], int):
                q = vals[0] // vals[1] if vals[1] > 0 else -(vals[0] // -vals[1])  # SMT-LIB div: remainder >= 0
                return q
            return vals[0] / vals[1]
        if k == z3.Z3_OP_MOD:
            return vals[0] % abs(vals[1])
        if k == z3.Z3_OP_LE:
            return vals[0] <= vals[1]
        if k == z3.Z3_OP_LT:
            return vals[0] < vals[1]
        if k == z3.Z3_OP_GE:
            return vals[0] >= vals[1]
        if k == z3.Z3_OP_GT:
            return vals[0] > vals[1]
        if k == z3.Z3_OP_TO_REAL:
            return vals[0]
        if k == z3.Z3_OP_TO_INT:
            return math.floor(vals[0])
        # floating point (binary64, round to nearest even = Python float arithmetic)
        if k == z3.Z3_OP_FPA_MUL:
            return vals[1] * vals[2]
        if k == z3.Z3_OP_FPA_ADD:
            return vals[1] + vals[2]
        if k == z3.Z3_OP_FPA_SUB:
            return vals[1] - vals[2]
        if k == z3.Z3_OP_FPA_DIV:
            return vals[1] / vals[2] if vals[2] != 0 else (float("nan") if vals[1] == 0 or vals[1] != vals[1] else math.copysign(float("inf"), vals[1]) * math.copysign(1, vals[2]))
        if k == z3.Z3_OP_FPA_NEG:
            return -vals[0]
        if k == z3.Z3_OP_FPA_IS_NAN:
            return vals[0] != vals[0]
        if k in (z3.Z3_OP_FPA_RM_NEAREST_TIES_TO_EVEN,):
            return "RNE"
        if k == z3.Z3_OP_FPA_TO_FP:
            return float(vals[-1])
        if k == z3.Z3_OP_FPA_NAN:
            return float("nan")
        if k == z3.Z3_OP_FPA_PLUS_INF:
            return float("inf")
        if k == z3.Z3_OP_FPA_MINUS_INF:
            return float("-inf")
        if k == z3.Z3_OP_FPA_PLUS_ZERO:
            return 0.0
        if k == z3.Z3_OP_FPA_MINUS_ZERO:
            return -0.0
        raise Unevaluable(f"operator {name}")

    def uninterpreted(self, name, t, ch):
        if not ch:
            if name.startswith("str:"):
                import ast

                return ast.literal_eval(name[4:])
            if name in self.vars:
                return self.vars[name]
            raise Unevaluable(f"free constant {name}")
        a = [self.ev(c) for c in ch]
        if name == "ascii_text":
            fid, off, w = a
            data = self.files[fid]
            if off < 0 or w < 0 or off + w > len(data):
                raise Unevaluable("read outside the file")
            return data[off:off + w].decode("ascii")
        if name == "be_uint":
            fid, off, w = a
            data = self.files[fid]
            if off < 0 or off + w > len(data):
                raise Unevaluable("read outside the file")
            return int.from_bytes(data[off:off + w], "big")
        if name == "byte_at":
            return self.files[a[0]][a[1]]
        if name == "py_strip":
            return a[0].strip()
        if name == "str_is_empty":
            return a[0] == ""
        if name == "str_len":
            return len(a[0])
        if name == "py_int":
            return int(a[0])
        if name == "py_float":
            return float(a[0])
        if name == "is_int_text":
            try:
                int(a[0])
                return True
            except ValueError:
                return False
        if name == "is_float_text":
            try:
                float(a[0])
                return True
            except ValueError:
                return False
        if name == "py_lower":
            return a[0].lower()
        if name == "py_upper":
            return a[0].upper()
        if name == "str_concat":
            return a[0] + a[1]
        if name == "str_slice":
            return a[0][a[1]:(None if a[2] == -1 else a[2])]
        if name == "str_contains":
            return a[1] in a[0]
        if name == "str_prefixof":
            return a[1].startswith(a[0])
        if name == "str_suffixof":
            return a[1].endswith(a[0])
        if name == "split1_head":
            return a[0].split(a[1], 1)[0]
        if name == "split1_tail":
            return a[0].split(a[1], 1)[1]
        if name == "split_join":
            return a[0].join(a[1].split())
        if name == "str_of_int":
            return str(a[0])
        if name == "py_isdigit":
            return a[0].isdigit()
        if name == "py_removeprefix":
            return a[0].removeprefix(a[1])
        if name == "i2f":
            return float(a[0])
        if name == "py_floordiv":
            return a[0] // a[1]
        if name == "ceil_div":
            return -((-a[0]) // a[1])
        if name == "jan1_days":
            return (dt.datetime(a[0], 1, 1) - EPOCH).days
        if name == "strptime_us":
            d = dt.datetime.strptime(a[0], a[1])
            return ((d - EPOCH).days * 86400 + (d - EPOCH).seconds) * 10**6 + (d - EPOCH).microseconds
        if name == "isoformat":
            return (EPOCH + dt.timedelta(microseconds=a[0])).isoformat()
        if name == "seconds_to_us":
            td = dt.timedelta(seconds=a[0])
            return (td.days * 86400 + td.seconds) * 10**6 + td.microseconds
        if name == "np_datetime64_ns":
            return int(np.datetime64(a[0], "ns").astype("int64"))
        if name == "year_of_us":
            return (EPOCH + dt.timedelta(microseconds=a[0])).year
        raise Unevaluable(f"function {name}")


# ---------------------------------------------------------------------------------------------------
# comparison of a real (concrete) result with a specification dump
# ---------------------------------------------------------------------------------------------------
def _to_py(v):
    if isinstance(v, np.generic):
        return v.item()
    return v


def _same_scalar(real, want, sort=None):
    if (isinstance(real, np.ndarray) and real.ndim > 0) or isinstance(real, (list, tuple, dict)):
        return False  # a container where the contract has a scalar
    real = _to_py(real)
    if isinstance(real, np.datetime64) or sort == "dt64":
        real = int(np.datetime64(real, "ns").astype("int64"))
    if isinstance(real, np.timedelta64) or sort == "td64":
        real = int(np.timedelta64(real, "ns").astype("int64")) if not isinstance(real, int) else real
    if isinstance(real, dt.datetime):
        d = real - EPOCH
        real = (d.days * 86400 + d.seconds) * 10**6 + d.microseconds
    if isinstance(want, float) or isinstance(real, float):
        try:
            r, w = float(real), float(want)
        except (TypeError, ValueError):
            return False
        return (r != r and w != w) or (r == w and math.copysign(1, r) == math.copysign(1, w))
    if isinstance(want, bool) or isinstance(real, bool):
        return bool(real) == bool(want) and isinstance(real, (bool, np.bool_)) == isinstance(want, bool)
    return real == want and type(real) is type(want)


class Comparer:
    def __init__(self, files, variables, parse):
        self.files, self.vars, self.parse = files, dict(variables), parse

    def evalterm(self, text, extra=None):
        ev = Evaluator(self.files, {**self.vars, **(extra or {})})
        return ev.ev(self.parse(text))

    def match(self, entry, real, extra=None, where=""):
        """first difference between a dump entry (specification) and a concrete value, or None"""
        if "py" in entry:
            want = eval(entry["py"], {"nan": float("nan"), "inf": float("inf"), "datetime": dt, "dtype": np.dtype})
            if isinstance(want, (list, tuple, dict)):
                return None if _norm(real) == _norm(want) else f"{where}: {real!r:.80} != {want!r:.80}"
            return None if _same_scalar(real, want) or real == want else f"{where}: {real!r:.80} != {want!r:.80}"
        if "sym" in entry:
            want = self.evalterm(entry["t"], extra)
            return None if _same_scalar(real, want, entry["sym"]) else f"{where}: real {real!r:.60} != spec {want!r:.60}"
        if "complex" in entry:
            re_, im_ = (self.evalterm(x, extra) for x in entry["complex"])
            ok = isinstance(real, complex) and _same_scalar(real.real, re_) and _same_scalar(real.imag, im_)
            return None if ok else f"{where}: real {real!r} != spec {complex(re_, im_)!r}"
        if "list" in entry or "tuple" in entry:
            items = entry.get("list", entry.get("tuple"))
            if "tuple" in entry and not isinstance(real, tuple):
                return f"{where}: {type(real).__name__} instead of tuple"
            try:
                seq = list(real)
            except TypeError:
                return f"{where}: not a sequence: {real!r:.60}"
            if len(seq) != len(items):
                return f"{where}: length {len(seq)} != {len(items)}"
            for i, (e, r) in enumerate(zip(items, seq)):
                d = self.match(e, r, extra, f"{where}[{i}]")
                if d:
                    return d
            return None
        if "seq" in entry or ("nd" in entry and "len" in entry):
            n = self.evalterm(entry["len"], extra)
            try:
                seq = list(real)
            except TypeError:
                return f"{where}: not a sequence"
            if len(seq) != n:
                return f"{where}: length {len(seq)} != spec {n}"
            depth = len([k for k in (extra or {}) if k.startswith("K")])
            for i, r in enumerate(seq):
                d = self.match(entry["elem"], r, {**(extra or {}), f"K{depth}": i}, f"{where}[{i}]")
                if d:
                    return d
            if "nd" in entry and isinstance(real, np.ndarray) and str(real.dtype) != entry["nd"] and entry["nd"] != "None":
                return f"{where}: dtype {real.dtype} != {entry['nd']}"
            return None
        if "nd" in entry and "list" in entry:
            return self.match({"list": entry["list"]}, real, extra, where)
        if "dict" in entry:
            if not isinstance(real, dict) or sorted(real) != sorted(entry["dict"]):
                return f"{where}: keys {list(real) if isinstance(real, dict) else type(real).__name__} != {list(entry['dict'])}"
            for k, e in entry["dict"].items():
                d = self.match(e, real[k], extra, f"{where}.{k}")
                if d:
                    return d
            return None
        if "bytes" in entry:
            fid, off, ln = (self.evalterm(x, extra) for x in entry["bytes"])
            return None if bytes(real) == self.files[fid][off:off + ln] else f"{where}: bytes differ"
        return None  # entries without a concrete counterpart (opaque byte terms, numpy placeholders)


def _norm(v):
    if isinstance(v, (list, tuple)):
        return [type(v).__name__] + [_norm(x) for x in v]
    if isinstance(v, dict):
        return {k: _norm(x) for k, x in v.items()}
    return v


def real_dump(group, prefix=""):
    """concrete counterpart of pyvc.dump.Dumper.group: location -> concrete value"""
    out = {}
    for k, v in group.attrs.items():
        out[f"{prefix}/@{k}"] = v
    out[f"{prefix}#children"] = list(group.data)
    out[f"{prefix}#path"] = group.path
    out[f"{prefix}#url"] = group.url
    for name, item in group.data.items():
        tn = type(item).__name__
        if tn == "Group":
            out.update(real_dump(item, f"{prefix}/{name}"))
        elif tn == "Variable":
            loc = f"{prefix}/{name}"
            out[loc + "#dims"] = item.dims
            out[loc + "#data"] = item.data
            out[loc + "#attrs"] = list(item.attrs)
            for k, v in item.attrs.items():
                out[f"{loc}@{k}"] = v
    return out
