"""native/e2e.py — end-to-end bounded stand-ins on synthetic products (real code, CPython): product construction,
canonical form of a tree, helpers shared by C13 / C07 / C09 / C10 / C18 replays. Never counted as proved."""
from __future__ import annotations

import itertools
import os
import tempfile

import numpy as np

_ENV_DONE = False


def isolate_cache():
    """point the user cache dir of ceos_alos2 at a private temporary directory (must run before any cache use)"""
    global _ENV_DONE
    d = tempfile.mkdtemp(prefix="ceos_cache_")
    import pathlib

    from ceos_alos2.sar_image.caching import path as P

    P.cache_root = pathlib.Path(d) / "xarray-ceos-alos2"
    _ENV_DONE = True
    return P.cache_root


POLS = ["HH", "HV", "VH", "VV"]
SCANS = [None, "F1", "F2", "F3", "B4", "F5"]


def image_specs(k, level, seed=0):
    """k (polarisation, scan, data) triples with pairwise distinct (polarisation, scan number) and distinct pixels"""
    rng = np.random.default_rng(seed + 17 * k)
    combos = [(p, s) for s in SCANS for p in POLS]
    rng.shuffle(combos)
    if level == "1.1":
        combos = [(p, s) for p, s in combos]
    out = []
    used = set()
    for p, s in combos:
        key = (p, s[1] if s else None)
        if key in used:
            continue
        used.add(key)
        nl, npx = int(rng.integers(1, 5)), int(rng.integers(1, 4))
        if level == "1.1":
            d = (rng.normal(size=(nl, npx)) + 1j * rng.normal(size=(nl, npx))).astype("complex64")
        else:
            d = rng.integers(0, 65536, (nl, npx)).astype("uint16")
        out.append((p, s, d))
        if len(out) == k:
            break
    return out


def make_product(root, k=2, level="1.5", seed=0, fs=None, images=None, **leader_kw):
    import fsspec

    from native import synth

    fs = fs or fsspec.filesystem("memory")
    images = images if images is not None else image_specs(k, level, seed)
    # every other product gets a summary whose sections are interleaved and whose file lines are out of index order (legal: C14)
    leader_kw.setdefault("summary_order", "interleaved" if (seed + len(images)) % 2 else None)
    names = synth.product(fs, root, images, level=level, **leader_kw)
    return fs, images, names


def group_name(pol, scan):
    return "_".join([x for x in (pol, f"scan{scan[1]}" if scan else None) if x])


def canon(tree):
    """canonical, comparable form of a DataTree: node paths in order, per node: dims, coords, variables with dtype / shape /
    attrs / encoding-free values, attrs"""
    out = []
    for node in tree.subtree:
        ds = node.to_dataset(inherit=False) if hasattr(node, "to_dataset") else node.ds
        entry = {"path": node.path, "attrs": _canon_attrs(ds.attrs), "coords": list(ds.coords), "vars": {}}
        for name, v in ds.variables.items():
            vals = np.asarray(v.values)
            entry["vars"][name] = {"dims": list(v.dims), "dtype": str(vals.dtype), "shape": list(vals.shape),
                                   "attrs": _canon_attrs(v.attrs), "bytes": _bits(vals),
                                   "preferred_chunks": dict(v.encoding.get("preferred_chunksizes") or {})}
        out.append(entry)
    return out


def _bits(a):
    if a.dtype == object:
        return repr(a.tolist())
    return a.tobytes().hex() if a.size < 4096 else hash(a.tobytes())


def _canon_attrs(attrs):
    def c(v):
        if isinstance(v, float) and v != v:
            return "nan"
        if isinstance(v, (list, tuple)):
            return [type(v).__name__] + [c(x) for x in v]
        if isinstance(v, np.ndarray):
            return ["ndarray", str(v.dtype), v.tolist()]
        if isinstance(v, np.generic):
            return v.item()
        return v

    return {k: c(v) for k, v in attrs.items()}


def first_difference(a, b):
    if len(a) != len(b):
        return f"node count {len(a)} vs {len(b)}: {[x['path'] for x in a]} vs {[x['path'] for x in b]}"
    for x, y in zip(a, b):
        if x["path"] != y["path"]:
            return f"node order/path {x['path']} vs {y['path']}"
        for k in ("attrs", "coords"):
            if x[k] != y[k]:
                return f"{x['path']}: {k} differ: {str(x[k])[:120]} vs {str(y[k])[:120]}"
        if list(x["vars"]) != list(y["vars"]):
            return f"{x['path']}: variables {list(x['vars'])} vs {list(y['vars'])}"
        for n in x["vars"]:
            if x["vars"][n] != y["vars"][n]:
                return f"{x['path']}/{n}: {str({k: v for k, v in x['vars'][n].items() if v != y['vars'][n][k]})[:200]}"
    return None
