"""Bounded stand-ins / replay search on the REAL code for the array chain (C01, C02, C06, C11, C12).

These run the real ceos_alos2 functions under CPython on small synthetic images and compare with NumPy on the
decoded matrix. They are (a) the replay search for a failed obligation, (b) a bounded cross-check that is always
run and always labelled bounded — never counted as proved.
"""
from __future__ import annotations

import itertools
import struct
import threading

import fsspec
import numpy as np
import xarray as xr
from fsspec.implementations.dirfs import DirFileSystem
from xarray.core import indexing

_counter = itertools.count()


class TraceFS:
    """wraps a memory filesystem and records open/seek/read events"""

    def __init__(self, root):
        self.mem = fsspec.filesystem("memory")
        self.root = root
        self.events = []

    def dirfs(self):
        fs = DirFileSystem(path=self.root, fs=self.mem)
        outer = self

        class Traced(DirFileSystem):
            def open(self_inner, path, *a, **k):  # noqa: N805
                outer.events.append(("open", path))
                f = DirFileSystem.open(self_inner, path, *a, **k)
                return _TracedFile(f, outer.events, path)

        return Traced(path=self.root, fs=self.mem)


class _TracedFile:
    def __init__(self, f, events, path):
        self.f, self.events, self.path = f, events, path

    def __enter__(self):
        self.f.__enter__()
        return self

    def __exit__(self, *a):
        return self.f.__exit__(*a)

    def seek(self, o, *a):
        self.events.append(("seek", self.path, o))
        return self.f.seek(o, *a)

    def read(self, n=-1):
        pos = self.f.tell()
        data = self.f.read(n)
        self.events.append(("read", self.path, pos, n, len(data)))
        return data

    def __getattr__(self, name):
        return getattr(self.f, name)


def make_image(n, w, type_code, prefix, gap, seed):
    """file bytes with n rows of w samples; returns (bytes, byte_ranges, matrix)"""
    rng = np.random.default_rng(seed)
    if type_code == "IU2":
        m = rng.integers(0, 65536, size=(n, w)).astype(">u2")
        m.flat[0] = 0
        m.flat[-1] = 65535
        size = 2
        mat = m.astype("uint16")
    else:
        bits = rng.integers(0, 2**32, size=(n, w, 2), dtype=np.uint64).astype(">u4")
        specials = [0x00000000, 0x80000000, 0x7F800000, 0xFF800000, 0x7FC00000, 0x3F800000, 0x00000001]
        flat = bits.reshape(-1)
        for i, sp in enumerate(specials):
            if i < flat.size:
                flat[(i * 3) % flat.size] = sp
        m = bits
        size = 8
        mat = None
    buf = bytearray(b"\xAA" * gap)
    ranges = []
    rows = []
    for i in range(n):
        buf += bytes([0x55]) * prefix
        start = len(buf)
        row = m[i].tobytes()
        buf += row
        ranges.append((start, len(buf)))
        rows.append(row)
    buf += b"\xBB" * 3
    return bytes(buf), ranges, rows


def expected_matrix(rows, type_code, w):
    if type_code == "IU2":
        return np.stack([np.frombuffer(r, ">u2").astype("uint16") for r in rows])
    out = np.empty((len(rows), w), dtype="complex64")
    for i, r in enumerate(rows):
        raw = np.frombuffer(r, ">u4").reshape(w, 2)
        out[i].real = raw[:, 0].astype("<u4").view("<f4")
        out[i].imag = raw[:, 1].astype("<u4").view("<f4")
    return out


def bits_equal(a, b):
    a = np.asarray(a)
    b = np.asarray(b)
    if a.shape != b.shape:
        return False
    if a.dtype.kind != b.dtype.kind or a.dtype.itemsize != b.dtype.itemsize:
        return False
    return a.astype(a.dtype.newbyteorder("<")).tobytes() == b.astype(b.dtype.newbyteorder("<")).tobytes()


def small_keys(n, extra=False):
    keys = list(range(n))
    vals = [None, 0, 1, n - 1, n, n + 1, -1, -n, -n - 1]
    steps = [None, 1, 2, 3]
    for a in vals:
        for b in vals:
            for s in steps:
                keys.append(slice(a, b, s))
    return keys


def build_array(n, w, type_code, rpc, prefix=5, gap=7, seed=0):
    from ceos_alos2.array import Array

    content, ranges, rows = make_image(n, w, type_code, prefix, gap, seed)
    t = TraceFS(f"/arr{next(_counter)}")
    t.mem.pipe(f"{t.root}/img", content)
    fs = t.dirfs()
    dtype = {"IU2": "uint16", "C*8": "complex64"}[type_code]
    arr = Array(fs=fs, url="img", byte_ranges=ranges, shape=(n, w), dtype=dtype, type_code=type_code, records_per_chunk=rpc)
    return arr, t, expected_matrix(rows, type_code, w), ranges, len(content)


def check_getitem(budget=4000, seed=0, sizes=((1, 1), (1, 3), (3, 1), (3, 24), (4, 3), (2, 9), (5, 2))):
    """backend-level: Array[(k0, k1)] vs NumPy for every int / slice key the BASIC adapter can send"""
    n_eval = 0
    for tc in ("IU2", "C*8"):
        for n, w in sizes:
            for rpc in sorted({1, 2, n - 1, n, n + 1} - {0}):
                arr, t, M, ranges, flen = build_array(n, w, tc, rpc, seed=seed)
                c = min(rpc, n)
                k1s = [slice(None), 0, w - 1, slice(0, w, 2), slice(1, None), slice(w, None)]
                if w >= 8:
                    # narrow windows of a wide line (at most 1/8 of it), single-column windows
                    k1s += [slice(2, 4), slice(w // 2, w // 2 + 1), slice(0, w // 8), slice(w - 2, w), slice(5, 6, 1)]
                elif w > 1:
                    k1s += [slice(w - 1, w)]
                for k0 in small_keys(n):
                    for k1 in k1s:
                        if n_eval >= budget:
                            return True, n_eval, None
                        n_eval += 1
                        del t.events[:]
                        want = M[k0, k1]
                        try:
                            got = arr[(k0, k1)]
                        except Exception as e:  # noqa: BLE001
                            return False, n_eval, dict(type_code=tc, shape=(n, w), rpc=rpc, key=repr((k0, k1)),
                                                       observed=f"{type(e).__name__}: {e}", expected=f"array of shape {want.shape}")
                        if not bits_equal(got, want):
                            return False, n_eval, dict(type_code=tc, shape=(n, w), rpc=rpc, key=repr((k0, k1)),
                                                       observed=f"shape {np.shape(got)} dtype {getattr(got, 'dtype', None)} values {np.asarray(got).ravel()[:6]!r}",
                                                       expected=f"shape {want.shape} dtype {want.dtype} values {want.ravel()[:6]!r}")
                        bad = check_events(t.events, k0, n, c, ranges, flen)
                        if bad:
                            return False, n_eval, dict(type_code=tc, shape=(n, w), rpc=rpc, key=repr((k0, k1)), observed=bad,
                                                       expected="one (seek, read) per touched chunk, inside the chunk and the file", io=True)
    return True, n_eval, None


def check_events(events, k0, n, c, ranges, flen):
    """C11 on the real code: one open; per touched chunk exactly one seek+read of [min start, max stop]"""
    rows = [k0] if isinstance(k0, int) else list(range(n)[k0])
    chunks = []
    for r in rows:
        k = r // c
        if not chunks or chunks[-1] != k:
            chunks.append(k)
    opens = [e for e in events if e[0] == "open"]
    if len(opens) != 1 or opens[0][1] != "img":
        return f"opens: {opens}"
    io = [e for e in events if e[0] != "open"]
    want = []
    for k in chunks:
        rs = range(k * c, min((k + 1) * c, n))
        lo = min(ranges[r][0] for r in rs)
        hi = max(ranges[r][1] for r in rs)
        want += [("seek", "img", lo), ("read", "img", lo, hi - lo, hi - lo)]
    if io != want:
        return f"events {io[:6]} != expected {want[:6]}"
    return None


def check_xarray_indexing(budget=1500, seed=0):
    """xarray-level (C02 statement): isel / [] on the lazily indexed variable vs the in-memory twin"""
    from ceos_alos2.hierarchy import Variable
    from ceos_alos2.xarray import to_variable

    rng = np.random.default_rng(seed)
    n_eval = 0
    known = []
    for tc in ("IU2", "C*8"):
        for n, w in ((1, 2), (4, 3), (5, 1)):
            for rpc in (1, 2, n, n + 2):
                arr, t, M, ranges, flen = build_array(n, w, tc, rpc, seed=seed + 1)
                lazy = xr.DataArray(to_variable(Variable(["rows", "columns"], arr, {})))
                twin = xr.DataArray(M, dims=["rows", "columns"])
                sel = []
                for k in small_keys(n)[: n + 40]:
                    sel.append({"rows": k})
                for a in (None, 0, -1, n, -n - 1):
                    for b in (None, 0, 1, n, -1):
                        for s in (-1, -2, -3):
                            sel.append({"rows": slice(a, b, s)})
                sel += [{"columns": k} for k in (0, -1, slice(None, None, -1), slice(1, None), [0], [w - 1, 0])]
                sel += [{"rows": [0], "columns": slice(None)}, {"rows": [n - 1, 0]}, {"rows": np.array([True] * n)},
                        {"rows": np.arange(n) % 2 == 0}, {"rows": [], "columns": slice(None)}, {"rows": -1, "columns": -1},
                        {"rows": xr.DataArray([0, n - 1], dims="z"), "columns": xr.DataArray([0, w - 1], dims="z")},
                        {"rows": slice(None, None, -1), "columns": slice(None, None, -1)}]
                ref = xr.DataArray(xr.Variable(["rows", "columns"], indexing.LazilyIndexedArray(_RefBackend(M))))
                for s_ in sel:
                    if n_eval >= budget:
                        return True, n_eval, None, known
                    n_eval += 1
                    try:
                        want = twin.isel(s_)
                        want_o = ("ok", want.dims, want.shape, want.values)
                    except Exception:  # the selection itself is invalid for NumPy/xarray
                        continue
                    got_o = _outcome(lambda: lazy.isel(s_))
                    ref_o = _outcome(lambda: ref.isel(s_))
                    if not _same_outcome(got_o, ref_o):
                        return False, n_eval, dict(type_code=tc, shape=(n, w), rpc=rpc, selection=repr(s_), observed=_show(got_o),
                                                   expected=_show(ref_o)), known
                    if not _same_outcome(ref_o, want_o):
                        # xarray's own lazy-indexing layer (over a plain NumPy backend) already deviates from NumPy
                        kind = "xarray-lazy-layer:" + ("raises " + ref_o[1] if ref_o[0] == "exc" else "shape/values differ")
                        known.append((kind, repr(s_), _show(ref_o), _show(want_o)))
    return True, n_eval, None, known


class _RefBackend(xr.backends.BackendArray):
    """reference backend: the same adapter protocol over the in-memory matrix"""

    def __init__(self, m):
        self.m = m
        self.shape = m.shape
        self.dtype = m.dtype

    def __getitem__(self, key):
        return indexing.explicit_indexing_adapter(key, self.shape, indexing.IndexingSupport.BASIC, lambda k: self.m[k])


def _outcome(f):
    try:
        r = f()
        return ("ok", r.dims, r.shape, r.values)
    except Exception as e:  # noqa: BLE001
        return ("exc", type(e).__name__, str(e)[:120])


def _same_outcome(a, b):
    if a[0] != b[0]:
        return False
    if a[0] == "exc":
        return a[1] == b[1]
    return a[1] == b[1] and a[2] == b[2] and bits_equal(a[3], b[3])


def _show(o):
    return f"{o[1]}: {o[2]}" if o[0] == "exc" else f"dims {o[1]} shape {o[2]} values {np.asarray(o[3]).ravel()[:4]!r}"


def check_decode(seed=0):
    """C01 decode on the real parse_data: every special float bit pattern and u16 extreme, bit for bit"""
    from ceos_alos2.array import parse_data

    pats = [0x00000000, 0x80000000, 0x7F800000, 0xFF800000, 0x7FC00000, 0xFFC00000, 0x7F800001, 0x7FA00000,
            0x3F800000, 0xBF800000, 0x00000001, 0x80000001, 0x7F7FFFFF, 0x00800000, 0x12345678]
    n_eval = 0
    for a in pats:
        for b in pats:
            n_eval += 1
            buf = struct.pack(">II", a, b)
            out = parse_data(buf, "C*8")
            got = np.frombuffer(np.asarray(out).astype("<c8").tobytes(), "<u4")
            if out.dtype.kind != "c" or out.dtype.itemsize != 8 or (int(got[0]), int(got[1])) != (a, b):
                return False, n_eval, dict(input=buf.hex(), observed=[hex(int(x)) for x in got], expected=[hex(a), hex(b)])
    for v in (0, 1, 255, 256, 32767, 32768, 65535, 0x1234):
        n_eval += 1
        out = parse_data(struct.pack(">H", v) * 3, "IU2")
        if out.dtype.kind != "u" or out.dtype.itemsize != 2 or list(map(int, out)) != [v] * 3:
            return False, n_eval, dict(input=v, observed=repr(out), expected=[v] * 3)
    return True, n_eval, None


def check_post_init(seed=0, trials=300):
    """class invariant of Array after __post_init__ on random small inputs: records_per_chunk = min(rpc, n) (1024 for None),
    one chunk entry per ceil(n/c) chunk whose span is exactly [min start, max stop] of the chunk's rows"""
    import fsspec
    from fsspec.implementations.dirfs import DirFileSystem

    from ceos_alos2.array import Array

    rng = np.random.default_rng(seed)
    fs = DirFileSystem(path="/x", fs=fsspec.filesystem("memory"))
    n_eval = 0
    for _ in range(trials):
        n = int(rng.integers(1, 13))
        starts = rng.integers(0, 1000, n)
        ranges = [(int(s), int(s) + 8) for s in starts]
        for rpc in [None] + sorted({1, 2, max(1, n - 1), n, n + 1, n + 2}):
            n_eval += 1
            arr = Array(fs=fs, url="f", byte_ranges=ranges, shape=(n, 4), dtype="uint16", type_code="IU2", records_per_chunk=rpc)
            c = 1024 if rpc is None else min(rpc, n)  # None: the documented default, not clamped
            want = {}
            for k in range(-(-n // c)):
                rows = ranges[k * c:(k + 1) * c]
                lo, hi = min(r[0] for r in rows), max(r[1] for r in rows)
                want[k] = {"offset": lo, "size": hi - lo}
            if arr.records_per_chunk != c or dict(arr.chunk_offsets) != want:
                return False, n_eval, dict(input={"byte_ranges": ranges, "records_per_chunk": rpc},
                                           observed={"records_per_chunk": arr.records_per_chunk, "chunk_offsets": dict(arr.chunk_offsets)},
                                           expected={"records_per_chunk": c, "chunk_offsets": want})
    return True, n_eval, None


def check_concurrent_loads(seed=0, threads=8, rounds=40):
    """sampled schedules: several threads load overlapping selections of the same / different lazily wrapped images and
    of pickled copies; every result must equal the sequential one (bounded stand-in for C19's hypotheses)"""
    import pickle
    import threading

    import xarray as xr

    from ceos_alos2.hierarchy import Variable
    from ceos_alos2.xarray import to_variable

    rng = np.random.default_rng(seed)
    arrs = [build_array(6, 3, tc, rpc, seed=seed + i) for i, (tc, rpc) in enumerate((("IU2", 2), ("C*8", 4), ("IU2", 6)))]
    lazy = [xr.DataArray(to_variable(Variable(["rows", "columns"], a[0], {}))) for a in arrs]
    mats = [a[2] for a in arrs]
    try:
        lazy += [pickle.loads(pickle.dumps(lazy[0]))]
        mats += [arrs[0][2]]
    except Exception:  # noqa: BLE001  (the tracing filesystem of the harness is not picklable)
        pass
    keys = [slice(None), slice(1, 5), slice(None, None, 2), 3, slice(4, None)]
    n_eval = 0
    errors = []

    def work(tid):
        r = np.random.default_rng(seed * 1000 + tid)
        for _ in range(rounds):
            i = int(r.integers(0, len(lazy)))
            k = keys[int(r.integers(0, len(keys)))]
            try:
                got = lazy[i].isel(rows=k).values
                if not bits_equal(got, mats[i][k]):
                    errors.append(dict(image=i, key=repr(k), observed=repr(got)[:120], expected=repr(mats[i][k])[:120]))
            except Exception as e:  # noqa: BLE001
                errors.append(dict(image=i, key=repr(k), observed=f"{type(e).__name__}: {e}"[:160], expected="values of the sequential load"))

    ts = [threading.Thread(target=work, args=(t,)) for t in range(threads)]
    for t in ts:
        t.start()
    for t in ts:
        t.join(120)
    n_eval = threads * rounds
    if any(t.is_alive() for t in ts):
        return False, n_eval, dict(input="8 threads x 40 loads", observed="a thread did not finish (deadlock?)", expected="all threads complete")
    if errors:
        return False, n_eval, dict(input=errors[0], observed=errors[0]["observed"], expected=errors[0]["expected"])
    return True, n_eval, None
