#!/bin/bash
# Build /verif/.venv offline: /venv's interpreter + the repo's dependencies (via a .pth overlay)
# + the verification tooling from the offline wheelhouse. Idempotent.
set -e
cd "$(dirname "$0")"
export PIP_NO_INDEX=1 PIP_DISABLE_PIP_VERSION_CHECK=1
if [ ! -x .venv/bin/python ] || ! .venv/bin/python -c "import z3, cvc5, jsonschema, hypothesis, ceos_alos2, construct, xarray" 2>/dev/null; then
  rm -rf .venv
  /venv/bin/python -m venv .venv
  .venv/bin/pip install -q --no-index --find-links /opt/veriftools/wheels z3-solver cvc5 jsonschema hypothesis crosshair-tool deal icontract >/dev/null
  echo "import site; site.addsitedir('/venv/lib/python3.12/site-packages')" > .venv/lib/python3.12/site-packages/_repo_overlay.pth
fi
.venv/bin/python - <<'PY'
import z3, cvc5, jsonschema, ceos_alos2, construct, xarray, numpy
print("setup ok: z3", z3.get_version_string(), "ceos_alos2 at", ceos_alos2.__file__)
PY
