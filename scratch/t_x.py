import sys; sys.path.insert(0,'/verif')
from native import arraycheck as ac
import xarray as xr, numpy as np
from ceos_alos2.hierarchy import Variable
from ceos_alos2.xarray import to_variable
from xarray.core import indexing
arr,t,M,ranges,flen = ac.build_array(1,2,'IU2',1)
orig = type(arr).__getitem__
def spy(self, key):
    print('backend key', key); return orig(self,key)
type(arr).__getitem__ = spy
lazy = xr.DataArray(to_variable(Variable(["rows","columns"], arr, {})))
print(lazy.isel(rows=slice(-2,None,-1)).shape, M[slice(-2,None,-1)].shape)
print(indexing._decompose_slice(slice(-2,None,-1), 1))
print(slice(-2,None,-1).indices(1))
