import sys, time
sys.path.insert(0, '/verif')
import z3
import pyvc
from pyvc.core import *
from pyvc.interp import Interp
from pyvc.absobj import *
from pyvc.ops import mk_int
from ceos_alos2 import array as A

n = z3.Int('n'); c = z3.Int('c')
start = z3.Function('start', z3.IntSort(), z3.IntSort()); stop = z3.Function('stop', z3.IntSort(), z3.IntSort())
i = z3.Int('i')
hyps = [n >= 1, c >= 1, z3.ForAll([i], z3.Implies(z3.And(i>=0, i<n), z3.And(start(i) >= 0, start(i) <= stop(i))))]
def run(p):
    it = Interp(p)
    br = SymSeq(Sym(n,int), lambda k: (Sym(start(as_int_term(k)),int), Sym(stop(as_int_term(k)),int)), list)
    res = it.call(it.shim(A.compute_chunk_offsets), [br, Sym(c,int)], {})
    return it, res
t=time.time()
rs = explore(lambda p: run(p), hyps=hyps)
for r in rs:
    print(r.outcome, r.exc, len(r.path.pc))
    if r.outcome=='return':
        it,res = r.value
        print(res, res.n)
        k = z3.Int('k')
        r.path.assume(z3.And(k>=0, k< z3_of(res.n)))
        v = res.sym_getitem(it, Sym(k,int))
        print(v)
print(time.time()-t)
