#!/bin/bash
# usage: mut.sh <patch.diff> <PROP> [more props]  — apply patch to /repo, run checks, revert
patch="$1"; shift
cd /repo && git apply "$patch" || { echo "APPLY FAILED"; exit 9; }
for p in "$@"; do
  ( cd /verif && timeout 1500 ./check $p 2>&1 | grep -E "VIOLATION|KNOWN|^\[C|undecided:|crash" | cut -c1-300 )
done
cd /repo && git checkout -- . && git status --short | head -3
