import sys, time
sys.path.insert(0,'/verif')
from pyvc.vc import Session
from props import arraychain
case = tuple(sys.argv[1:4])
ses = Session('C02')
t=time.time()
arraychain.case_getitem(ses, case)
print('time', time.time()-t)
for o in ses.obligations:
    if o.status!='discharged' or o.seconds>1.5: print(o.id, o.status, o.backend, round(o.seconds,2), str(o.detail)[:300])
print(len(ses.obligations), sum(o.status=='discharged' for o in ses.obligations))
