import sys, time
sys.path.insert(0,'/verif')
from pyvc import core
import z3
def _check(self, s, *extra):
    t=time.time()
    print('Q', ('full' if s is self._full else 'ground'), str(extra[0])[:300].replace('\n',' ') if extra else '', flush=True)
    r=s.check(*extra); dt=time.time()-t
    print('  ->', r, round(dt,2), flush=True)
    if dt>3:
        open('/verif/scratch/slow.smt2','w').write(s.to_smt2())
    self.solver_seconds+=dt; self.solver_calls+=1
    return r
core.Path._check=_check
exec(open('/verif/scratch/'+sys.argv.pop(1)).read())
