import cProfile, pstats, sys
sys.argv=['t5.py','proc']
src=open('/verif/scratch/t5.py').read().replace("rs=explore(run, hyps=hyps, timeout_ms=800)","rs=explore(run, hyps=hyps, timeout_ms=800, max_paths=3)")
try:
    cProfile.run(compile(src,'t5','exec'),'/verif/scratch/prof.out')
except Exception as e: print('ERR',repr(e)[:100])
p=pstats.Stats('/verif/scratch/prof.out'); p.sort_stats('cumulative').print_stats(45)
