import sys; sys.path.insert(0,'/verif')
from native import arraycheck as ac
r=ac.check_xarray_indexing(budget=5000)
seen={}
for k in r[3]:
    seen.setdefault(k[0],[]).append(k)
for k,v in seen.items(): print(k,len(v)); [print('   ',x[1:]) for x in v[:3]]
