import re
p='/verif/pyvc/ops.py'; s=open(p).read()
# uninterpreted string sort
s=s.replace('from .core import F32, F64, RNE, Sym, SymSeq, Undecided, Unsupported, fresh_int, is_concrete_int, z3_of',
 'from .core import F32, F64, RNE, StrSort, Sym, SymSeq, Undecided, Unsupported, fresh_int, is_concrete_int, z3_of')
s=s.replace('z3.StringSort()','StrSort')
helpers='''
# strings: an uninterpreted sort (z3's sequence theory is not used: it is unstable and ignores timeouts).
# Python string constants are distinct constants of the sort; the facts about them are collected in STR_FACTS
# and are part of every query.
_STR_CONSTS = {}
STR_FACTS = []
IS_EMPTY = z3.Function("str_is_empty", StrSort, z3.BoolSort())
STR_LEN = z3.Function("str_len", StrSort, z3.IntSort())
CONCAT = z3.Function("str_concat", StrSort, StrSort, StrSort)
SUBSTR = z3.Function("str_slice", StrSort, z3.IntSort(), z3.IntSort(), StrSort)
CONTAINS = z3.Function("str_contains", StrSort, StrSort, z3.BoolSort())
PREFIXOF = z3.Function("str_prefixof", StrSort, StrSort, z3.BoolSort())
SUFFIXOF = z3.Function("str_suffixof", StrSort, StrSort, z3.BoolSort())


def str_const(v):
    c = _STR_CONSTS.get(v)
    if c is None:
        c = z3.Const(f"str:{v!r}", StrSort)
        for other in _STR_CONSTS.values():
            STR_FACTS.append(c != other)
        STR_FACTS.append(IS_EMPTY(c) == z3.BoolVal(v == ""))
        STR_FACTS.append(STR_LEN(c) == len(v))
        _STR_CONSTS[v] = c
    return c


def str_value_of(term):
    for v, c in _STR_CONSTS.items():
        if z3.eq(c, term):
            return v
    return None


def concat_terms(terms):
    out = terms[0]
    for t in terms[1:]:
        out = CONCAT(out, t)
    return out

'''
s=s.replace('\ndef mk_bool(t):', helpers+'\ndef mk_bool(t):',1)
s=s.replace('        return z3.StringVal(v)','        return str_const(v)')
s=s.replace('return Sym(z3.Concat(as_str_term(l), as_str_term(r)), str)','return Sym(CONCAT(as_str_term(l), as_str_term(r)), str)')
s=s.replace('        return z3.Length(v.term) != 0','        return z3.Not(IS_EMPTY(v.term))')
s=s.replace('return mk_bool(z3.Contains(container.term, item.term))','return mk_bool(CONTAINS(container.term, item.term))')
s=s.replace('return mk_bool(z3.Contains(z3.StringVal(container), item.term))','return mk_bool(CONTAINS(str_const(container), item.term))')
s=s.replace('return mk_bool(z3.Contains(container.term, z3.StringVal(item)))','return mk_bool(CONTAINS(container.term, str_const(item)))')
s=s.replace('''                ln = z3.Length(obj.term)
                a, b, _, _ = slice_bounds(it, key, mk_int(ln))
                return Sym(z3.SubString(obj.term, a, b - a), str)''','''                lo = as_int_term(key.start) if key.start is not None else z3.IntVal(0)
                hi = as_int_term(key.stop) if key.stop is not None else z3.IntVal(-1)
                return Sym(SUBSTR(obj.term, lo, hi), str)''')
s=s.replace('z3.Function("py_lower", StrSort, StrSort)','z3.Function("py_lower", StrSort, StrSort)')
s=s.replace('''                return mk_bool(z3.Or(*[z3.PrefixOf(as_str_term(p), s) for p in pre]))
            return mk_bool(z3.PrefixOf(as_str_term(pre), s))''','''                return mk_bool(z3.Or(*[PREFIXOF(as_str_term(p), s) for p in pre]))
            return mk_bool(PREFIXOF(as_str_term(pre), s))''')
s=s.replace('return mk_bool(z3.SuffixOf(as_str_term(a[0]), s))','return mk_bool(SUFFIXOF(as_str_term(a[0]), s))')
s=s.replace('''            p = as_str_term(a[0])
            return Sym(z3.If(z3.PrefixOf(p, s), z3.SubString(s, z3.Length(p), z3.Length(s) - z3.Length(p)), s), str)''','''            p = as_str_term(a[0])
            return Sym(z3.Function("py_removeprefix", StrSort, StrSort, StrSort)(s, p), str)''')
s=s.replace('                terms.append(z3.StringVal(p))','                terms.append(str_const(p))')
s=s.replace('            terms.append(z3.String(f"fmt!{id(val)}"))','            terms.append(z3.Const(f"fmt!{id(val)}", StrSort))')
s=s.replace('    return Sym(z3.Concat(*terms), str)','    return Sym(concat_terms(terms), str)')
open(p,'w').write(s)
p='/verif/pyvc/models.py'; s=open(p).read()
s=s.replace('            return mk_int(z3.Length(v.term))','            return mk_int(ops.STR_LEN(v.term))')
s=s.replace('z3.StringSort()','ops.StrSort')
s=s.replace('ops.SPLIT_JOIN(z3.StringVal(sep), parts.s.term)','ops.SPLIT_JOIN(ops.str_const(sep), parts.s.term)')
s=s.replace('                terms.append(z3.StringVal(sep))','                terms.append(ops.str_const(sep))')
s=s.replace('return Sym(z3.Concat(*terms) if len(terms) > 1 else terms[0], str)','return Sym(ops.concat_terms(terms), str)')
s=s.replace('ops.STRPTIME(s.term, z3.StringVal(fmt))','ops.STRPTIME(s.term, ops.str_const(fmt))')
open(p,'w').write(s)
p='/verif/pyvc/layout.py'; s=open(p).read()
s=s.replace('z3.StringVal(c)','ops.str_const(c)').replace('z3.StringVal(codes[-1][1])','ops.str_const(codes[-1][1])').replace('z3.StringVal(nm)','ops.str_const(nm)')
open(p,'w').write(s)
# core: sync STR_FACTS into path solvers
p='/verif/pyvc/core.py'; s=open(p).read()
s=s.replace('''        while self._n_hyps < len(self.hyps):
            self._full.add(self.hyps[self._n_hyps])
            self._n_hyps += 1''','''        while self._n_hyps < len(self.hyps):
            self._full.add(self.hyps[self._n_hyps])
            self._n_hyps += 1
        from . import ops as _ops

        while self._n_str < len(_ops.STR_FACTS):
            self._full.add(_ops.STR_FACTS[self._n_str])
            self._ground.add(_ops.STR_FACTS[self._n_str])
            self._n_str += 1''')
s=s.replace('''            self._n_hyps = 0
            self._n_pc = 0''','''            self._n_hyps = 0
            self._n_pc = 0
            self._n_str = 0''')
open(p,'w').write(s)
p='/verif/pyvc/harness.py'; s=open(p).read()
s=s.replace('''    return list(path.hyps) + list(path.pc) + list(extra)''','''    from . import ops

    return list(path.hyps) + list(path.pc) + list(extra) + list(ops.STR_FACTS)''')
open(p,'w').write(s)
