import sys,time; sys.path.insert(0,'/verif')
from native import arraycheck as ac
t=time.time(); print(ac.check_getitem(budget=20000)[:2], ac.check_getitem(budget=20000)[2], time.time()-t)
t=time.time(); r=ac.check_xarray_indexing(budget=5000); print(r[0], r[1], r[2], len(r[3]), set(k[0] for k in r[3]), time.time()-t)
print([k for k in r[3] if k[0]=='other'][:3])
print(ac.check_decode())
