import sys, time
sys.path.insert(0,'/verif')
from pyvc import core
import z3
LOG=[]
orig=core.Path._check
def _check(self, s, *extra):
    t=time.time(); r=s.check(*extra); dt=time.time()-t
    self.solver_seconds+=dt; self.solver_calls+=1
    LOG.append((dt,str(r),len(self.hyps),len(self.pc), str(extra[0])[:100] if extra else ''))
    return r
core.Path._check=_check
exec(open('/verif/scratch/'+sys.argv.pop(1)).read())
LOG.sort(reverse=True)
print('queries',len(LOG),'total',sum(x[0] for x in LOG))
for x in LOG[:15]: print(round(x[0],2),x[1],x[2],x[3],x[4].replace('\n',' '))
import collections
print(collections.Counter(x[1] for x in LOG))
