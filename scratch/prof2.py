import sys, time, collections, traceback
sys.path.insert(0,'/verif')
from pyvc import core
import z3
C=collections.Counter(); T=collections.Counter()
def _check(self, s, *extra):
    t=time.time(); r=s.check(*extra); dt=time.time()-t
    self.solver_seconds+=dt; self.solver_calls+=1
    st=traceback.extract_stack(limit=12)
    names=[f.name for f in st if f.name not in ('_check','feasible','entails','decide','pick','truth')]
    key=' < '.join(reversed(names[-4:]))
    C[key]+=1; T[key]+=dt
    return r
core.Path._check=_check
exec(open('/verif/scratch/'+sys.argv.pop(1)).read())
for k,v in C.most_common(25): print(v, round(T[k],2), k)
