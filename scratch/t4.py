import sys, time
sys.path.insert(0,'/verif')
import z3, pyvc
from pyvc.core import *
from pyvc.interp import Interp
from pyvc import layout
from pyvc.models import IS_INT_TEXT, IS_FLOAT_TEXT
from pyvc.ops import STRIP
from ceos_alos2.sar_image.file_descriptor import file_descriptor_record
from ceos_alos2.sar_image.processed_data import processed_data_record
from ceos_alos2.sar_image.signal_data import signal_data_record
from ceos_alos2.utils import to_dict
s_ = z3.Const("s", pyvc.ops.StrSort)
hyps=[z3.ForAll([s_], z3.Or(pyvc.ops.IS_EMPTY(STRIP(s_)), IS_INT_TEXT(STRIP(s_))), patterns=[STRIP(s_)]),
      z3.ForAll([s_], z3.Or(pyvc.ops.IS_EMPTY(STRIP(s_)), IS_FLOAT_TEXT(STRIP(s_))), patterns=[STRIP(s_)])]
rec = {'fd': file_descriptor_record, 'proc': processed_data_record, 'sig': signal_data_record}[sys.argv[1]]
def run(p, extra):
    it=Interp(p)
    v,end,leaves = layout.parse_record(it, rec, fid=100, base=0, pos=0)
    d = it.call(it.shim(to_dict), [v], {})
    extra['leaves']=leaves
    return d,end
t=time.time()
rs=explore(run, hyps=hyps, timeout_ms=800)
print(len(rs), time.time()-t)
for r in rs[:3]:
    print(r.outcome, repr(r.exc)[:300], r.path.solver_calls, round(r.path.solver_seconds,2))
    if r.outcome=='return':
        d,end=r.value
        print('end', repr(end), 'leaves', len(r.extra['leaves']))
        for k in list(d)[:60]: print('  ',k, repr(d[k])[:160])
