p='/verif/pyvc/interp.py'; s=open(p).read()
s=s.replace('''def has_yield(node):
    """yield directly in this function (not in nested defs/lambdas)."""
    stack''','''_YIELD_CACHE = {}


def has_yield(node):
    """yield directly in this function (not in nested defs/lambdas)."""
    r = _YIELD_CACHE.get(id(node))
    if r is None:
        r = _YIELD_CACHE[id(node)] = _has_yield(node)
    return r


def _has_yield(node):
    stack''')
open(p,'w').write(s)
p='/verif/pyvc/models.py'; s=open(p).read()
s=s.replace('''class IndexContext:''','''def trial_var(it):
    """canonical index variable for a trial evaluation at the current nesting depth (one per depth and path), so
    that repeated trials hit the per-sequence memo tables"""
    d = len(it.path.index_ctx)
    tv = it.path.__dict__.setdefault("_trial_vars", {})
    if d not in tv:
        tv[d] = z3.Int(f"ix@{d}")
    return tv[d]


class IndexContext:''')
import re
# replace trial fresh ints
for old in ['iv = fresh_int("i")','iv = fresh_int("g")','g = fresh_int("g")\n        with IndexContext','j = fresh_int("j")\n            with IndexContext','p = fresh_int("p")\n\n    def key_at','j = fresh_int("j")\n        with IndexContext']:
    pass
s=s.replace('    iv = fresh_int("i")\n    with IndexContext(it, iv, 0, n):\n        stateful.begin(iv, n)','    iv = trial_var(it)\n    with IndexContext(it, iv, 0, n):\n        stateful.begin(iv, n)')
s=s.replace('    iv = fresh_int("g")\n    with IndexContext(it, iv, 0, n):','    iv = trial_var(it)\n    with IndexContext(it, iv, 0, n):')
s=s.replace('        iv = fresh_int("i")\n        with IndexContext(it, iv, 0, seq.len_term()):\n            probe = seq.at(Sym(iv, int))\n        if not isinstance(probe, (tuple, list)):','        iv = trial_var(it)\n        with IndexContext(it, iv, 0, seq.len_term()):\n            probe = seq.at(Sym(iv, int))\n        if not isinstance(probe, (tuple, list)):')
s=s.replace('        iv = fresh_int("i")\n        stateful = StatefulTrial(it)\n        with IndexContext(it, iv, 0, s.len_term()):','        iv = trial_var(it)\n        stateful = StatefulTrial(it)\n        with IndexContext(it, iv, 0, s.len_term()):')
s=s.replace('        iv = fresh_int("i")\n        with IndexContext(it, iv, 0, n):\n            probe = seq.at(Sym(iv, int))\n        if not isinstance(probe, dict):','        iv = trial_var(it)\n        with IndexContext(it, iv, 0, n):\n            probe = seq.at(Sym(iv, int))\n        if not isinstance(probe, dict):')
open(p,'w').write(s)
