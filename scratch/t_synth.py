import sys; sys.path.insert(0,'/verif')
import os, tempfile, numpy as np, fsspec
tmp=tempfile.mkdtemp(); os.environ['XDG_CACHE_HOME']=tmp
from native import synth
import xarray as xr
from ceos_alos2.xarray import open_alos2
fs=fsspec.filesystem('memory')
rng=np.random.default_rng(0)
d1=rng.integers(0,65535,(7,5)).astype('uint16')
names=synth.product(fs,'/p15',[('HH',None,d1),('HV',None,d1[::-1])],level='1.5')
t=open_alos2('memory:///p15', backend_options=dict(records_per_chunk=3, use_cache=False))
print(t)
print((t['imagery/HH/data'].values==d1).all())
dc=(rng.normal(size=(4,3))+1j*rng.normal(size=(4,3))).astype('complex64')
synth.product(fs,'/p11',[('HH','F1',dc),('HH','F2',dc*2)],level='1.1')
t=open_alos2('memory:///p11', backend_options=dict(records_per_chunk=3, use_cache=False, create_cache=True))
print(list(t['imagery'].children), (t['imagery/HH_scan1/data'].values==dc).all())
t2=open_alos2('memory:///p11', backend_options=dict(records_per_chunk=2, use_cache=True))
print(t2['imagery/HH_scan1'])
print(os.listdir(tmp))
