import sys, time
sys.path.insert(0,'/verif')
import z3, pyvc
from pyvc.core import *
from pyvc.interp import Interp
from pyvc import layout
from pyvc.models import IS_INT_TEXT, IS_FLOAT_TEXT
from pyvc.ops import STRIP, as_int_term, mk_int
from ceos_alos2.sar_image.file_descriptor import file_descriptor_record
from ceos_alos2.sar_image.processed_data import processed_data_record
from ceos_alos2.sar_image.signal_data import signal_data_record
from ceos_alos2.sar_image import metadata as M
from ceos_alos2.utils import to_dict
import construct as C
s_ = z3.Const("s", pyvc.ops.StrSort); n=z3.Int('n'); R=z3.Int('R')
hyps=[n>=1, R>=12, z3.ForAll([s_], z3.Or(pyvc.ops.IS_EMPTY(STRIP(s_)), IS_INT_TEXT(STRIP(s_))), patterns=[STRIP(s_)])]
rec = {'proc': processed_data_record, 'sig': signal_data_record}[sys.argv[1]]
def run(p, extra):
    it=Interp(p)
    hdr,_,_ = layout.parse_record(it, file_descriptor_record, fid=100, base=0, pos=0)
    def line(k):
        kt=as_int_term(k)
        v,end,_ = layout.parse_record(it, rec, fid=100, base=mk_int(z3.Function("line_off", z3.IntSort(), z3.IntSort())(kt)), pos=0)
        return v
    lines = SymSeq(Sym(n,int), line, C.ListContainer)
    header = it.call(it.shim(to_dict), [hdr], {})
    metadata = it.call(it.shim(to_dict), [lines], {})
    group, am = it.call(it.shim(M.transform_metadata), [header, metadata], {})
    return group, am
t=time.time()
rs=explore(run, hyps=hyps, timeout_ms=800)
print(len(rs), time.time()-t)
for r in rs[:40]:
    print(r.outcome, repr(r.exc)[:300], r.path.solver_calls, round(r.path.solver_seconds,2), r.path.decisions)
r=rs[0]
if r.outcome=='return':
    g,am=r.value
    print(am)
    print(g.attrs)
    for k,v in list(g.data.items())[:8]: print(k, v.dims, repr(v.data)[:100], v.attrs)
else:
    import traceback; print(''.join(traceback.format_exception(r.exc))[-1500:])
