import sys, time
sys.path.insert(0, '/verif')
import z3
import pyvc
from pyvc.core import *
from pyvc.interp import Interp
from pyvc.absobj import *
from pyvc.models import SymMapFn
from pyvc.ops import mk_int, as_int_term, FDIV, floordiv_axioms
from ceos_alos2 import array as A

n = z3.Int('n'); c = z3.Int('c'); W = z3.Int('W'); k0 = z3.Int('k0')
start = z3.Function('start', z3.IntSort(), z3.IntSort()); stop = z3.Function('stop', z3.IntSort(), z3.IntSort())
off = z3.Function('off', z3.IntSort(), z3.IntSort()); size = z3.Function('csize', z3.IntSort(), z3.IntSort()); dom = z3.Function('dom', z3.IntSort(), z3.BoolSort())
i = z3.Int('i')
fsize = z3.Int('size_of_file_100')
hyps = [n >= 1, c >= 1, c<=n, W >= 1,
   z3.ForAll([i], z3.Implies(z3.And(i>=0, i<n), z3.And(start(i) >= 0, stop(i) == start(i) + 2*W, stop(i) <= fsize)), patterns=[start(i)]),
   z3.ForAll([i], z3.Implies(z3.And(i>=0, i<n), z3.And(dom(FDIV(i,c)), off(FDIV(i,c)) <= start(i), stop(i) <= off(FDIV(i,c))+size(FDIV(i,c)))), patterns=[start(i), FDIV(i,c)]),
   ]
MODE = sys.argv[1] if len(sys.argv)>1 else 'int'
s0=z3.Int('s0'); s1=z3.Int('s1'); st=z3.Int('st')
if MODE=='int': hyps += [k0 >= 0, k0 < n]
if MODE=='slice': hyps += [st>=1]
def run(p):
    it = Interp(p)
    fs = SymFS()
    def brfn(k):
        kt=as_int_term(k)
        p.assume(z3.Implies(z3.And(kt>=0,kt<n), z3.And(start(kt) >= 0, stop(kt) == start(kt) + 2*W, stop(kt) <= fsize, dom(FDIV(kt,c)), off(FDIV(kt,c)) <= start(kt), stop(kt) <= off(FDIV(kt,c))+size(FDIV(kt,c)))))
        return (Sym(start(kt),int), Sym(stop(kt),int))
    br = SymSeq(Sym(n,int), brfn, list)
    arr = object.__new__(A.Array)
    for k_,v in dict(fs=fs, url="img", byte_ranges=br, shape=(Sym(n,int), Sym(W,int)), dtype="uint16", type_code="IU2", records_per_chunk=Sym(c,int),
          chunk_offsets=SymMapFn(lambda k: dom(k), lambda k: {"offset": Sym(off(k),int), "size": Sym(size(k),int)})).items():
        object.__setattr__(arr, k_, v)
    key0 = Sym(k0,int) if MODE=='int' else slice(Sym(s0,int), Sym(s1,int), Sym(st,int))
    res = it.call(it.getattr(arr, '__getitem__'), [(key0, slice(None))], {})
    return it, arr, res
t=time.time()
rs = explore(lambda p: run(p), hyps=hyps, timeout_ms=5000)
for r in rs:
    print(r.outcome, repr(r.exc)[:200], len(r.path.pc), r.path.solver_calls, round(r.path.solver_seconds,2), 'assumed', r.path.assumed_feasible)
    if r.outcome=='return':
        it,arr,res = r.value
        print(repr(res), [repr(x)[:150] for x in it.io_log])
        j = z3.Int('jj'); p_=z3.Int('pp')
        if len(res.shape)==1:
            r.path.assume(z3.And(j>=0, j<W))
            e = res.elem((j,))
        else:
            r.path.assume(z3.And(j>=0, j<W, p_>=0, p_< as_int_term(res.shape[0])))
            e = res.elem((p_,j))
        print(repr(e))
    elif r.outcome != 'return':
        import traceback; print(''.join(traceback.format_exception(r.exc))[-500:])
print(time.time()-t)
