import sys, time
sys.path.insert(0, '/verif')
import z3
import pyvc
from pyvc.core import *
from pyvc.interp import Interp
from pyvc.absobj import *
from pyvc.ops import mk_int, as_int_term
from ceos_alos2 import array as A

n = z3.Int('n'); c = z3.Int('c'); W = z3.Int('W'); k0 = z3.Int('k0')
start = z3.Function('start', z3.IntSort(), z3.IntSort()); stop = z3.Function('stop', z3.IntSort(), z3.IntSort())
i = z3.Int('i')
fsize = z3.Int('size_of_file_100')
hyps = [n >= 1, c >= 1, W >= 1, z3.ForAll([i], z3.Implies(z3.And(i>=0, i<n), z3.And(start(i) >= 0, stop(i) == start(i) + 2*W, stop(i) <= fsize)), patterns=[start(i)]),
   k0 >= 0, k0 < n]
def run(p):
    it = Interp(p)
    fs = SymFS()
    br = SymSeq(Sym(n,int), lambda k: (Sym(start(as_int_term(k)),int), Sym(stop(as_int_term(k)),int)), list)
    arr = it.call(A.Array, [], dict(fs=fs, url="img", byte_ranges=br, shape=(Sym(n,int), Sym(W,int)), dtype="uint16", type_code="IU2", records_per_chunk=Sym(c,int)))
    res = it.call(it.getattr(arr, '__getitem__'), [(Sym(k0,int), slice(None))], {})
    return it, arr, res
t=time.time()
rs = explore(lambda p: run(p), hyps=hyps, timeout_ms=5000)
for r in rs:
    print(r.outcome, repr(r.exc), len(r.path.pc), r.path.solver_calls, round(r.path.solver_seconds,2))
    if r.outcome=='return':
        it,arr,res = r.value
        print(repr(res), it.io_log)
        j = z3.Int('jj')
        r.path.assume(z3.And(j>=0, j<W))
        e = res.elem((j,))
        print(repr(e))
    elif r.outcome != 'return':
        import traceback; print(''.join(traceback.format_exception(r.exc))[-600:])
print(time.time()-t)
