"""pyvc.absobj — abstract objects with contracts: bytes windows, files, filesystems, mappers, numpy arrays.

Trusted semantics (T5/T7 in DESIGN.md):
  * a file is an uninterpreted byte function of (file id, offset) with a length; `read(k)` returns the window
    [pos, pos + min(k, size - pos)) and advances; `seek(o)` sets the position; every call is logged (ghost I/O log);
  * np.frombuffer(window, dtype) has len // itemsize elements, element j decoded from bytes [j*itemsize, ...) with
    the dtype's byte order; structured dtypes expose their fields at the recorded field offsets;
  * np.stack / basic indexing follow numpy's documented shape rules.
"""
from __future__ import annotations

import datetime as _dtm

import numpy as np
import z3

from . import ops
from .core import F32, F64, RNE, Sym, SymSeq, Undecided, Unsupported, fresh_int, fresh_name, is_concrete_int, z3_of
from .models import (
    REGISTRY,
    BoundSymMethod,
    FlatSeq,
    IndexContext,
    in_bounds_or_raise,
    model,
    to_symseq,
)
from .ops import BEU, BITS32, TXT, SymComplex, as_int_term, mk_bool, mk_int

BYTE = z3.Function("byte_at", z3.IntSort(), z3.IntSort(), z3.IntSort())  # (file, offset) -> 0..255


class SymBytes:
    """bytes value = window [off, off+length) of file `fid`"""

    is_symbolic_value = True

    def __init__(self, fid, off, length):
        self.fid = fid
        self.off = off
        self.length = length

    def __repr__(self):
        return f"SymBytes<file={self.fid}, off={self.off}, len={self.length}>"

    def __deepcopy__(self, memo):
        return self

    def sym_len(self, it):
        return self.length

    def sym_isinstance(self, ts):
        return any(t in (bytes, object) for t in ts)

    def sym_getitem(self, it, key):
        n = as_int_term(self.length)
        if isinstance(key, slice):
            if key.step is not None:
                raise Unsupported("bytes slice with step")
            start, stop, _, count = ops.slice_bounds(it, key, self.length)
            return SymBytes(self.fid, mk_int(as_int_term(self.off) + start), mk_int(count))
        k = as_int_term(key)
        if it.path.entails(k >= 0):
            idx = k
        elif it.truth(mk_bool(k < 0)):
            idx = k + n
        else:
            idx = k
        in_bounds_or_raise(it, idx, n)
        return Sym(BYTE(z3_of(self.fid), as_int_term(self.off) + idx), int)

    def sym_method(self, it, name, a, k):
        if name == "decode":
            return Sym(TXT(z3_of(self.fid), as_int_term(self.off), as_int_term(self.length)), str)
        if name == "strip":
            return SymBytesOpaque(ops.STRIP0(ops.RAWB(z3_of(self.fid), as_int_term(self.off), as_int_term(self.length))))
        raise Unsupported(f"bytes.{name} on symbolic bytes")

    def sym_compare(self, it, op, other, swapped):
        raise Unsupported("comparison of symbolic bytes")


class SymBytesOpaque:
    """bytes that are only moved around (e.g. stripped binary blobs)"""

    is_symbolic_value = True

    def __init__(self, term):
        self.term = term

    def sym_isinstance(self, ts):
        return any(t in (bytes, object) for t in ts)

    def __deepcopy__(self, memo):
        return self


def _bytes_attr(it, obj, name):
    return BoundSymMethod(obj, name)


REGISTRY.attr_load[SymBytes] = _bytes_attr
REGISTRY.truth[SymBytes] = lambda it, v: it.truth(mk_bool(as_int_term(v.length) != 0))


# ---------------------------------------------------------------------------------------------------
# files and filesystems
# ---------------------------------------------------------------------------------------------------
def inv_is(f, S):
    return getattr(f, "position_invariant", None) is S


class SymFile:
    is_symbolic_value = True

    def __init__(self, it, fs, url, fid, size):
        self.it = it
        self.fs = fs
        self.url = url
        self.fid = fid
        self.size = size  # term or int: length of the file
        self.pos = 0
        self.closed = False
        self._trial = None
        it.state_objects.append(self)

    # trial protocol (models.StatefulTrial) -----------------------------------------------------
    def snapshot(self):
        return (self.pos, self.closed)

    def restore(self, snap):
        self.pos, self.closed = snap

    def begin_trial(self, iv):
        inv = getattr(self, "position_invariant", None)
        if inv is not None and self.it.path.entails_any(as_int_term(self.pos) == inv(z3.IntVal(0))):
            # loop invariant supplied by the contract: position before iteration iv (assumed here, verified in
            # end_trial); loops that do not start at the invariant's initial position are handled generically
            self._trial = (inv, self.pos)
            self.pos = mk_int(inv(iv))
            return
        S = z3.Function(fresh_name("pos"), z3.IntSort(), z3.IntSort())
        self._trial = (S, self.pos)
        self.pos = mk_int(S(iv))

    def end_trial(self, iv, n, snap):
        if self._trial is None:
            return None
        S, pos0 = self._trial
        after = as_int_term(self.pos)
        start = S(iv)
        self._trial_fn = S
        if z3.eq(z3.simplify(after), z3.simplify(start)):
            self.pos = pos0
            self._trial = None
            return None
        if inv_is(self, S):
            if not self.it.path.entails_any(after == S(iv + 1)):
                cm = self.it.path.refute(after == S(iv + 1))
                if cm is not None:
                    from .core import ContractRefuted

                    raise ContractRefuted("the chunk loop leaves the contract's file position (one request per chunk of "
                                          "min(records_per_chunk, lines) records, chunk j at 720 + j * records_per_chunk * record_length)", cm)
                raise Unsupported("file position invariant is not preserved by the loop body")
            self.it.path.__dict__.setdefault("notes", []).append("file position invariant verified (init, preservation)")
            self.it.path.__dict__.setdefault("position_folds", []).append(
                {"S": S, "n": n, "iv": iv, "after": after, "pos0": pos0, "file": self})
            self.pos = mk_int(z3.simplify(S(n)) if z3.is_expr(n) else S(z3.IntVal(n)))
            self._fold = S
            self._trial = None
            return S
        H = self.it.path.add_hyp
        H(S(0) == as_int_term(pos0))
        H(z3.ForAll([iv], z3.Implies(z3.And(iv >= 0, iv < n), S(iv + 1) == after), patterns=[S(iv + 1)]))
        self.it.path.__dict__.setdefault("position_folds", []).append(
            {"S": S, "n": n, "iv": iv, "after": after, "pos0": pos0, "file": self}
        )
        self.pos = mk_int(S(n))
        self._fold = S
        self._trial = None
        return S

    def enter_iteration(self, i):
        S = getattr(self, "_fold", None)
        if S is not None:
            self.pos = mk_int(S(as_int_term(i)))

    # file API ------------------------------------------------------------------------------------
    def sym_method(self, it, name, a, k):
        if name == "__enter__":
            return self
        if name == "__exit__":
            self.closed = True
            it.io_log.append(("close", self.url))
            return None
        if name == "close":
            self.closed = True
            it.io_log.append(("close", self.url))
            return None
        if name == "seek":
            (o,) = a[:1]
            it.io_log.append(("seek", self.url, o))
            self.pos = o
            return o
        if name == "tell":
            return self.pos
        if name == "read":
            pos = as_int_term(self.pos)
            size = as_int_term(self.size)
            P = it.path.pick
            remaining = P(size - pos > 0, size - pos, z3.IntVal(0))
            if a and a[0] is not None and not (is_concrete_int(a[0]) and a[0] < 0):
                kk = as_int_term(a[0])
                got = P(kk < remaining, P(kk < 0, remaining, kk), remaining)
                req = a[0]
            else:
                got = remaining
                req = None
            got = mk_int(got)
            it.io_log.append(("read", self.url, self.pos, req, got))
            out = SymBytes(self.fid, self.pos, got)
            self.pos = mk_int(pos + as_int_term(got))
            return out
        raise Unsupported(f"file.{name}")


REGISTRY.attr_load[SymFile] = lambda it, obj, name: BoundSymMethod(obj, name)


class SymFS:
    """abstract fsspec filesystem rooted at `path` (DirFileSystem contract): open(url) yields the bytes of the
    file `url` under the root; two SymFS are equivalent iff protocol and root agree."""

    is_symbolic_value = True

    def __init__(self, protocol="abstract", path="/root", files=None, missing=()):
        self.protocol = protocol
        self.path = path
        self.files = files if files is not None else {}  # url -> (fid, size)
        self.missing = set(missing)
        self.fs = self

    def file_of(self, url):
        key = url if isinstance(url, str) else str(url.term) if isinstance(url, Sym) else repr(url)
        if key in self.missing:
            raise FileNotFoundError(key)
        if key not in self.files:
            fid = len(self.files) + 100
            self.files[key] = (fid, Sym(z3.Int(f"size_of_file_{fid}"), int))
        return self.files[key]

    def sym_method(self, it, name, a, k):
        if name == "open":
            url = a[0]
            mode = a[1] if len(a) > 1 else k.get("mode", "rb")
            fid, size = self.file_of(url)
            it.io_log.append(("open", url, mode))
            return SymFile(it, self, url, fid, size)
        raise Unsupported(f"fs.{name}")

    def sym_compare(self, it, op, other, swapped):
        import ast

        same = isinstance(other, SymFS) and other.protocol == self.protocol and other.path == self.path
        if isinstance(op, ast.Eq):
            return same
        if isinstance(op, ast.NotEq):
            return not same
        raise Unsupported("ordering of filesystems")


def _fs_attr(it, obj, name):
    if name in ("path", "fs", "protocol"):
        return getattr(obj, name)
    return BoundSymMethod(obj, name)


REGISTRY.attr_load[SymFS] = _fs_attr


class SymMapper:
    """abstract fsspec mapper: root, fs, mapping key -> whole file content"""

    is_symbolic_value = True

    def __init__(self, fs, root=None):
        self.fs = fs
        self.root = root if root is not None else fs.path
        self.log_target = None

    def sym_getitem(self, it, key):
        k = key if isinstance(key, str) else str(key)
        it.io_log.append(("mapper-get", key))
        if k in self.fs.missing:
            raise KeyError(k)
        fid, size = self.fs.file_of(key)
        return SymBytes(fid, 0, size)

    def sym_contains(self, it, key):
        k = key if isinstance(key, str) else str(key)
        it.io_log.append(("mapper-contains", key))
        return k not in self.fs.missing and k in self.fs.files


def _mapper_attr(it, obj, name):
    if name in ("root", "fs"):
        return getattr(obj, name)
    raise Unsupported(f"mapper.{name}")


REGISTRY.attr_load[SymMapper] = _mapper_attr


def _dirfs_ctor(it, cls, a, k):
    fs = k.get("fs")
    path = k.get("path")
    if isinstance(fs, SymFS):
        if path == fs.path:
            return fs
        return SymFS(fs.protocol, path, fs.files, fs.missing)
    return NotImplemented


try:
    from fsspec.implementations.dirfs import DirFileSystem

    REGISTRY.constructors[DirFileSystem] = _dirfs_ctor
except Exception:  # pragma: no cover
    pass


# ---------------------------------------------------------------------------------------------------
# numpy arrays
# ---------------------------------------------------------------------------------------------------
def fp32_of_bits(fid, off):
    return z3.fpBVToFP(BITS32(z3_of(fid), as_int_term(off)), F32)


class SymNd:
    """n-d array with symbolic shape; elem(idx tuple of terms) -> scalar value
    scalar values: Sym int (unsigned/signed ints), Sym 'f32' (FP32 term), SymComplex32(re, im) ..."""

    is_symbolic_value = True

    def __init__(self, shape, elem, dtype, note=None):
        self.shape = tuple(shape)
        self.elem = elem
        self.dtype = np.dtype(dtype) if not isinstance(dtype, np.dtype) else dtype
        self.note = note

    def __repr__(self):
        return f"SymNd<shape={self.shape}, dtype={self.dtype}>"

    @property
    def ndim(self):
        return len(self.shape)

    def sym_isinstance(self, ts):
        return any(t in (np.ndarray, object) for t in ts)

    def sym_len(self, it):
        if not self.shape:
            raise TypeError("len() of unsized object")
        return self.shape[0]

    def sym_getitem(self, it, key):
        if isinstance(key, str):
            if self.dtype.fields is None or key not in self.dtype.fields:
                raise ValueError(f"no field of name {key}")
            fdt, foff = self.dtype.fields[key][:2]
            return SymNd(self.shape, lambda idx, f=key: self.elem(idx)[f], fdt, note=f"field:{key}")
        keys = key if isinstance(key, tuple) else (key,)
        if len(keys) > len(self.shape):
            raise IndexError("too many indices for array")
        new_shape = []
        maps = []  # per source axis: ('int', term) | ('slice', start, step, out_axis)
        out_axis = 0
        for ax, dim in enumerate(self.shape):
            kk = keys[ax] if ax < len(keys) else slice(None)
            if isinstance(kk, slice):
                start, stop, step, count = ops.slice_bounds(it, kk, dim)
                new_shape.append(mk_int(count))
                if z3.is_int_value(step):
                    maps.append(("slice", start, step, out_axis))
                else:
                    if it.truth(mk_bool(step < 0)):
                        raise Unsupported("numpy slice with symbolic negative step")
                    maps.append(("map", ops.index_map(it, start, stop, step, count, as_int_term(dim)), None, out_axis))
                out_axis += 1
            elif isinstance(kk, Sym) and kk.pyt in (int, bool) or is_concrete_int(kk):
                k = as_int_term(kk)
                n = as_int_term(dim)
                if it.path.entails(k >= 0):
                    idx = k
                elif it.truth(mk_bool(k < 0)):
                    idx = k + n
                else:
                    idx = k
                in_bounds_or_raise(it, idx, n, IndexError, "index out of bounds")
                maps.append(("int", idx))
            else:
                raise Unsupported(f"numpy index {kk!r}")

        def elem(idx):
            src = []
            for m in maps:
                if m[0] == "int":
                    src.append(m[1])
                elif m[0] == "map":
                    src.append(m[1](as_int_term(idx[m[3]])))
                else:
                    src.append(m[1] + as_int_term(idx[m[3]]) * m[2])
            return self.elem(tuple(src))

        return SymNd(new_shape, elem, self.dtype, note="indexed")

    def sym_method(self, it, name, a, k):
        if name == "view":
            dt = np.dtype(a[0] if a else k["dtype"])
            if dt.itemsize != self.dtype.itemsize:
                raise Unsupported("view changing the itemsize")
            if self.dtype.fields is not None and dt.kind == "c" and dt.itemsize == 8:
                names = sorted(self.dtype.fields, key=lambda f: self.dtype.fields[f][1])
                offs = [self.dtype.fields[f][1] for f in names]
                fdts = [self.dtype.fields[f][0] for f in names]
                if offs == [0, 4] and all(f == np.dtype(">f4") for f in fdts) and dt.byteorder == ">":
                    return SymNd(self.shape, lambda idx: SymC32(self.elem(idx)[names[0]].term, self.elem(idx)[names[1]].term), dt, "view")
                raise Unsupported("view of this structured dtype as complex")
            raise Unsupported(f"view {self.dtype} -> {dt}")
        if name == "astype":
            dt = np.dtype(a[0] if a else k["dtype"])
            if dt.kind == self.dtype.kind and dt.itemsize == self.dtype.itemsize:
                return SymNd(self.shape, self.elem, dt, "astype")  # byte-order change only: values unchanged
            raise Unsupported(f"astype {self.dtype} -> {dt}")
        if name == "tolist":
            raise Unsupported("tolist on symbolic array")
        if name == "reshape":
            raise Unsupported("reshape on symbolic array")
        raise Unsupported(f"ndarray.{name}")

    def sym_binop(self, it, opname, other, swapped):
        return nd_binop(it, opname, self, other, swapped)


class SymC32:
    """complex64 scalar: two FP32 terms"""

    __slots__ = ("re", "im")

    def __init__(self, re, im):
        self.re, self.im = re, im


def _nd_attr(it, obj, name):
    if name == "shape":
        return obj.shape
    if name == "dtype":
        return obj.dtype
    if name == "ndim":
        return len(obj.shape)
    if name == "real" and obj.dtype.kind == "c":
        return SymNd(obj.shape, lambda idx: Sym(obj.elem(idx).re, "f32"), np.dtype("float32"))
    if name == "imag" and obj.dtype.kind == "c":
        return SymNd(obj.shape, lambda idx: Sym(obj.elem(idx).im, "f32"), np.dtype("float32"))
    return BoundSymMethod(obj, name)


REGISTRY.attr_load[SymNd] = _nd_attr


def _c32_parts(v, idx):
    """complex64 parts (FP32 terms) of an operand (array element / python scalar)"""
    if isinstance(v, SymNd):
        e = v.elem(idx)
        if isinstance(e, SymC32):
            return e.re, e.im
        if isinstance(e, Sym) and e.pyt == "f32":
            return e.term, z3.FPVal(0.0, F32)
        raise Unsupported("arithmetic on non-float array elements")
    if isinstance(v, complex):
        return z3.FPVal(v.real, F32), z3.FPVal(v.imag, F32)
    if isinstance(v, (int, float)):
        return z3.FPVal(float(v), F32), z3.FPVal(0.0, F32)
    raise Unsupported(f"array arithmetic with {type(v).__name__}")


def nd_binop(it, opname, arr, other, swapped):
    """float32/complex64 arithmetic (numpy: python scalars are weak, float32 array op complex -> complex64);
    complex multiplication by the textbook formula, each operation rounded to binary32."""
    l, r = (other, arr) if swapped else (arr, other)
    kinds = [x.dtype.kind if isinstance(x, SymNd) else ("c" if isinstance(x, complex) else "f") for x in (l, r)]
    if any(isinstance(x, SymNd) and x.dtype.kind not in "fc" for x in (l, r)):
        raise Unsupported("arithmetic on integer arrays")
    shape = arr.shape
    if isinstance(other, SymNd) and len(other.shape) != len(shape):
        raise Unsupported("broadcasting")
    is_complex = "c" in kinds

    def elem(idx):
        a, b = _c32_parts(l, idx)
        c, d = _c32_parts(r, idx)
        if not is_complex:
            f = {"add": z3.fpAdd, "sub": z3.fpSub, "mul": z3.fpMul, "truediv": z3.fpDiv}[opname]
            return Sym(f(RNE, a, c), "f32")
        if opname == "add":
            return SymC32(z3.fpAdd(RNE, a, c), z3.fpAdd(RNE, b, d))
        if opname == "sub":
            return SymC32(z3.fpSub(RNE, a, c), z3.fpSub(RNE, b, d))
        if opname == "mul":
            return SymC32(
                z3.fpSub(RNE, z3.fpMul(RNE, a, c), z3.fpMul(RNE, b, d)),
                z3.fpAdd(RNE, z3.fpMul(RNE, a, d), z3.fpMul(RNE, b, c)),
            )
        raise Unsupported(f"complex array {opname}")

    return SymNd(shape, elem, np.dtype("complex64") if is_complex else np.dtype("float32"), "arith")


def decode_scalar(fid, off, dt):
    """value of one element of dtype dt stored at byte offset `off` of file fid"""
    dt = np.dtype(dt)
    if dt.fields is not None:
        return {name: decode_scalar(fid, as_int_term(off) + dt.fields[name][1], dt.fields[name][0]) for name in dt.names}
    if dt.kind == "u" and dt.byteorder in (">", "|") or (dt.kind == "u" and dt.itemsize == 1):
        return Sym(BEU(z3_of(fid), as_int_term(off), z3.IntVal(dt.itemsize)), int, tag=("uint", dt.itemsize))
    if dt.kind == "f" and dt.itemsize == 4 and dt.byteorder == ">":
        return Sym(fp32_of_bits(fid, off), "f32")
    if dt.kind == "c" and dt.itemsize == 8 and dt.byteorder == ">":
        return SymC32(fp32_of_bits(fid, off), fp32_of_bits(fid, as_int_term(off) + 4))
    # other byte orders / kinds read different bytes: model them as a distinct uninterpreted decode
    f = z3.Function(f"decode_{dt.str}", z3.IntSort(), z3.IntSort(), z3.IntSort())
    return Sym(f(z3_of(fid), as_int_term(off)), int, tag=("other", dt.str))


@model(np.frombuffer)
def _frombuffer(it, a, k):
    buf = a[0]
    if not isinstance(buf, SymBytes):
        return NotImplemented
    dt = np.dtype(a[1] if len(a) > 1 else k.get("dtype", float))
    if len(a) > 2 or set(k) - {"dtype"}:
        raise Unsupported("frombuffer with count/offset")
    n = as_int_term(buf.length)
    size = dt.itemsize
    if not it.path.entails(n % size == 0):
        if it.truth(mk_bool(n % size != 0)):
            raise ValueError("buffer size must be a multiple of element size")
    count = mk_int(n / size)
    return SymNd((count,), lambda idx: decode_scalar(buf.fid, as_int_term(buf.off) + as_int_term(idx[0]) * size, dt), dt, "frombuffer")


@model(np.stack)
def _stack(it, a, k):
    arrays = a[0]
    axis = a[1] if len(a) > 1 else k.get("axis", 0)
    if not isinstance(arrays, (SymSeq, FlatSeq)) and not (
        isinstance(arrays, (list, tuple)) and any(isinstance(x, SymNd) for x in arrays)
    ):
        return NotImplemented
    if axis != 0:
        raise Unsupported("np.stack on axis != 0")
    rows = to_symseq(it, arrays)
    n = rows.len_term()
    if not it.path.entails(n > 0):
        if it.truth(mk_bool(n == 0)):
            raise ValueError("need at least one array to stack")
    first = rows.at(0)
    if not isinstance(first, SymNd) or len(first.shape) != 1:
        raise Unsupported("np.stack of non-1d symbolic arrays")
    width = as_int_term(first.shape[0])
    # all input arrays must have the same shape
    p = fresh_int("p")
    with IndexContext(it, p, 0, n):
        rp = rows.at(Sym(p, int))
        same = as_int_term(rp.shape[0]) == width
        if not it.path.entails(same):
            if it.truth(mk_bool(z3.Not(same))):
                raise ValueError("all input arrays must have the same shape")
    dtype = first.dtype
    return SymNd((mk_int(n), mk_int(width)), lambda idx: rows.at(mk_int(idx[0])).elem((idx[1],)), dtype, "stack")


@model(np.empty, np.zeros)
def _empty(it, a, k):
    shape = a[0]
    if isinstance(shape, tuple) and any(isinstance(x, Sym) for x in shape):
        dt = np.dtype(a[1] if len(a) > 1 else k.get("dtype", float))
        return SymNd(shape, lambda idx: Sym(z3.Int(fresh_name("uninit")), int), dt, "empty")
    return NotImplemented


NS = {"D": 86400 * 10**9, "h": 3600 * 10**9, "m": 60 * 10**9, "s": 10**9, "ms": 10**6, "us": 10**3, "ns": 1}
NP_DT64 = z3.Function("np_datetime64_ns", ops.StrSort, z3.IntSort())  # np.datetime64(text) as ns since epoch


def _time_unit(dtype):
    """('M'|'m', unit) for a numpy datetime64/timedelta64 dtype request, else None"""
    if dtype is None:
        return None
    try:
        dt = np.dtype(dtype)
    except TypeError:
        return None
    if dt.kind in "Mm":
        return dt.kind, np.datetime_data(dt)[0]
    return None


class SymNdOpaque:
    """np.array(list-like): a 1-d array given elementwise. `data` is the source sequence (SymSeq / FlatSeq / list
    with symbolic leaves), `conv` maps a source element to the array element (time values are integers in ns)."""

    is_symbolic_value = True

    def __init__(self, data, dtype, conv=None, scalar=False):
        self.data = data
        self.dtype_req = dtype
        self.conv = conv
        self.scalar = scalar

    def sym_isinstance(self, ts):
        return any(t in (np.ndarray, object) for t in ts)

    def __deepcopy__(self, memo):
        return self

    def elem(self, it, k):
        if self.scalar:
            v = self.data
        elif isinstance(self.data, SymSeq):
            v = self.data.at(k)
        elif isinstance(self.data, (list, tuple)) and isinstance(k, int):
            v = self.data[k]
        elif hasattr(type(self.data), "sym_getitem"):
            v = self.data.sym_getitem(it, k)
        else:
            raise Unsupported("element of opaque array at a symbolic index of a concrete list")
        return self.conv(v) if self.conv else v

    def length(self):
        if self.scalar:
            return None
        if isinstance(self.data, SymSeq):
            return self.data.length
        if isinstance(self.data, (list, tuple)):
            return len(self.data)
        if isinstance(self.data, SymNdOpaque):
            return self.data.length()
        return getattr(self.data, "n", None)

    def sym_method(self, it, name, a, k):
        if name == "astype":
            tu = _time_unit(a[0] if a else k.get("dtype"))
            mine = _time_unit(self.dtype_req)
            if tu and mine and tu[0] == mine[0] and NS[tu[1]] <= NS[mine[1]]:
                return SymNdOpaque(self.data, a[0], self.conv, self.scalar)  # refinement of the unit: value kept
            raise Unsupported(f"astype({a}) on symbolic array of dtype {self.dtype_req}")
        if name == "tolist" and not a:
            raise Unsupported("tolist of a symbolic array")
        raise Unsupported(f"ndarray.{name} on opaque symbolic array")

    def sym_binop(self, it, opname, other, swapped):
        mine = _time_unit(self.dtype_req)
        if isinstance(other, SymNdOpaque):
            theirs = _time_unit(other.dtype_req)
        elif isinstance(other, Sym) and other.pyt in ("dt64", "td64"):
            theirs = ("M" if other.pyt == "dt64" else "m", "ns")
        else:
            theirs = None
        if not (mine and theirs) or opname != "add":
            raise Unsupported(f"{opname} on opaque symbolic arrays of dtype {self.dtype_req}")
        kinds = {mine[0], theirs[0]}
        if kinds == {"M"}:
            raise TypeError("datetime64 + datetime64")
        kind = "M" if "M" in kinds else "m"
        unit = mine[1] if NS[mine[1]] <= NS[theirs[1]] else theirs[1]
        dt = ("datetime64" if kind == "M" else "timedelta64") + f"[{unit}]"
        pyt = "dt64" if kind == "M" else "td64"

        def get(x, kk):
            if isinstance(x, SymNdOpaque):
                return x.elem(it, kk).term
            return x.term

        arrays = [x for x in (self, other) if isinstance(x, SymNdOpaque) and not x.scalar]
        if not arrays:
            return Sym(get(self, 0) + get(other, 0), pyt)
        if len(arrays) == 2:
            la, lb = as_int_term(arrays[0].length()), as_int_term(arrays[1].length())
            if not it.path.entails(la == lb):
                raise Unsupported("elementwise sum of arrays whose lengths are not provably equal")
        me, ot = self, other
        return SymNdOpaque(SymSeq(arrays[0].length(), lambda kk: Sym(get(me, kk) + get(ot, kk), pyt), list,
                                  "elementwise sum"), dt)


def _time_conv(kind, unit):
    mult = NS[unit]

    def conv(v):
        if isinstance(v, Sym) and v.pyt in ("dt64", "td64"):
            return v
        if isinstance(v, Sym) and v.pyt is _dtm.datetime:
            return Sym(v.term * 1000, "dt64")
        if isinstance(v, Sym) and v.pyt is _dtm.timedelta:
            return Sym(v.term * 1000, "td64")
        if isinstance(v, _dtm.datetime):
            return Sym(ops.dt_to_us(v) * 1000, "dt64")
        if isinstance(v, Sym) and v.pyt is str and kind == "M":
            return Sym(NP_DT64(v.term), "dt64")
        if isinstance(v, (Sym, int)) and not isinstance(v, bool) and (not isinstance(v, Sym) or v.pyt is int):
            return Sym(as_int_term(v) * mult, "dt64" if kind == "M" else "td64")
        raise Unsupported(f"conversion of {v!r} to numpy time")

    return conv


@model(np.array, np.asarray)
def _nparray(it, a, k):
    v = a[0]
    dt = a[1] if len(a) > 1 else k.get("dtype")
    tu = _time_unit(dt)
    if isinstance(v, (SymSeq, FlatSeq)) or (isinstance(v, list) and any(isinstance(x, (Sym, SymSeq)) for x in v)):
        return SymNdOpaque(v, dt, _time_conv(*tu) if tu else None)
    if isinstance(v, Sym) and tu:
        return _time_conv(*tu)(v)
    if isinstance(v, (SymNd, SymNdOpaque)):
        return v
    return NotImplemented


def _opaque_attr(it, obj, name):
    if name == "dtype":
        if obj.dtype_req is None:
            raise Unsupported("dtype of an opaque symbolic array without explicit dtype")
        return np.dtype(obj.dtype_req)
    if name in ("astype", "tolist"):
        return BoundSymMethod(obj, name)
    raise Unsupported(f"attribute {name} of opaque symbolic array")


REGISTRY.attr_load[SymNdOpaque] = _opaque_attr
