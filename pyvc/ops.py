"""pyvc.ops — semantics of operators on symbolic values (DESIGN.md §2.2.3).

Stated encoding assumptions:
  * Python int is the mathematical integer (exactly what it is);  // and % are floor semantics.
  * int / int is an exact rational ("ratio"); math.ceil of it is the exact ceiling (A-ceil: valid while the
    operands are below 2**53, which is part of the callers' preconditions).
  * float is IEEE-754 binary64 with round-to-nearest-even (z3 FloatingPoint); int -> float conversion is the
    uninterpreted function i2f (we never need its value, only that both sides use the same one).
  * str is z3's String sort; text extracted from file bytes is an uninterpreted function of (file, offset, width).
  * datetime / timedelta are integer microseconds (datetime: since an arbitrary epoch; the civil-from-days map
    jan1(year) is uninterpreted but shared by code and spec). numpy datetime64/timedelta64[ns] are integer ns.
"""
from __future__ import annotations

import ast
import datetime as _dt
import operator

import z3

from .core import F32, F64, RNE, StrSort, Sym, SymSeq, Undecided, Unsupported, fresh_int, is_concrete_int, z3_of

US_PER_DAY = 86400 * 10**6

# uninterpreted functions shared by code-side terms and spec-side terms -------------------------------
I2F = z3.Function("i2f", z3.IntSort(), F64)  # int -> float conversion
PY_INT = z3.Function("py_int", StrSort, z3.IntSort())  # int(text)
PY_FLOAT = z3.Function("py_float", StrSort, F64)  # float(text)
STRIP = z3.Function("py_strip", StrSort, StrSort)  # text.strip()
JAN1 = z3.Function("jan1_days", z3.IntSort(), z3.IntSort())  # days from epoch to 1 January of year
BEU = z3.Function("be_uint", z3.IntSort(), z3.IntSort(), z3.IntSort(), z3.IntSort())  # (file, off, width) -> value
BITS32 = z3.Function("be_bits32", z3.IntSort(), z3.IntSort(), z3.BitVecSort(32))  # (file, off) -> 4 bytes big-endian
TXT = z3.Function("ascii_text", z3.IntSort(), z3.IntSort(), z3.IntSort(), StrSort)  # (file, off, width)
RAWB = z3.Function("raw_bytes", z3.IntSort(), z3.IntSort(), z3.IntSort(), StrSort)  # (file, off, width) as opaque
STRIP0 = z3.Function("strip_nul", StrSort, StrSort)  # bytes.strip(b"\0")
STRPTIME = z3.Function("strptime_us", StrSort, StrSort, z3.IntSort())  # (text, format) -> µs
ISOFMT = z3.Function("isoformat", z3.IntSort(), StrSort)  # datetime µs -> ISO text
STR_OF_INT = z3.Function("str_of_int", z3.IntSort(), StrSort)
SPLIT_JOIN = z3.Function("split_join", StrSort, StrSort, StrSort)  # sep.join(text.split())


# strings: an uninterpreted sort (z3's sequence theory is not used: it is unstable and ignores timeouts).
# Python string constants are distinct constants of the sort; the facts about them are collected in STR_FACTS
# and are part of every query.
_STR_CONSTS = {}
STR_FACTS = []
IS_EMPTY = z3.Function("str_is_empty", StrSort, z3.BoolSort())
STR_LEN = z3.Function("str_len", StrSort, z3.IntSort())
CONCAT = z3.Function("str_concat", StrSort, StrSort, StrSort)
SUBSTR = z3.Function("str_slice", StrSort, z3.IntSort(), z3.IntSort(), StrSort)
CONTAINS = z3.Function("str_contains", StrSort, StrSort, z3.BoolSort())
PREFIXOF = z3.Function("str_prefixof", StrSort, StrSort, z3.BoolSort())
SUFFIXOF = z3.Function("str_suffixof", StrSort, StrSort, z3.BoolSort())


def str_const(v):
    c = _STR_CONSTS.get(v)
    if c is None:
        c = z3.Const(f"str:{v!r}", StrSort)
        for other in _STR_CONSTS.values():
            STR_FACTS.append(c != other)
        STR_FACTS.append(IS_EMPTY(c) == z3.BoolVal(v == ""))
        STR_FACTS.append(STR_LEN(c) == len(v))
        _STR_CONSTS[v] = c
    return c


def str_value_of(term):
    for v, c in _STR_CONSTS.items():
        if z3.eq(c, term):
            return v
    return None


def concat_terms(terms):
    out = terms[0]
    for t in terms[1:]:
        out = CONCAT(out, t)
    return out


def mk_bool(t):
    t = z3.simplify(t) if z3.is_expr(t) else t
    if z3.is_true(t):
        return True
    if z3.is_false(t):
        return False
    return Sym(t, bool)


def mk_int(t):
    if isinstance(t, int):
        return t
    t = z3.simplify(t)
    if z3.is_int_value(t):
        return t.as_long()
    return Sym(t, int)


def pyt_of(v):
    if isinstance(v, Sym):
        return v.pyt
    if isinstance(v, bool):
        return bool
    if isinstance(v, int):
        return int
    if isinstance(v, float):
        return float
    if isinstance(v, str):
        return str
    if isinstance(v, complex):
        return complex
    if isinstance(v, _dt.datetime):
        return _dt.datetime
    if isinstance(v, _dt.timedelta):
        return _dt.timedelta
    return type(v)


def as_int_term(v):
    if isinstance(v, Sym):
        if v.pyt is int:
            return v.term
        if v.pyt is bool:
            return z3.If(v.term, 1, 0)
        raise Unsupported(f"int term of {v!r}")
    if isinstance(v, bool):
        return z3.IntVal(int(v))
    if isinstance(v, int):
        return z3.IntVal(v)
    if z3.is_expr(v):
        return v
    raise Unsupported(f"int term of {type(v).__name__}")


def as_f64_term(v):
    if isinstance(v, Sym):
        if v.pyt is float:
            return v.term
        if v.pyt in (int, bool):
            return I2F(as_int_term(v))
        if v.pyt == "ratio":
            raise Unsupported("float of exact ratio")
        raise Unsupported(f"float term of {v!r}")
    if isinstance(v, float):
        return z3.FPVal(v, F64)
    if isinstance(v, int):
        return I2F(z3.IntVal(int(v)))
    raise Unsupported(f"float term of {type(v).__name__}")


def as_str_term(v):
    if isinstance(v, Sym) and v.pyt is str:
        return v.term
    if isinstance(v, str):
        return str_const(v)
    raise Unsupported(f"str term of {v!r}")


def dt_to_us(v):
    """datetime -> integer µs term (epoch = 1 Jan of year 1 via jan1)."""
    if isinstance(v, Sym) and v.pyt is _dt.datetime:
        return v.term
    if isinstance(v, _dt.datetime):
        days = (_dt.date(v.year, v.month, v.day) - _dt.date(v.year, 1, 1)).days
        return (JAN1(z3.IntVal(v.year)) + days) * US_PER_DAY + (
            (v.hour * 3600 + v.minute * 60 + v.second) * 10**6 + v.microsecond
        )
    raise Unsupported(f"datetime term of {v!r}")


def td_to_us(v):
    if isinstance(v, Sym) and v.pyt is _dt.timedelta:
        return v.term
    if isinstance(v, _dt.timedelta):
        return z3.IntVal((v.days * 86400 + v.seconds) * 10**6 + v.microseconds)
    raise Unsupported(f"timedelta term of {v!r}")


PY_LOWER = z3.Function("py_lower", StrSort, StrSort)
PY_UPPER = z3.Function("py_upper", StrSort, StrSort)
SPLIT1_HEAD = z3.Function("split1_head", StrSort, StrSort, StrSort)
SPLIT1_TAIL = z3.Function("split1_tail", StrSort, StrSort, StrSort)
PY_ISDIGIT = z3.Function("py_isdigit", StrSort, z3.BoolSort())
PY_REMOVEPREFIX = z3.Function("py_removeprefix", StrSort, StrSort, StrSort)
FDIV = z3.Function("py_floordiv", z3.IntSort(), z3.IntSort(), z3.IntSort())  # a // b for symbolic b > 0


def floordiv_axioms():
    """theory of // for a symbolic positive divisor (E-matching friendly; avoids z3's non-linear div)"""
    a, a2, b = z3.Ints("fd_a fd_a2 fd_b")
    return [
        z3.ForAll([a, b], z3.Implies(b > 0, z3.And(b * FDIV(a, b) <= a, a < b * FDIV(a, b) + b)), patterns=[FDIV(a, b)]),
        z3.ForAll([a, a2, b], z3.Implies(z3.And(b > 0, a <= a2), FDIV(a, b) <= FDIV(a2, b)),
                  patterns=[z3.MultiPattern(FDIV(a, b), FDIV(a2, b))]),
        z3.ForAll([a, b], z3.Implies(z3.And(b > 0, a >= 0), FDIV(a, b) >= 0), patterns=[FDIV(a, b)]),
        z3.ForAll([a, b], z3.Implies(z3.And(b > 0, a >= 0, a < b), FDIV(a, b) == 0), patterns=[FDIV(a, b)]),
        z3.ForAll([a, a2, b], z3.Implies(z3.And(b > 0, a + b <= a2), FDIV(a, b) < FDIV(a2, b)),
                  patterns=[z3.MultiPattern(FDIV(a, b), FDIV(a2, b))]),
    ]


def floordiv_term(a, b, it=None):
    b = z3.simplify(b) if z3.is_expr(b) else z3.IntVal(b)
    if z3.is_int_value(b):
        bv = b.as_long()
        if bv > 0:
            return a / b
        return (-a) / (-b)
    if it is not None:
        if not it.path.entails(b > 0):
            raise Unsupported("floor division by a symbolic divisor that is not known to be positive")
        if not getattr(it.path, "_fdiv_axioms", False):
            it.path._fdiv_axioms = True
            for ax in floordiv_axioms():
                it.path.add_hyp(ax)
        # the quotient is named by a constant (z3's non-linear reasoning does not look inside function
        # applications that occur in products); it is tied to FDIV(a, b) so that quantified facts about FDIV apply
        from .core import _nonlinear

        a_s = z3.simplify(a)
        if not _nonlinear(a_s):
            F = FDIV(a, b)
            it.path.assume(z3.And(b * F <= a, a < b * F + b))
            return F
        memo = it.path.__dict__.setdefault("_fdiv_memo", {})
        key = (a_s.get_id(), b.get_id())
        hit = memo.get(key)
        if hit is not None:
            return hit[0]
        F = z3.Int(f"quot!{len(memo)}")
        memo[key] = (F, a_s, b)
        it.path.assume(z3.And(b * F <= a, a < b * F + b, F == FDIV(a, b)))
        return F
    return z3.If(b > 0, a / b, (-a) / (-b))


class SymComplex:
    """Python complex with symbolic parts (binary64 each)."""

    __slots__ = ("re", "im")

    def __init__(self, re, im):
        self.re = re
        self.im = im

    def __repr__(self):
        return f"SymComplex<{self.re}, {self.im}>"

    def __deepcopy__(self, memo):
        return self


def _to_complex_parts(v):
    if isinstance(v, SymComplex):
        return v.re, v.im
    if isinstance(v, complex):
        return z3.FPVal(v.real, F64), z3.FPVal(v.imag, F64)
    return as_f64_term(v), z3.FPVal(0.0, F64)


def complex_binop(opname, l, r):
    a, b = _to_complex_parts(l)
    c, d = _to_complex_parts(r)
    if opname == "add":
        return SymComplex(z3.fpAdd(RNE, a, c), z3.fpAdd(RNE, b, d))
    if opname == "sub":
        return SymComplex(z3.fpSub(RNE, a, c), z3.fpSub(RNE, b, d))
    if opname == "mul":  # textbook formula (CPython's _Py_c_prod)
        return SymComplex(
            z3.fpSub(RNE, z3.fpMul(RNE, a, c), z3.fpMul(RNE, b, d)),
            z3.fpAdd(RNE, z3.fpMul(RNE, a, d), z3.fpMul(RNE, b, c)),
        )
    raise Unsupported(f"complex {opname}")


def binop(it, opname, l, r, inplace=False):
    lsym = isinstance(l, (Sym, SymComplex)) or hasattr(type(l), "sym_binop")
    rsym = isinstance(r, (Sym, SymComplex)) or hasattr(type(r), "sym_binop")
    if not lsym and not rsym:
        if isinstance(l, SymSeq) or isinstance(r, SymSeq):
            from . import models

            return models.symseq_binop(it, opname, l, r)
        if inplace:
            if isinstance(l, (list, dict, set)):
                it.note_effect("inplace-" + opname, l)
            f = getattr(operator, "i" + opname.rstrip("_") if opname not in ("or_", "and_") else "i" + opname[:-1])
            return f(l, r)
        return getattr(operator, opname)(l, r)
    if hasattr(type(l), "sym_binop"):
        res = l.sym_binop(it, opname, r, False)
        if res is not NotImplemented:
            return res
    if hasattr(type(r), "sym_binop"):
        res = r.sym_binop(it, opname, l, True)
        if res is not NotImplemented:
            return res
    tl, tr = pyt_of(l), pyt_of(r)
    if SymComplex in (type(l), type(r)) or complex in (tl, tr):
        return complex_binop(opname, l, r)
    num = (int, bool)
    if tl in num and tr in num:
        a, b = as_int_term(l), as_int_term(r)
        if opname == "add":
            return mk_int(a + b)
        if opname == "sub":
            return mk_int(a - b)
        if opname == "mul":
            return mk_int(a * b)
        if opname == "floordiv":
            _nonzero(it, b)
            return mk_int(floordiv_term(a, b, it))
        if opname == "mod":
            _nonzero(it, b)
            return mk_int(a - b * floordiv_term(a, b, it))
        if opname == "truediv":
            _nonzero(it, b)
            return Sym(z3.ToReal(a) / z3.ToReal(b), "ratio", tag=(a, b))
        raise Unsupported(f"int {opname} on symbols")
    if (tl is float or tr is float) and tl in (int, bool, float) and tr in (int, bool, float):
        a, b = as_f64_term(l), as_f64_term(r)
        f = {"add": z3.fpAdd, "sub": z3.fpSub, "mul": z3.fpMul, "truediv": z3.fpDiv}.get(opname)
        if f is None:
            raise Unsupported(f"float {opname} on symbols")
        return Sym(f(RNE, a, b), float)
    if tl is _dt.datetime and tr is _dt.timedelta and opname == "add":
        return Sym(dt_to_us(l) + td_to_us(r), _dt.datetime)
    if tl is _dt.timedelta and tr is _dt.datetime and opname == "add":
        return Sym(dt_to_us(r) + td_to_us(l), _dt.datetime)
    if tl is _dt.datetime and tr is _dt.timedelta and opname == "sub":
        return Sym(dt_to_us(l) - td_to_us(r), _dt.datetime)
    if tl is _dt.datetime and tr is _dt.datetime and opname == "sub":
        return Sym(dt_to_us(l) - dt_to_us(r), _dt.timedelta)
    if tl is _dt.timedelta and tr is _dt.timedelta and opname in ("add", "sub"):
        a, b = td_to_us(l), td_to_us(r)
        return Sym(a + b if opname == "add" else a - b, _dt.timedelta)
    if tl is str and tr is str and opname == "add":
        return Sym(CONCAT(as_str_term(l), as_str_term(r)), str)
    if "dt64" in (tl, tr) or "td64" in (tl, tr):
        return _np_time_binop(opname, l, r, tl, tr)
    raise Unsupported(f"binop {opname} on {tl} and {tr}")


def _np_time_binop(opname, l, r, tl, tr):
    a, b = l.term, r.term
    if opname == "add" and {tl, tr} == {"dt64", "td64"}:
        return Sym(a + b, "dt64")
    if opname == "add" and tl == tr == "td64":
        return Sym(a + b, "td64")
    if opname == "sub" and tl == "dt64" and tr == "td64":
        return Sym(a - b, "dt64")
    if opname == "sub" and tl == tr == "dt64":
        return Sym(a - b, "td64")
    if opname == "sub" and tl == tr == "td64":
        return Sym(a - b, "td64")
    raise Unsupported(f"numpy time {opname} on {tl},{tr}")


def _nonzero(it, b):
    if not it.path.entails(b != 0):
        if it.truth(mk_bool(b == 0)):
            raise ZeroDivisionError("division by zero")


def neg(it, v):
    if isinstance(v, Sym):
        if v.pyt in (int, bool):
            return mk_int(-as_int_term(v))
        if v.pyt is float:
            return Sym(z3.fpNeg(v.term), float)
        raise Unsupported("neg")
    return -v


def truth_term(it, v):
    """Bool term for the truthiness of a scalar symbol (None if not expressible)."""
    if v.pyt is bool:
        return v.term
    if v.pyt is int:
        return v.term != 0
    if v.pyt is str:
        return z3.Not(IS_EMPTY(v.term))
    if v.pyt is float:
        return z3.Not(z3.fpIsZero(v.term))
    if v.pyt in (_dt.datetime,):
        return z3.BoolVal(True)
    if v.pyt is _dt.timedelta:
        return v.term != 0
    return None


def truth_term_req(it, v):
    t = truth_term(it, v)
    if t is None:
        raise Unsupported(f"truth value of {v!r}")
    return t


def try_ite(it, cond, body, orelse, env):
    """Evaluate both branches of a conditional expression under their conditions; if both are scalar and of
    the same Python type, return an ite term instead of forking."""
    p = it.path
    temp = p.__dict__.setdefault("temp", [])
    pos = p.pos
    temp.append(cond)
    try:
        a = it.ev(body, env)
    finally:
        temp.pop()
    temp.append(z3.Not(cond))
    try:
        b = it.ev(orelse, env)
    finally:
        temp.pop()
    if p.pos != pos:
        # the branches forked themselves: cannot merge soundly with this simple scheme
        raise Unsupported("fork inside a merged conditional expression")
    ta, tb = pyt_of(a), pyt_of(b)
    scalar = (int, bool, float, str, _dt.datetime, _dt.timedelta, "dt64", "td64")
    if (isinstance(a, Sym) or isinstance(b, Sym)) and ta == tb and ta in scalar:
        return Sym(z3.If(cond, _term_of(a, ta), _term_of(b, tb)), ta)
    if ta in (int, bool) and tb in (int, bool) and (isinstance(a, Sym) or isinstance(b, Sym)):
        return Sym(z3.If(cond, as_int_term(a), as_int_term(b)), int)
    if not isinstance(a, Sym) and not isinstance(b, Sym) and type(a) is type(b) and isinstance(a, (int, str, float, bool, type(None))):
        if a == b:
            return a
        if isinstance(a, (bool, int)):
            return Sym(z3.If(cond, as_int_term(a), as_int_term(b)), int if not isinstance(a, bool) else bool) \
                if not isinstance(a, bool) else Sym(z3.If(cond, z3.BoolVal(a), z3.BoolVal(b)), bool)
    return NotImplemented


def _term_of(v, t):
    if t in (int,):
        return as_int_term(v)
    if t is bool:
        return v.term if isinstance(v, Sym) else z3.BoolVal(v)
    if t is float:
        return as_f64_term(v)
    if t is str:
        return as_str_term(v)
    if t is _dt.datetime:
        return dt_to_us(v)
    if t is _dt.timedelta:
        return td_to_us(v)
    return v.term


# ---------------------------------------------------------------------------------------------------
# comparisons
# ---------------------------------------------------------------------------------------------------
_CMP_INT = {
    ast.Eq: lambda a, b: a == b,
    ast.NotEq: lambda a, b: a != b,
    ast.Lt: lambda a, b: a < b,
    ast.LtE: lambda a, b: a <= b,
    ast.Gt: lambda a, b: a > b,
    ast.GtE: lambda a, b: a >= b,
}
_CMP_FP = {
    ast.Eq: z3.fpEQ,
    ast.NotEq: lambda a, b: z3.Not(z3.fpEQ(a, b)),
    ast.Lt: z3.fpLT,
    ast.LtE: z3.fpLEQ,
    ast.Gt: z3.fpGT,
    ast.GtE: z3.fpGEQ,
}
_NATIVE = {
    ast.Eq: operator.eq,
    ast.NotEq: operator.ne,
    ast.Lt: operator.lt,
    ast.LtE: operator.le,
    ast.Gt: operator.gt,
    ast.GtE: operator.ge,
    ast.Is: operator.is_,
    ast.IsNot: operator.is_not,
}


def compare(it, op, l, r):
    t = type(op)
    if t in (ast.In, ast.NotIn):
        res = contains(it, r, l)
        if t is ast.NotIn:
            return (not res) if isinstance(res, bool) else Sym(z3.Not(res.term), bool)
        return res
    if t in (ast.Is, ast.IsNot):
        if isinstance(l, (Sym, SymSeq)) or isinstance(r, (Sym, SymSeq)):
            # identity with None / singletons: a symbol is never None (unless it stands for a value of unknown class)
            for x, y in ((l, r), (r, l)):
                if isinstance(x, Sym) and isinstance(x.pyt, type) and getattr(x.pyt, "opaque_class", False) and y is None:
                    t_ = z3.Function("is_none", x.term.sort(), z3.BoolSort())(x.term)
                    return Sym(t_ if t is ast.Is else z3.Not(t_), bool)
            same = l is r
            return same if t is ast.Is else not same
        return _NATIVE[t](l, r)
    if not isinstance(l, (Sym, SymComplex)) and not isinstance(r, (Sym, SymComplex)):
        if hasattr(type(l), "sym_compare"):
            return l.sym_compare(it, op, r, False)
        if hasattr(type(r), "sym_compare"):
            return r.sym_compare(it, op, l, True)
        if isinstance(l, SymSeq) or isinstance(r, SymSeq):
            raise Unsupported("comparison of symbolic sequences")
        return _NATIVE[t](l, r)
    tl, tr = pyt_of(l), pyt_of(r)
    if tl in (int, bool) and tr in (int, bool):
        return mk_bool(_CMP_INT[t](as_int_term(l), as_int_term(r)))
    if tl == "ratio" or tr == "ratio":
        a = l.term if tl == "ratio" else z3.ToReal(as_int_term(l))
        b = r.term if tr == "ratio" else z3.ToReal(as_int_term(r))
        return mk_bool(_CMP_INT[t](a, b))
    if tl in (int, bool, float) and tr in (int, bool, float):
        return mk_bool(_CMP_FP[t](as_f64_term(l), as_f64_term(r)))
    if tl is str and tr is str:
        if t in (ast.Eq, ast.NotEq):
            return mk_bool(_CMP_INT[t](as_str_term(l), as_str_term(r)))
        raise Unsupported("ordering of symbolic strings")
    for ty, conv in ((_dt.datetime, dt_to_us), (_dt.timedelta, td_to_us)):
        if tl is ty and tr is ty:
            return mk_bool(_CMP_INT[t](conv(l), conv(r)))
    if tl == tr and tl in ("dt64", "td64"):
        return mk_bool(_CMP_INT[t](l.term, r.term))
    # different, incomparable kinds: == is False, != is True (e.g. symbol vs None / list / str vs int)
    if t is ast.Eq:
        return False
    if t is ast.NotEq:
        return True
    raise Unsupported(f"comparison {t.__name__} on {tl} and {tr}")


def contains(it, container, item):
    if hasattr(type(container), "sym_contains"):
        return container.sym_contains(it, item)
    if isinstance(container, SymSeq):
        raise Unsupported("membership in symbolic sequence")
    if isinstance(item, (Sym, SymComplex)):
        if isinstance(container, Sym):
            if container.pyt is str and item.pyt is str:
                return mk_bool(CONTAINS(container.term, item.term))
            raise Unsupported("membership in scalar symbol")
        if isinstance(container, str):
            if item.pyt is str:
                return mk_bool(CONTAINS(str_const(container), item.term))
            raise TypeError("'in <string>' requires string as left operand")
        if isinstance(container, (dict, set, frozenset, list, tuple, type({}.keys()))):
            terms = []
            for k in container:
                c = compare(it, ast.Eq(), item, k)
                if c is True:
                    return True
                if c is False:
                    continue
                terms.append(c.term)
            if not terms:
                return False
            return mk_bool(z3.Or(*terms))
        raise Unsupported(f"membership of symbol in {type(container).__name__}")
    if isinstance(container, Sym):
        if container.pyt is str and isinstance(item, str):
            return mk_bool(CONTAINS(container.term, str_const(item)))
        raise Unsupported("membership in scalar symbol")
    if isinstance(container, (list, tuple)) and any(isinstance(x, Sym) for x in container):
        terms = []
        for k in container:
            c = compare(it, ast.Eq(), item, k)
            if c is True:
                return True
            if c is False:
                continue
            terms.append(c.term)
        return mk_bool(z3.Or(*terms)) if terms else False
    h = it.models.contains.get(type(container))
    if h is not None:
        return h(it, container, item)
    return item in container


# ---------------------------------------------------------------------------------------------------
# subscripts
# ---------------------------------------------------------------------------------------------------
def _tid(v):
    if v is None:
        return None
    if isinstance(v, Sym):
        return ("t", z3.simplify(v.term).get_id())
    if z3.is_expr(v):
        return ("t", z3.simplify(v).get_id())
    return ("c", v)


def slice_bounds(it, sl, length):
    """memoised per path: the same slice on the same length yields the same terms"""
    memo = it.path.__dict__.setdefault("_slice_memo", {})
    key = (_tid(sl.start), _tid(sl.stop), _tid(sl.step), _tid(length))
    if key not in memo:
        memo[key] = _slice_bounds(it, sl, length)
    return memo[key]


def index_map(it, start, stop, step, count, n):
    """p -> start + p*step for a symbolic positive step, kept behind an uninterpreted function I with the linear
    facts slice.indices guarantees (instantiate-on-access); the defining equation is recorded as a definition and
    only handed to the obligations that need it. The same (start, step, count) yields the same function."""
    from .core import fresh_name

    memo = it.path.__dict__.setdefault("_index_maps", {})
    key = (z3.simplify(start).get_id(), z3.simplify(step).get_id(), z3.simplify(count).get_id())
    if key not in memo:
        I = z3.Function(fresh_name("idx"), z3.IntSort(), z3.IntSort())
        it.path.add_hyp(z3.Implies(count > 0, I(0) == start))
        p = z3.Int(fresh_name("p"))
        it.path.add_hyp(z3.ForAll([p], z3.Implies(z3.And(p >= 0, p + 1 < count), I(p) + step <= I(p + 1)), patterns=[I(p + 1)]))
        it.path.__dict__.setdefault("index_maps", []).append({"I": I, "start": start, "stop": stop, "step": step, "count": count})
        memo[key] = I
    I = memo[key]

    def at(pt):
        it.path.assume(z3.Implies(z3.And(pt >= 0, pt < count), z3.And(I(pt) >= start, I(pt) < stop, I(pt) >= 0, I(pt) < n)))
        return I(pt)

    return at


def _slice_bounds(it, sl, length):
    """(start, stop, step, count) terms of sl.indices(length) for step > 0 (Python semantics)."""
    step = sl.step
    if step is None:
        step = 1
    n = as_int_term(length)
    if isinstance(step, Sym) or step <= 0:
        st = as_int_term(step)
        if not it.path.entails(st > 0):
            if it.truth(mk_bool(st == 0)):
                raise ValueError("slice step cannot be zero")
            if it.truth(mk_bool(st < 0)):
                return _neg_slice_bounds(it, sl, n, st)
    st = as_int_term(step)

    P = it.path.pick
    unit = z3.is_int_value(z3.simplify(st)) and z3.simplify(st).as_long() == 1
    # fast path: bounds already inside [0, n] and ordered -> no clamping at all (one query)
    if sl.start is not None and sl.stop is not None:
        a, b = as_int_term(sl.start), as_int_term(sl.stop)
        if it.path.entails(z3.And(a >= 0, a <= b, b <= n)):
            span = z3.simplify(b - a)
            count = span if unit else floordiv_term(span + st - 1, st, it)
            return z3.simplify(a), z3.simplify(b), z3.simplify(st), z3.simplify(count)

    def clamp(v, default):
        if v is None:
            return default
        t = as_int_term(v)
        return P(t < 0, P(t + n < 0, z3.IntVal(0), t + n), P(t > n, n, t))

    start = clamp(sl.start, z3.IntVal(0))
    stop = clamp(sl.stop, n)
    span = z3.simplify(stop - start)
    if unit:
        count = P(span <= 0, z3.IntVal(0), span)
    else:
        count = P(span <= 0, z3.IntVal(0), floordiv_term(span + st - 1, st, it))
    return z3.simplify(start), z3.simplify(stop), z3.simplify(st), z3.simplify(count)


def _neg_slice_bounds(it, sl, n, st):
    def clamp(v, default):
        if v is None:
            return default
        t = as_int_term(v)
        return z3.If(t < 0, z3.If(t + n < -1, -1, t + n), z3.If(t >= n, n - 1, t))

    start = clamp(sl.start, n - 1)
    stop = clamp(sl.stop, z3.IntVal(-1))
    span = start - stop
    count = z3.If(span <= 0, 0, (span + (-st) - 1) / (-st))
    return z3.simplify(start), z3.simplify(stop), z3.simplify(st), z3.simplify(count)


def subscript(it, obj, key):
    if hasattr(type(obj), "sym_getitem"):
        return obj.sym_getitem(it, key)
    if isinstance(obj, SymSeq):
        from . import models

        return models.symseq_getitem(it, obj, key)
    if isinstance(obj, Sym):
        if obj.pyt is str:
            if isinstance(key, slice) and key.step is None:
                lo = as_int_term(key.start) if key.start is not None else z3.IntVal(0)
                hi = as_int_term(key.stop) if key.stop is not None else z3.IntVal(-1)
                return Sym(SUBSTR(obj.term, lo, hi), str)
            raise Unsupported("indexing a symbolic string")
        raise Unsupported(f"subscript of {obj!r}")
    if isinstance(key, Sym):
        if isinstance(obj, dict):
            for k in obj:
                c = compare(it, ast.Eq(), key, k)
                if c is False:
                    continue
                if it.truth(c):
                    return it.wrap(obj[k])
            raise KeyError(key)
        if isinstance(obj, (list, tuple)) and key.pyt is int:
            n = len(obj)
            for i in range(-n, n):
                if it.truth(mk_bool(key.term == i)):
                    return obj[i]
            raise IndexError("index out of range")
        if type(obj).__module__.startswith("construct") and key.pyt is int:
            import construct as _C

            return _C.Array(key, obj)  # Construct.__getitem__(count): count repetitions (count may be symbolic)
        raise Unsupported(f"symbolic key on {type(obj).__name__}")
    if isinstance(key, slice) and any(isinstance(x, Sym) for x in (key.start, key.stop, key.step)):
        if isinstance(obj, (list, tuple)):
            from . import models

            seq = SymSeq(len(obj), lambda i, o=obj: models.concrete_at(it, o, i), type(obj))
            return models.symseq_getitem(it, seq, key)
        raise Unsupported(f"symbolic slice of {type(obj).__name__}")
    h = it.models.getitem.get(type(obj))
    if h is not None:
        r = h(it, obj, key)
        if r is not NotImplemented:
            return r
    from .interp import _static_lookup, is_repo_func
    import types as _types

    g = _static_lookup(type(obj), "__getitem__")
    if isinstance(g, _types.FunctionType) and is_repo_func(g):
        return it.call_closure(it.shim(g), [obj, key], {})
    return it.wrap(obj[key])


# ---------------------------------------------------------------------------------------------------
# attributes / methods of scalar symbols
# ---------------------------------------------------------------------------------------------------
class SymMethod:
    def __init__(self, obj, name):
        self.obj = obj
        self.name = name

    def __repr__(self):
        return f"<SymMethod {self.name} of {self.obj!r}>"


def sym_attr(it, obj, name):
    if obj.pyt is complex or isinstance(obj, SymComplex):
        raise Unsupported("complex attr")
    if obj.pyt is _dt.datetime and name in ("year", "month", "day"):
        raise Unsupported("calendar field of symbolic datetime")
    return SymMethod(obj, name)


def call_sym_method(it, m, a, k):
    obj, name = m.obj, m.name
    if isinstance(obj, Sym) and obj.pyt is str:
        s = obj.term
        if name == "strip" and not a:
            return Sym(STRIP(s), str)
        if name == "lower" and not a:
            return Sym(PY_LOWER(s), str)
        if name == "upper" and not a:
            return Sym(PY_UPPER(s), str)
        if name == "startswith":
            pre = a[0]
            if isinstance(pre, tuple):
                return mk_bool(z3.Or(*[PREFIXOF(as_str_term(p), s) for p in pre]))
            return mk_bool(PREFIXOF(as_str_term(pre), s))
        if name == "endswith":
            return mk_bool(SUFFIXOF(as_str_term(a[0]), s))
        if name == "encode":
            return Sym(s, str, tag="encoded")
        if name == "split" and not a:
            return SymSplit(obj)
        if name == "split" and len(a) == 2 and isinstance(a[0], str) and a[1] == 1:
            # text.split(sep, 1): [head, tail] when sep occurs, else [text]
            sep = str_const(a[0])
            if it.truth(mk_bool(CONTAINS(s, sep))):
                return [Sym(SPLIT1_HEAD(s, sep), str),
                        Sym(SPLIT1_TAIL(s, sep), str)]
            return [obj]
        if name == "isdigit":
            return mk_bool(PY_ISDIGIT(s))
        if name == "removeprefix":
            p = as_str_term(a[0])
            return Sym(PY_REMOVEPREFIX(s, p), str)
        raise Unsupported(f"str.{name} on symbol")
    if isinstance(obj, Sym) and obj.pyt is _dt.datetime:
        if name == "isoformat" and not a:
            return Sym(ISOFMT(obj.term), str)
        if name == "date" and not a:
            return Sym(floordiv_term(obj.term, z3.IntVal(US_PER_DAY)) * US_PER_DAY, "date")
        raise Unsupported(f"datetime.{name} on symbol")
    if isinstance(obj, Sym) and obj.pyt is _dt.timedelta:
        if name == "total_seconds":
            raise Unsupported("total_seconds")
    raise Unsupported(f"method {name} on {obj!r}")


class SymSplit:
    """result of text.split() on a symbolic string: only understood by '-'.join(...) and unpacking models"""

    def __init__(self, s):
        self.s = s


def format_string(it, parts):
    terms = []
    for p in parts:
        if isinstance(p, str):
            if p:
                terms.append(str_const(p))
            continue
        _, val, conv, spec = p
        if isinstance(val, Sym) and val.pyt is str and not spec and conv in (-1, ord("s")):
            terms.append(val.term)
        elif isinstance(val, Sym) and val.pyt in (int,) and not spec and conv in (-1, ord("s")):
            terms.append(STR_OF_INT(val.term))
        else:
            # only used for messages: opaque text of the value
            terms.append(z3.Const(f"fmt!{id(val)}", StrSort))
    if not terms:
        return ""
    if len(terms) == 1:
        return Sym(terms[0], str)
    return Sym(concat_terms(terms), str)


def merge_values(it, results):
    """[(conditions, value)] -> one value (ite over the conditions) when all values are scalars of one kind"""
    vals = [v for _, v in results]
    kinds = {pyt_of(v) if not isinstance(v, SymComplex) else complex for v in vals}
    if kinds <= {int, bool} and bool not in kinds or kinds == {int}:
        conv = as_int_term
        pyt = int
    elif kinds == {bool}:
        conv = lambda v: v.term if isinstance(v, Sym) else z3.BoolVal(v)  # noqa: E731
        pyt = bool
    elif kinds == {float}:
        conv = as_f64_term
        pyt = float
    elif kinds == {str}:
        conv = as_str_term
        pyt = str
    elif kinds == {_dt.datetime}:
        conv = dt_to_us
        pyt = _dt.datetime
    else:
        return NotImplemented
    if any(isinstance(v, (list, dict, tuple)) for v in vals):
        return NotImplemented
    term = conv(vals[-1])
    for conds, v in reversed(results[:-1]):
        c = z3.And(*conds) if len(conds) != 1 else conds[0]
        term = z3.If(c, conv(v), term)
    return Sym(term, pyt)
