"""pyvc.interp — AST symbolic interpreter for the real functions of /repo (DESIGN.md §2.2).

The verified text is the file content: a function object imported from /repo is turned into its AST with
inspect.getsource on every run. Dropped (not verified): type annotations, docstrings, decorators other than
@dataclass / @property. Native values are operated on by CPython itself; symbolic values go through the
rules in `ops.py` and the library models in `models.py`.
"""
from __future__ import annotations

import ast
import builtins
import dataclasses
import inspect
import operator
import sys
import textwrap
import types

import z3

from . import ops
from .core import (
    DeadPath,
    Path,
    Sym,
    SymSeq,
    Undecided,
    Unmediated,
    Unsupported,
    fresh_int,
    is_concrete_int,
    z3_of,
)

def _repo_prefixes():
    """source directory of the package under verification: wherever `ceos_alos2` is imported from (normally /repo)"""
    try:
        import os

        import ceos_alos2

        return [os.path.dirname(os.path.abspath(ceos_alos2.__file__)) + "/"]
    except Exception:  # pragma: no cover
        return ["/repo/ceos_alos2/"]


REPO_PREFIXES = _repo_prefixes()
EXTRA_INTERPRETED_PREFIXES = []  # e.g. /verif/contracts


def code_file(f):
    code = getattr(f, "__code__", None)
    return getattr(code, "co_filename", "") if code is not None else ""


def is_repo_func(f):
    if not isinstance(f, types.FunctionType):
        return False
    fn = code_file(f)
    if "/tests/" in fn:
        return False
    return any(fn.startswith(p) for p in REPO_PREFIXES + EXTRA_INTERPRETED_PREFIXES)


class Ret(BaseException):
    def __init__(self, v):
        self.v = v


class Brk(BaseException):
    pass


class Cont(BaseException):
    pass


ENGINE_EXC = (Undecided, DeadPath, Ret, Brk, Cont, RecursionError, KeyboardInterrupt, SystemExit, MemoryError)


class Env:
    __slots__ = ("vars", "parent", "globs")

    def __init__(self, vars=None, parent=None, globs=None):
        self.vars = {} if vars is None else vars
        self.parent = parent
        self.globs = globs if globs is not None else (parent.globs if parent else {})

    def lookup(self, name):
        e = self
        while e is not None:
            if name in e.vars:
                return e.vars[name]
            e = e.parent
        if name in self.globs:
            return self.globs[name]
        try:
            return getattr(builtins, name)
        except AttributeError:
            raise NameError(f"name {name!r} is not defined") from None

    def set(self, name, value):
        self.vars[name] = value


_SRC_CACHE = {}


def function_ast(f):
    """AST of the real function (source re-read from the file of the running tree)."""
    key = f.__code__
    if key in _SRC_CACHE:
        return _SRC_CACHE[key]
    if f.__name__ == "<lambda>":
        node = _lambda_ast(f)
    else:
        src = textwrap.dedent(inspect.getsource(f))
        mod = ast.parse(src)
        node = mod.body[0]
        if not isinstance(node, (ast.FunctionDef, ast.AsyncFunctionDef)):
            raise Unsupported(f"cannot find def of {f!r}")
    _SRC_CACHE[key] = node
    return node


def _lambda_ast(f):
    """Locate the ast.Lambda of a native lambda object by line/column of its code object."""
    file = inspect.getsourcefile(f)
    with open(file) as fh:
        tree = ast.parse(fh.read())
    line = f.__code__.co_firstlineno
    cands = [n for n in ast.walk(tree) if isinstance(n, ast.Lambda) and n.lineno == line]
    if not cands:
        raise Unsupported(f"cannot locate lambda at {file}:{line}")
    if len(cands) > 1:
        # disambiguate by argument names and by column (py3.11+: co_positions)
        names = f.__code__.co_varnames[: f.__code__.co_argcount]
        cands2 = [n for n in cands if tuple(a.arg for a in n.args.args) == tuple(names)]
        if len(cands2) >= 1:
            cands = cands2
        if len(cands) > 1:
            try:
                cols = {p[2] for p in f.__code__.co_positions() if p[0] == line and p[2] is not None}
                cands3 = [n for n in cands if any(n.col_offset <= c <= (n.end_col_offset or 10**9) for c in cols)]
                # prefer the innermost one containing all columns
                if cands3:
                    cands = sorted(cands3, key=lambda n: (n.end_col_offset or 0) - n.col_offset)
                    # choose the lambda whose body span covers the min column of code positions
                    mn = min(cols)
                    inner = [n for n in cands if n.body.col_offset <= mn]
                    if inner:
                        cands = inner
            except Exception:
                pass
    return cands[0]


class Closure:
    """An interpreted function value. Callable, so native higher-order code (toolz) re-enters the interpreter."""

    def __init__(self, interp, node, env, name, defaults=None, kwdefaults=None, qualname=None, self_obj=None):
        self.interp = interp
        self.node = node
        self.env = env
        self.__name__ = name
        self.__qualname__ = qualname or name
        self.defaults = defaults or []
        self.kwdefaults = kwdefaults or {}
        self.self_obj = self_obj

    def __call__(self, *a, **k):
        return self.interp.call_closure(self, list(a), k)

    def __get__(self, obj, objtype=None):
        if obj is None:
            return self
        return BoundClosure(self, obj)

    def __repr__(self):
        return f"<Closure {self.__qualname__}>"


class BoundClosure:
    def __init__(self, closure, obj):
        self.closure = closure
        self.obj = obj
        self.__name__ = closure.__name__

    def __call__(self, *a, **k):
        return self.closure.interp.call_closure(self.closure, [self.obj, *a], k)


_YIELD_CACHE = {}


def has_yield(node):
    """yield directly in this function (not in nested defs/lambdas)."""
    r = _YIELD_CACHE.get(id(node))
    if r is None:
        r = _YIELD_CACHE[id(node)] = _has_yield(node)
    return r


def _has_yield(node):
    stack = list(node.body) if not isinstance(node, ast.Lambda) else [node.body]
    while stack:
        n = stack.pop()
        if isinstance(n, (ast.Yield, ast.YieldFrom)):
            return True
        if isinstance(n, (ast.FunctionDef, ast.Lambda, ast.AsyncFunctionDef, ast.ClassDef)):
            continue
        stack.extend(ast.iter_child_nodes(n))
    return False


CMP = {
    ast.Eq: operator.eq,
    ast.NotEq: operator.ne,
    ast.Lt: operator.lt,
    ast.LtE: operator.le,
    ast.Gt: operator.gt,
    ast.GtE: operator.ge,
    ast.Is: operator.is_,
    ast.IsNot: operator.is_not,
}
BIN = {
    ast.Add: "add",
    ast.Sub: "sub",
    ast.Mult: "mul",
    ast.Div: "truediv",
    ast.FloorDiv: "floordiv",
    ast.Mod: "mod",
    ast.Pow: "pow",
    ast.BitOr: "or_",
    ast.BitAnd: "and_",
    ast.BitXor: "xor",
    ast.LShift: "lshift",
    ast.RShift: "rshift",
    ast.MatMult: "matmul",
}


class Interp:
    def __init__(self, path: Path, models=None, contracts=None):
        self.path = path
        self.shims = {}
        if models is None:
            from . import models as _m

            models = _m.REGISTRY
        self.models = models
        self.contracts = contracts or {}  # qualname -> modular contract (optional)
        self.io_log = []  # ghost I/O log
        self.effects = []  # ghost write-effect log
        self.lock_log = []  # ghost lock log
        self.state_objects = []  # abstract stateful objects (SymFile...) for effect detection in comprehensions
        self.call_depth = 0
        self.trace_calls = None  # optional list collecting qualnames of interpreted repo functions
        self.frames = []

    # ------------------------------------------------------------------------------------------
    # function values
    # ------------------------------------------------------------------------------------------
    def shim(self, f):
        """Interpreted stand-in for a native function object defined under /repo."""
        key = f
        c = self.shims.get(key)
        if c is not None:
            return c
        node = function_ast(f)
        env = Env(globs=f.__globals__)
        if f.__closure__:
            env.vars.update(
                {n: cell.cell_contents for n, cell in zip(f.__code__.co_freevars, f.__closure__) if _cell_ok(cell)}
            )
        defaults = list(f.__defaults__ or [])
        kwdefaults = dict(f.__kwdefaults__ or {})
        c = Closure(self, node, env, f.__name__, defaults, kwdefaults, qualname=f"{f.__module__}.{f.__qualname__}")
        self.shims[key] = c
        return c

    def wrap(self, v):
        """Values read from the environment / attributes: repo functions become interpreted closures."""
        if isinstance(v, types.FunctionType) and is_repo_func(v):
            return self.shim(v)
        if isinstance(v, types.MethodType) and is_repo_func(v.__func__):
            return BoundClosure(self.shim(v.__func__), v.__self__)
        return v

    def call_body(self, cl: Closure, a, k):
        """run the body of `cl` even if it has a modular contract (calls made from inside the body, recursive ones included,
        go through the contract): one induction step"""
        self._skip_contract_once = getattr(cl, "__qualname__", None)
        return self.call_closure(cl, a, k)

    def call_closure(self, cl: Closure, a, k):
        mod = self.contracts.get(getattr(cl, "__qualname__", None)) if self.contracts else None
        if mod is not None and getattr(self, "_skip_contract_once", None) == getattr(cl, "__qualname__", None):
            mod = None
        self._skip_contract_once = None
        if mod is not None:
            return mod(self, list(a), dict(k))  # modular call: the callee's contract, not its body
        node = cl.node
        args = node.args
        env = Env(parent=cl.env)
        params = [x.arg for x in args.posonlyargs + args.args]
        a = list(a)
        k = dict(k)
        if len(a) > len(params) and not args.vararg:
            raise TypeError(f"{cl.__name__}() takes {len(params)} positional arguments but {len(a)} were given")
        for name, v in zip(params, a):
            env.vars[name] = v
        if a and params:
            env.vars["__first_arg__"] = a[0]
        if args.vararg:
            env.vars[args.vararg.arg] = tuple(a[len(params):])
        ndef = len(cl.defaults)
        for i, name in enumerate(params):
            if name in env.vars:
                if name in k:
                    raise TypeError(f"{cl.__name__}() got multiple values for argument {name!r}")
                continue
            if name in k:
                env.vars[name] = k.pop(name)
            else:
                j = i - (len(params) - ndef)
                if j >= 0:
                    env.vars[name] = cl.defaults[j]
                else:
                    raise TypeError(f"{cl.__name__}() missing required positional argument: {name!r}")
        for x in args.kwonlyargs:
            if x.arg in k:
                env.vars[x.arg] = k.pop(x.arg)
            elif x.arg in cl.kwdefaults:
                env.vars[x.arg] = cl.kwdefaults[x.arg]
            else:
                raise TypeError(f"{cl.__name__}() missing required keyword-only argument: {x.arg!r}")
        if args.kwarg:
            env.vars[args.kwarg.arg] = k
        elif k:
            raise TypeError(f"{cl.__name__}() got an unexpected keyword argument {next(iter(k))!r}")

        if self.trace_calls is not None:
            self.trace_calls.append(cl.__qualname__)
        self.call_depth += 1
        if self.call_depth > 150:
            self.call_depth -= 1
            raise Unsupported("interpreted call depth exceeded")
        try:
            if isinstance(node, ast.Lambda):
                return self.ev(node.body, env)
            if has_yield(node):
                env.vars["__yield__"] = []
                try:
                    self.block(node.body, env)
                except Ret:
                    pass
                return iter(env.vars["__yield__"])  # A-eager: generators are evaluated eagerly
            try:
                self.block(node.body, env)
            except Ret as r:
                return r.v
            return None
        finally:
            self.call_depth -= 1

    def make_closure(self, node, env, name):
        a = node.args
        defaults = [self.ev(d, env) for d in a.defaults]
        kwdefaults = {x.arg: self.ev(d, env) for x, d in zip(a.kwonlyargs, a.kw_defaults) if d is not None}
        return Closure(self, node, env, name, defaults, kwdefaults)

    # ------------------------------------------------------------------------------------------
    # statements
    # ------------------------------------------------------------------------------------------
    def block(self, stmts, env):
        for s in stmts:
            self.st(s, env)

    def st(self, s, env):
        m = getattr(self, "st_" + type(s).__name__, None)
        if m is None:
            raise Unsupported(f"statement {type(s).__name__} at line {getattr(s, 'lineno', '?')}")
        return m(s, env)

    def st_Return(self, s, env):
        raise Ret(self.ev(s.value, env) if s.value is not None else None)

    def st_Pass(self, s, env):
        pass

    def st_Expr(self, s, env):
        self.ev(s.value, env)

    def st_Assign(self, s, env):
        v = self.ev(s.value, env)
        for t in s.targets:
            self.assign(t, v, env)

    def st_AnnAssign(self, s, env):
        if s.value is not None:
            self.assign(s.target, self.ev(s.value, env), env)

    def st_AugAssign(self, s, env):
        t = s.target
        opname = BIN[type(s.op)]
        if isinstance(t, ast.Name):
            cur = self.wrap(env.lookup(t.id))
            new = self.binop(opname, cur, self.ev(s.value, env), inplace=True)
            env.set(t.id, new)
        elif isinstance(t, ast.Attribute):
            obj = self.ev(t.value, env)
            cur = self.getattr(obj, t.attr)
            new = self.binop(opname, cur, self.ev(s.value, env), inplace=True)
            self.setattr(obj, t.attr, new)
        elif isinstance(t, ast.Subscript):
            obj = self.ev(t.value, env)
            key = self.ev_slice(t.slice, env)
            cur = self.subscript(obj, key)
            new = self.binop(opname, cur, self.ev(s.value, env), inplace=True)
            self.setitem(obj, key, new)
        else:
            raise Unsupported("augassign target")

    def st_If(self, s, env):
        c = self.truth(self.ev(s.test, env))
        self.block(s.body if c else s.orelse, env)

    def st_FunctionDef(self, s, env):
        for d in s.decorator_list:
            raise Unsupported(f"decorator on nested function {s.name}")
        env.set(s.name, self.make_closure(s, env, s.name))

    def st_For(self, s, env):
        it = self.ev(s.iter, env)
        from . import models as _models

        if isinstance(it, _models.FlatSeq):
            it = it.as_symseq(self)
        if isinstance(it, SymSeq) and it.concrete_len() is None:
            from . import models

            return models.symbolic_for(self, s, it, env)
        items = self.iterate(it)
        broke = False
        for item in items:
            self.assign(s.target, item, env)
            try:
                self.block(s.body, env)
            except Cont:
                continue
            except Brk:
                broke = True
                break
        if not broke and s.orelse:
            self.block(s.orelse, env)

    def st_While(self, s, env):
        n = 0
        while self.truth(self.ev(s.test, env)):
            n += 1
            if n > 10000:
                raise Unsupported("while loop bound")
            try:
                self.block(s.body, env)
            except Cont:
                continue
            except Brk:
                break

    def st_Continue(self, s, env):
        raise Cont()

    def st_Break(self, s, env):
        raise Brk()

    def st_Raise(self, s, env):
        if s.exc is None:
            raise Unsupported("bare raise")  # handled in st_Try
        exc = self.ev(s.exc, env)
        if isinstance(exc, type):
            exc = self.call(exc, [], {})
        if s.cause is not None:
            cause = self.ev(s.cause, env)
            raise exc from cause
        raise exc

    def st_Assert(self, s, env):
        if not self.truth(self.ev(s.test, env)):
            raise AssertionError(self.ev(s.msg, env) if s.msg else None)

    def st_Import(self, s, env):
        for a in s.names:
            mod = __import__(a.name)
            if a.asname:
                for part in a.name.split(".")[1:]:
                    mod = getattr(mod, part)
                env.set(a.asname, mod)
            else:
                env.set(a.name.split(".")[0], mod)

    def st_ImportFrom(self, s, env):
        import importlib

        mod = importlib.import_module(s.module) if s.level == 0 else None
        if mod is None:
            raise Unsupported("relative import")
        for a in s.names:
            env.set(a.asname or a.name, getattr(mod, a.name))

    def st_Delete(self, s, env):
        for t in s.targets:
            if isinstance(t, ast.Name):
                env.vars.pop(t.id, None)
            elif isinstance(t, ast.Subscript):
                obj = self.ev(t.value, env)
                key = self.ev_slice(t.slice, env)
                self.note_effect("delitem", obj)
                del obj[key]
            else:
                raise Unsupported("del target")

    def st_Global(self, s, env):
        raise Unsupported("global statement")

    def st_Nonlocal(self, s, env):
        raise Unsupported("nonlocal statement")

    def st_With(self, s, env):
        exits = []
        try:
            for item in s.items:
                cm = self.ev(item.context_expr, env)
                enter = self.getattr(cm, "__enter__")
                v = self.call(enter, [], {})
                exits.append(cm)
                if item.optional_vars is not None:
                    self.assign(item.optional_vars, v, env)
            self.block(s.body, env)
        except ENGINE_EXC as e:
            if isinstance(e, (Ret, Brk, Cont)):
                for cm in reversed(exits):
                    self.call(self.getattr(cm, "__exit__"), [None, None, None], {})
            raise
        except BaseException as e:
            suppressed = False
            for cm in reversed(exits):
                r = self.call(self.getattr(cm, "__exit__"), [type(e), e, e.__traceback__], {})
                if r is True:
                    suppressed = True
            if not suppressed:
                raise
        else:
            for cm in reversed(exits):
                self.call(self.getattr(cm, "__exit__"), [None, None, None], {})

    def st_Try(self, s, env):
        try:
            try:
                self.block(s.body, env)
            except ENGINE_EXC:
                raise
            except BaseException as e:
                handled = False
                for h in s.handlers:
                    if h.type is None:
                        match = True
                    else:
                        t = self.ev(h.type, env)
                        match = isinstance(e, t)
                    if match:
                        handled = True
                        if h.name:
                            env.set(h.name, e)
                        try:
                            self.block_with_reraise(h.body, env, e)
                        finally:
                            if h.name:
                                env.vars.pop(h.name, None)
                        break
                if not handled:
                    raise
            else:
                if s.orelse:
                    self.block(s.orelse, env)
        finally:
            if s.finalbody:
                self.block(s.finalbody, env)

    def block_with_reraise(self, stmts, env, current):
        for st in stmts:
            if isinstance(st, ast.Raise) and st.exc is None:
                raise current
            # a `raise X from e` inside the handler keeps Python's context semantics natively
            self.st(st, env)

    def st_ClassDef(self, s, env):
        raise Unsupported("nested class definition")

    # ------------------------------------------------------------------------------------------
    # assignment targets
    # ------------------------------------------------------------------------------------------
    def assign(self, t, v, env):
        if isinstance(t, ast.Name):
            env.set(t.id, v)
        elif isinstance(t, (ast.Tuple, ast.List)):
            star = [i for i, e in enumerate(t.elts) if isinstance(e, ast.Starred)]
            vs = self.unpack(v, len(t.elts) if not star else None)
            if star:
                i = star[0]
                after = len(t.elts) - i - 1
                if len(vs) < len(t.elts) - 1:
                    raise ValueError(f"not enough values to unpack (expected at least {len(t.elts) - 1}, got {len(vs)})")
                for tt, vv in zip(t.elts[:i], vs[:i]):
                    self.assign(tt, vv, env)
                self.assign(t.elts[i].value, list(vs[i: len(vs) - after]), env)
                for tt, vv in zip(t.elts[i + 1:], vs[len(vs) - after:]):
                    self.assign(tt, vv, env)
            else:
                if len(vs) != len(t.elts):
                    raise ValueError(
                        f"{'too many' if len(vs) > len(t.elts) else 'not enough'} values to unpack (expected {len(t.elts)})"
                    )
                for tt, vv in zip(t.elts, vs):
                    self.assign(tt, vv, env)
        elif isinstance(t, ast.Attribute):
            self.setattr(self.ev(t.value, env), t.attr, v)
        elif isinstance(t, ast.Subscript):
            self.setitem(self.ev(t.value, env), self.ev_slice(t.slice, env), v)
        else:
            raise Unsupported(f"assign target {type(t).__name__}")

    def unpack(self, v, n=None):
        if isinstance(v, SymSeq):
            ln = v.concrete_len()
            if ln is None:
                if n is None:
                    raise Unsupported("star-unpacking a symbolic-length sequence")
                # unpacking requires len == n: otherwise ValueError
                if not self.truth(Sym(v.len_term() == n, bool)):
                    raise ValueError("unpack length mismatch")
                ln = n
            return [v.at(i) for i in range(ln)]
        return list(self.iterate(v))

    def note_effect(self, kind, obj, detail=None):
        self.effects.append((kind, obj, detail))

    def setattr(self, obj, name, v):
        h = self.models.attr_store.get(type(obj))
        if h is not None:
            return h(self, obj, name, v)
        self.note_effect("setattr", obj, name)
        if dataclasses.is_dataclass(obj) and getattr(type(obj), "__dataclass_params__").frozen:
            raise dataclasses.FrozenInstanceError(f"cannot assign to field {name!r}")
        setattr(obj, name, v)

    def setitem(self, obj, key, v):
        h = self.models.item_store.get(type(obj))
        if h is not None:
            return h(self, obj, key, v)
        self.note_effect("setitem", obj, key if not isinstance(key, Sym) else "<sym>")
        cls_setitem = _static_lookup(type(obj), "__setitem__")
        if isinstance(cls_setitem, types.FunctionType) and is_repo_func(cls_setitem):
            return self.call_closure(self.shim(cls_setitem), [obj, key, v], {})
        if isinstance(key, (Sym, SymSeq)):
            raise Unsupported("store with symbolic key")
        obj[key] = v

    # ------------------------------------------------------------------------------------------
    # expressions
    # ------------------------------------------------------------------------------------------
    def ev(self, e, env):
        m = getattr(self, "ev_" + type(e).__name__, None)
        if m is None:
            raise Unsupported(f"expression {type(e).__name__} at line {getattr(e, 'lineno', '?')}")
        return m(e, env)

    def ev_Constant(self, e, env):
        return e.value

    def ev_Name(self, e, env):
        return self.wrap(env.lookup(e.id))

    def ev_Attribute(self, e, env):
        return self.getattr(self.ev(e.value, env), e.attr)

    def getattr(self, obj, name):
        h = self.models.attr_load.get(type(obj))
        if h is not None:
            r = h(self, obj, name)
            if r is not NotImplemented:
                return r
        if isinstance(obj, Sym):
            return ops.sym_attr(self, obj, name)
        if isinstance(obj, SymSeq):
            from . import models

            return models.symseq_attr(self, obj, name)
        # properties / methods defined in repo classes are interpreted
        cls = obj if isinstance(obj, type) else type(obj)
        static = _static_lookup(cls, name)
        if isinstance(static, property) and not isinstance(obj, type):
            if is_repo_func(static.fget):
                if not _instance_overrides(obj, name):
                    return self.call_closure(self.shim(static.fget), [obj], {})
        if isinstance(static, types.FunctionType) and is_repo_func(static) and not isinstance(obj, type):
            if not _instance_overrides(obj, name):
                return BoundClosure(self.shim(static), obj)
        return self.wrap(getattr(obj, name))

    def ev_Lambda(self, e, env):
        return self.make_closure(e, env, "<lambda>")

    def ev_List(self, e, env):
        return self._elts(e.elts, env)

    def ev_Tuple(self, e, env):
        return tuple(self._elts(e.elts, env))

    def ev_Set(self, e, env):
        return set(self._elts(e.elts, env))

    def _elts(self, elts, env):
        out = []
        for x in elts:
            if isinstance(x, ast.Starred):
                v = self.ev(x.value, env)
                if isinstance(v, SymSeq) and v.concrete_len() is None:
                    raise Unsupported("starred symbolic-length sequence in display")
                out.extend(self.iterate(v))
            else:
                out.append(self.ev(x, env))
        return out

    def ev_Dict(self, e, env):
        out = {}
        for k, v in zip(e.keys, e.values):
            if k is None:
                out.update(self.ev(v, env))
            else:
                kk = self.ev(k, env)
                if isinstance(kk, (Sym, SymSeq)):
                    raise Unsupported("dict display with symbolic key")
                out[kk] = self.ev(v, env)
        return out

    def ev_Subscript(self, e, env):
        return self.subscript(self.ev(e.value, env), self.ev_slice(e.slice, env))

    def ev_slice(self, sl, env):
        if isinstance(sl, ast.Slice):
            return slice(
                self.ev(sl.lower, env) if sl.lower is not None else None,
                self.ev(sl.upper, env) if sl.upper is not None else None,
                self.ev(sl.step, env) if sl.step is not None else None,
            )
        return self.ev(sl, env)

    def ev_Slice(self, e, env):
        return self.ev_slice(e, env)

    def subscript(self, obj, key):
        return ops.subscript(self, obj, key)

    def ev_Starred(self, e, env):
        raise Unsupported("starred expression outside call/display")

    def ev_IfExp(self, e, env):
        c = self.ev(e.test, env)
        if isinstance(c, Sym):
            # both branches scalar-symbolic -> ite term (no fork); otherwise fork
            d = self.path
            t = c.term if c.pyt is bool else ops.truth_term(self, c)
            if t is not None and not z3.is_true(z3.simplify(t)) and not z3.is_false(z3.simplify(t)):
                rt = d.feasible(t)
                rf = d.feasible(z3.Not(t))
                if rt != z3.unsat and rf != z3.unsat:
                    # try to merge the two branches into one ite term; if a branch forks, raises or is not a scalar, the
                    # attempt is undone and the conditional is executed by forking on its test
                    snap = (len(d.decisions), d.pos, len(d.pc), len(d.__dict__.get("forks", [])), len(d.__dict__.get("temp", [])),
                            len(self.effects), len(self.io_log))
                    try:
                        merged = ops.try_ite(self, t, e.body, e.orelse, env)
                    except Undecided:
                        merged = NotImplemented
                    except ENGINE_EXC:
                        raise
                    except Exception:  # a branch raised under its condition: decided by the forking execution below
                        merged = NotImplemented
                    if merged is not NotImplemented:
                        return merged
                    del d.decisions[snap[0]:]
                    d.pos = snap[1]
                    del d.pc[snap[2]:]
                    if "forks" in d.__dict__:
                        del d.__dict__["forks"][snap[3]:]
                    if "temp" in d.__dict__:
                        del d.__dict__["temp"][snap[4]:]
                    del self.effects[snap[5]:]
                    del self.io_log[snap[6]:]
        return self.ev(e.body, env) if self.truth(c) else self.ev(e.orelse, env)

    def ev_UnaryOp(self, e, env):
        v = self.ev(e.operand, env)
        if isinstance(e.op, ast.Not):
            if isinstance(v, Sym):
                return Sym(z3.Not(ops.truth_term_req(self, v)), bool)
            if isinstance(v, SymSeq):
                return ops.mk_bool(v.len_term() == 0)
            return not v
        if isinstance(e.op, ast.USub):
            return ops.neg(self, v)
        if isinstance(e.op, ast.UAdd):
            return v
        if isinstance(e.op, ast.Invert):
            if isinstance(v, Sym):
                raise Unsupported("~ on symbolic")
            return ~v
        raise Unsupported("unary op")

    def ev_BoolOp(self, e, env):
        r = None
        is_and = isinstance(e.op, ast.And)
        for x in e.values:
            r = self.ev(x, env)
            t = self.truth(r)
            if is_and and not t:
                return r
            if not is_and and t:
                return r
        return r

    def ev_BinOp(self, e, env):
        return self.binop(BIN[type(e.op)], self.ev(e.left, env), self.ev(e.right, env))

    def binop(self, opname, l, r, inplace=False):
        return ops.binop(self, opname, l, r, inplace=inplace)

    def ev_Compare(self, e, env):
        left = self.ev(e.left, env)
        result = True
        for op, comp in zip(e.ops, e.comparators):
            right = self.ev(comp, env)
            r = ops.compare(self, op, left, right)
            if len(e.ops) == 1:
                return r
            if not self.truth(r):
                return r
            result = r
            left = right
        return result

    def ev_Call(self, e, env):
        if isinstance(e.func, ast.Name) and e.func.id == "super" and not e.args and not e.keywords:
            x = env
            while x is not None and "__first_arg__" not in x.vars:
                x = x.parent
            if x is None:
                raise Unsupported("zero-argument super() outside a method")
            obj = x.vars["__first_arg__"]
            return super(type(obj), obj)
        f = self.ev(e.func, env)
        a = []
        for x in e.args:
            if isinstance(x, ast.Starred):
                v = self.ev(x.value, env)
                if isinstance(v, SymSeq) and v.concrete_len() is None:
                    a.append(StarSym(v))
                else:
                    a.extend(self.iterate(v))
            else:
                a.append(self.ev(x, env))
        k = {}
        for kw in e.keywords:
            if kw.arg is None:
                k.update(self.ev(kw.value, env))
            else:
                k[kw.arg] = self.ev(kw.value, env)
        return self.call(f, a, k)

    def ev_JoinedStr(self, e, env):
        parts = []
        symbolic = False
        for v in e.values:
            if isinstance(v, ast.Constant):
                parts.append(v.value)
            else:
                val = self.ev(v.value, env)
                spec = self.ev(v.format_spec, env) if v.format_spec is not None else ""
                if isinstance(val, (Sym, SymSeq)) or _contains_sym(val):
                    symbolic = True
                    parts.append(("sym", val, v.conversion, spec))
                else:
                    if v.conversion == ord("r"):
                        val = repr(val)
                    elif v.conversion == ord("s"):
                        val = str(val)
                    elif v.conversion == ord("a"):
                        val = ascii(val)
                    parts.append(format(val, spec))
        if not symbolic:
            return "".join(parts)
        return ops.format_string(self, parts)

    def ev_FormattedValue(self, e, env):
        raise Unsupported("bare FormattedValue")

    def ev_NamedExpr(self, e, env):
        v = self.ev(e.value, env)
        env.set(e.target.id, v)
        return v

    def ev_Yield(self, e, env):
        self._yield_list(env).append(self.ev(e.value, env) if e.value is not None else None)
        return None

    def ev_YieldFrom(self, e, env):
        v = self.ev(e.value, env)
        self._yield_list(env).extend(self.iterate(v))
        return None

    def _yield_list(self, env):
        x = env
        while x is not None:
            if "__yield__" in x.vars:
                return x.vars["__yield__"]
            x = x.parent
        raise Unsupported("yield outside generator")

    # comprehensions --------------------------------------------------------------------------
    def ev_ListComp(self, e, env):
        return self.comprehension(e, env, "list")

    def ev_GeneratorExp(self, e, env):
        return self.comprehension(e, env, "gen")

    def ev_SetComp(self, e, env):
        return self.comprehension(e, env, "set")

    def ev_DictComp(self, e, env):
        return self.comprehension(e, env, "dict")

    def comprehension(self, e, env, kind):
        from . import models

        gens = e.generators
        first_iter = self.ev(gens[0].iter, env)
        if isinstance(first_iter, models.FlatSeq):
            first_iter = first_iter.as_symseq(self)
        if isinstance(first_iter, SymSeq) and first_iter.concrete_len() is None:
            return models.symbolic_comprehension(self, e, env, kind, first_iter)
        out_list = []
        out_dict = {}

        def rec(i, env_i, seq=None):
            g = gens[i]
            it = seq if seq is not None else self.ev(g.iter, env_i)
            if isinstance(it, SymSeq) and it.concrete_len() is None:
                raise Unsupported("nested comprehension over symbolic-length sequence")
            for item in self.iterate(it):
                env_j = Env(parent=env_i)
                self.assign(g.target, item, env_j)
                if all(self.truth(self.ev(c, env_j)) for c in g.ifs):
                    if i + 1 < len(gens):
                        rec(i + 1, env_j)
                    elif kind == "dict":
                        kk = self.ev(e.key, env_j)
                        if isinstance(kk, (Sym, SymSeq)):
                            raise Unsupported("dict comprehension with symbolic key over concrete iterable")
                        out_dict[kk] = self.ev(e.value, env_j)
                    else:
                        out_list.append(self.ev(e.elt, env_j))

        rec(0, env, first_iter)
        if kind == "dict":
            return out_dict
        if kind == "set":
            return set(out_list)
        if kind == "gen":
            return iter(out_list)  # A-eager
        return out_list

    # ------------------------------------------------------------------------------------------
    # truth, iteration, calls
    # ------------------------------------------------------------------------------------------
    def truth(self, v):
        if isinstance(v, Sym):
            return self.path.decide(ops.truth_term_req(self, v))
        if isinstance(v, SymSeq):
            ln = v.concrete_len()
            if ln is not None:
                return ln != 0
            return self.path.decide(v.len_term() != 0)
        h = self.models.truth.get(type(v))
        if h is not None:
            return h(self, v)
        return bool(v)

    def iterate(self, v):
        """Concrete iteration (structure must be concrete)."""
        if isinstance(v, SymSeq):
            ln = v.concrete_len()
            if ln is None:
                raise Unsupported("concrete iteration over a symbolic-length sequence")
            return [v.at(i) for i in range(ln)]
        if isinstance(v, Sym):
            raise Unsupported(f"iteration over scalar symbol {v!r}")
        if getattr(v, "is_symbolic_value", False) and self.models.iterate.get(type(v)) is None:
            raise Unsupported(f"concrete iteration over {type(v).__name__}")
        h = self.models.iterate.get(type(v))
        if h is not None:
            return h(self, v)
        cls_iter = _static_lookup(type(v), "__iter__")
        if isinstance(cls_iter, types.FunctionType) and is_repo_func(cls_iter):
            return list(self.call_closure(self.shim(cls_iter), [v], {}))
        return list(v)

    def call(self, f, a, k):
        from . import models

        return models.dispatch_call(self, f, a, k)

    def call_merged(self, f, a, k, wellformed=None):
        """Call a small pure function and merge its (scalar) results over its internal branches into one ite
        term, so that e.g. `-1 if blank else int(text)` does not fork the enclosing path (DESIGN.md §2.2.7).
        Falls back to ordinary forking execution when the results cannot be merged.

        wellformed=<label>: the internal branches that raise are excluded by a *recorded well-formedness
        assumption* on the input (e.g. "the text of a numeric field is numeric or blank"); the assumptions are
        collected in path.wf_assumptions and reported in the evidence — they are preconditions, not proved."""
        from .core import LocalRaise, exc_text

        n_eff = len(self.effects)
        results = None
        tkey = _template_key(f, a) if wellformed is not None else None
        if tkey is not None:
            tmpl = _TEMPLATES.get(tkey)
            if tmpl is None:
                x = z3.Const("tmpl!x", a[0].term.sort())
                a2 = [Sym(x, a[0].pyt)] + list(a[1:])
                try:
                    saved_pc, saved_hyps = self.path.pc, self.path.hyps
                    r0 = self.path.local_paths(lambda: self.call(f, a2, k), catch=True)
                except BaseException:
                    r0 = None
                if r0 is not None and all(_template_value_ok(v) for _, v in r0):
                    tmpl = _TEMPLATES[tkey] = (x, r0)
                else:
                    _TEMPLATES[tkey] = tmpl = False
            if tmpl:
                x, r0 = tmpl
                sub = [(x, a[0].term)]
                results = [([z3.substitute(c, *sub) for c in conds],
                            Sym(z3.substitute(v.term, *sub), v.pyt) if isinstance(v, Sym) else v) for conds, v in r0]
        if results is None:
            try:
                results = self.path.local_paths(lambda: self.call(f, a, k), catch=wellformed is not None)
            except Undecided:
                raise
            except BaseException:
                del self.effects[n_eff:]
                return self.call(f, a, k)
        if wellformed is not None:
            good = []
            for conds, v in results:
                if isinstance(v, LocalRaise):
                    if not conds:
                        raise v.exc
                    neg = z3.Not(z3.And(*conds)) if len(conds) > 1 else z3.Not(conds[0])
                    self.path.assume(neg)
                    self.path.__dict__.setdefault("wf_assumptions", []).append(
                        (wellformed, exc_text(v.exc, 120), neg))
                else:
                    good.append((conds, v))
            results = good
        if len(results) == 1:
            conds, v = results[0]
            for c in conds:
                self.path.assume(c)
            return v
        merged = ops.merge_values(self, results)
        if merged is NotImplemented:
            del self.effects[n_eff:]
            return self.call(f, a, k)
        return merged


_TEMPLATES = {}


def _template_key(f, a):
    """adapters whose _decode depends on nothing but the raw value (no use of self / context / path): their merged
    result is computed once on a placeholder and instantiated by substitution (pure speed-up)"""
    func = getattr(f, "__func__", None) or getattr(getattr(f, "closure", None), "func", None)
    obj = getattr(f, "__self__", None) or getattr(f, "obj", None)
    if not a or not isinstance(a[0], Sym) or not z3.is_expr(a[0].term):
        return None
    node = None
    cl = getattr(f, "closure", None)
    if cl is not None:
        node = cl.node
    elif func is not None:
        try:
            node = function_ast(func)
        except Exception:
            return None
    if node is None:
        return None
    key = ("tmpl", id(node), a[0].pyt if not isinstance(a[0].pyt, str) else a[0].pyt, a[0].term.sort().name())
    ok = _PURE_IN_ARG0.get(id(node))
    if ok is None:
        args = [x.arg for x in node.args.args]
        first = args[1] if args and args[0] == "self" else (args[0] if args else None)
        others = {x for x in args if x != first}
        used = {n.id for n in ast.walk(node) if isinstance(n, ast.Name)}
        ok = _PURE_IN_ARG0[id(node)] = not (used & others)
    return key if ok else None


_PURE_IN_ARG0 = {}


def _template_value_ok(v):
    from .core import LocalRaise

    if isinstance(v, LocalRaise):
        return True
    if isinstance(v, Sym):
        return z3.is_expr(v.term)
    return isinstance(v, (int, float, str, bool, type(None)))


class StarSym:
    """*args unpacking of a symbolic-length sequence; only understood by models."""

    def __init__(self, seq):
        self.seq = seq


def _cell_ok(cell):
    try:
        cell.cell_contents
        return True
    except ValueError:
        return False


def _static_lookup(cls, name):
    for k in cls.__mro__:
        if name in k.__dict__:
            return k.__dict__[name]
    return None


def _instance_overrides(obj, name):
    d = getattr(obj, "__dict__", None)
    return isinstance(d, dict) and name in d


def _contains_sym(v, depth=0):
    if isinstance(v, (Sym, SymSeq)):
        return True
    if depth > 4:
        return False
    if isinstance(v, dict):
        return any(_contains_sym(x, depth + 1) for x in v.values())
    if isinstance(v, (list, tuple)):
        return any(_contains_sym(x, depth + 1) for x in v)
    return False
