"""pyvc.frame — frame conditions over the ghost write-effect log (DESIGN.md §2.2.6).

`shared_objects()` collects the identities of every mutable object that exists before a run and is reachable from
the module globals of the package (declarations, tables, class objects, default-argument objects); a store to one
of them during the interpretation of a reader function is a hidden-state write: the function is not a pure
function of its inputs (C06/C10), and concurrent calls share unprotected state (C19)."""
from __future__ import annotations

import sys
import types

_CACHE = {}


def shared_objects(package="ceos_alos2"):
    if package in _CACHE:
        return _CACHE[package]
    seen = {}
    stack = []
    for name, mod in list(sys.modules.items()):
        if mod is None or not (name == package or name.startswith(package + ".")) or ".tests" in name:
            continue
        for k, v in list(vars(mod).items()):
            if k.startswith("__"):
                continue
            stack.append((f"{name}.{k}", v, 0))
    while stack:
        label, v, depth = stack.pop()
        if id(v) in seen or depth > 12:
            continue
        if isinstance(v, (int, float, str, bytes, bool, type(None), types.ModuleType, types.BuiltinFunctionType)):
            continue
        if isinstance(v, types.FunctionType):
            mod = getattr(v, "__module__", "") or ""
            if not mod.startswith(package):
                continue
            seen[id(v)] = (label, v)
            for i, d in enumerate(v.__defaults__ or ()):
                stack.append((f"{label}.__defaults__[{i}]", d, depth + 1))
            for kk, d in (v.__kwdefaults__ or {}).items():
                stack.append((f"{label}.__kwdefaults__[{kk}]", d, depth + 1))
            continue
        if isinstance(v, type):
            mod = getattr(v, "__module__", "") or ""
            if not mod.startswith(package):
                continue
            seen[id(v)] = (label, v)
            for kk, d in list(vars(v).items()):
                if not kk.startswith("__"):
                    stack.append((f"{label}.{kk}", d, depth + 1))
            continue
        tmod = type(v).__module__ or ""
        if isinstance(v, dict):
            seen[id(v)] = (label, v)
            for kk, d in list(v.items()):
                stack.append((f"{label}[{kk!r}]", d, depth + 1))
        elif isinstance(v, (list, tuple, set, frozenset)):
            seen[id(v)] = (label, v)
            for i, d in enumerate(v):
                stack.append((f"{label}[{i}]", d, depth + 1))
        elif tmod.startswith("construct") or tmod.startswith(package) or tmod.startswith("toolz") or tmod.startswith("tlz"):
            seen[id(v)] = (label, v)
            d = getattr(v, "__dict__", None)
            if isinstance(d, dict):
                for kk, x in list(d.items()):
                    stack.append((f"{label}.{kk}", x, depth + 1))
            for slot in getattr(type(v), "__slots__", ()) or ():
                if hasattr(v, slot):
                    stack.append((f"{label}.{slot}", getattr(v, slot), depth + 1))
    _CACHE[package] = seen
    return seen


def shared_state_writes(it, shared=None):
    """effects of the run that hit an object that existed before it"""
    shared = shared if shared is not None else shared_objects()
    out = []
    for kind, obj, detail in it.effects:
        hit = shared.get(id(obj))
        if hit is not None and hit[1] is obj:
            out.append({"effect": kind, "object": hit[0], "detail": str(detail)[:80]})
    return out


def memoised_callables(package="ceos_alos2"):
    """functools caches (lru_cache / cache wrappers) anywhere in the package: a memoised reader function is hidden state —
    its result depends on what was computed before, not on its inputs alone"""
    import functools
    import sys

    out = []
    for name, mod in list(sys.modules.items()):
        if mod is None or not (name == package or name.startswith(package + ".")) or ".tests" in name:
            continue
        for k, v in list(vars(mod).items()):
            if isinstance(v, functools._lru_cache_wrapper):
                out.append(f"{name}.{k}")
            if isinstance(v, type) and (getattr(v, "__module__", "") or "").startswith(package):
                for kk, vv in list(vars(v).items()):
                    if isinstance(vv, functools._lru_cache_wrapper) or isinstance(vv, functools.cached_property):
                        out.append(f"{name}.{k}.{kk}")
    return sorted(set(out))


def purity_obligation(ses, function="ceos_alos2"):
    import importlib
    import pkgutil

    import ceos_alos2

    for m in pkgutil.walk_packages(ceos_alos2.__path__, "ceos_alos2."):
        if ".tests" in m.name or m.name.endswith("__main__"):
            continue
        try:
            importlib.import_module(m.name)
        except Exception:  # noqa: BLE001
            pass
    memo = memoised_callables()
    ses.decided(f"{ses.prop}/frame/no-memoised-function-in-the-package", not memo, function=function, kind="frame", backend="syntactic",
                detail={"memoised": memo})
