"""pytest plugin: CPython cross-check of the interpreter (DESIGN.md §2.9).

Every function defined in the ceos_alos2 package (tests excluded) is replaced by a wrapper that runs the
function through pyvc's AST interpreter on the concrete arguments the repo's own tests supply. The suite must
give the same verdicts as under CPython; a difference is an interpreter defect.

usage: PYTHONPATH=/verif .venv/bin/python -m pytest -p pyvc.crosscheck -q -p no:cacheprovider /repo/ceos_alos2
"""
import functools
import importlib
import os
import pkgutil
import sys
import types

COUNT = {"calls": 0, "functions": 0, "undecided": 0}
UNDECIDED = {}


def _wrap(f):
    from pyvc.core import Path, Undecided
    from pyvc.interp import Interp

    @functools.wraps(f)
    def wrapper(*a, **k):
        COUNT["calls"] += 1
        it = Interp(Path())
        try:
            return it.call_closure(it.shim(f), list(a), k)
        except Undecided as e:
            COUNT["undecided"] += 1
            UNDECIDED[f.__qualname__] = str(e)[:200]
            return f(*a, **k)

    wrapper.__pyvc_original__ = f
    return wrapper


def install():
    import ceos_alos2
    from pyvc.interp import is_repo_func

    mods = []
    for m in pkgutil.walk_packages(ceos_alos2.__path__, "ceos_alos2."):
        if ".tests" in m.name or m.name.endswith(".testing"):
            continue
        try:
            mods.append(importlib.import_module(m.name))
        except Exception:
            pass
    mods.append(ceos_alos2)
    replaced = {}
    for mod in mods:
        for name, v in list(vars(mod).items()):
            if isinstance(v, types.FunctionType) and is_repo_func(v) and v.__module__ == mod.__name__:
                if v not in replaced:
                    replaced[v] = _wrap(v)
    # rebind everywhere (from-imports)
    for mod in list(sys.modules.values()):
        if mod is None or not getattr(mod, "__name__", "").startswith("ceos_alos2"):
            continue
        for name, v in list(vars(mod).items()):
            if isinstance(v, types.FunctionType) and v in replaced:
                setattr(mod, name, replaced[v])
    COUNT["functions"] = len(replaced)


def pytest_configure(config):
    sys.setrecursionlimit(10000)
    install()


def pytest_terminal_summary(terminalreporter):
    terminalreporter.write_line(
        f"pyvc crosscheck: {COUNT['functions']} functions interpreted, {COUNT['calls']} calls, "
        f"{COUNT['undecided']} fell back (undecided)"
    )
    for k, v in sorted(UNDECIDED.items()):
        terminalreporter.write_line(f"  undecided: {k}: {v}")
