"""pyvc.tables — record contracts as specification tables (DESIGN.md §2.4).

A table is the postcondition of one reader entry point, stated over the canonical dump of its result
(pyvc.dump): a list of *cases* — each with the branch conditions under which it applies (`when`, terms over the
file bytes), the outcome (`return` / `raise <Exception>`) and, for `return`, the value term of every output
location.  The cases partition the input space.

Checking the real code against a table:  every path P of the current source (path condition pc_P) is compared
with every case T it can overlap (pc_P ∧ when_T not refuted): outcome must agree and, location by location,
   pc_P ∧ when_T  ⇒  got(loc) == spec(loc)
is discharged — by syntactic identity of the simplified terms when they are identical, by z3/cvc5 otherwise.
"""
from __future__ import annotations

import json
import os
import re

import z3

from . import ops
from .core import Sym, canon_sexpr, exc_text

ROOT = os.path.dirname(os.path.dirname(os.path.abspath(__file__)))
TABLE_DIR = os.path.join(ROOT, "spec", "tables")


# ---------------------------------------------------------------------------------------------------
# term (de)serialisation
# ---------------------------------------------------------------------------------------------------
def known_decls():
    """every uninterpreted function / constant declared by the engine's modules, by name"""
    from . import absobj, layout, models

    out = {"ceil_div": z3.Function("ceil_div", z3.IntSort(), z3.IntSort(), z3.IntSort())}
    for nm in ("K0", "K1", "K2", "K3", "rpc", "size_of_file_100", "size_of_file_101"):
        out[nm] = z3.Int(nm).decl()  # canonical element indices and the unit parameters
    for mod in (ops, models, absobj, layout):
        for v in vars(mod).values():
            if isinstance(v, z3.FuncDeclRef):
                out[v.name()] = v
    return out


def decls_of_terms(terms, out=None):
    out = {} if out is None else out
    seen = set()
    stack = list(terms)
    while stack:
        t = stack.pop()
        i = t.get_id()
        if i in seen:
            continue
        seen.add(i)
        if z3.is_app(t):
            d = t.decl()
            if d.kind() == z3.Z3_OP_UNINTERPRETED:
                out[d.name()] = d
            stack.extend(t.children())
        elif z3.is_quantifier(t):
            stack.append(t.body())
    return out


_STR_TOKEN = re.compile(r"\|str:((?:[^|\\]|\\.)*)\|")


def parse_term(text, decls):
    """parse one s-expression (as produced by ExprRef.sexpr()) back into a z3 term"""
    import ast as _ast

    decls = dict(decls)
    for m in _STR_TOKEN.finditer(text):
        lit = m.group(1)
        try:
            val = _ast.literal_eval(lit)
        except Exception:
            continue
        c = ops.str_const(val)
        decls[c.decl().name()] = c.decl()
    # plain-named string constants (no quoting needed) cannot occur: names always contain ':' and quotes
    holder = z3.Function("__holder_bool", z3.BoolSort(), z3.BoolSort())
    # we do not know the sort of the term: try Bool, Int, PyStr, Float64, Float32 holders
    last = None
    for srt in (z3.BoolSort(), z3.IntSort(), ops.StrSort, ops.F64, ops.F32, z3.RealSort()):
        h = z3.Function(f"__holder_{srt.name()}", srt, z3.BoolSort())
        d2 = dict(decls)
        d2[h.name()] = h
        try:
            res = z3.parse_smt2_string(f"(assert ({h.name()} {text}))", decls=d2, sorts={"PyStr": ops.StrSort})
            if len(res) == 1:
                return res[0].arg(0)
            last = "empty parse result"
        except z3.Z3Exception as e:
            last = e
    raise ValueError(f"cannot parse spec term: {last}")


# ---------------------------------------------------------------------------------------------------
# tables
# ---------------------------------------------------------------------------------------------------
def table_path(name):
    return os.path.join(TABLE_DIR, name + ".json")


def load_table(name):
    with open(table_path(name)) as f:
        return json.load(f)


def fork_conditions(path):
    return list(getattr(path, "forks", []))


def case_of_result(it_dump, r):
    """one explored path -> a table case"""
    when = [canon_sexpr(c) for c in fork_conditions(r.path)]
    if r.outcome == "return":
        return {"when": when, "outcome": "return", "dump": it_dump}
    return {"when": when, "outcome": "raise", "exc": type(r.exc).__name__}


def write_table(name, cases, meta=None):
    os.makedirs(TABLE_DIR, exist_ok=True)
    with open(table_path(name), "w") as f:
        json.dump({"name": name, "meta": meta or {}, "cases": cases}, f, indent=0, sort_keys=True)


def _entries_differ(a, b, prefix=""):
    """structural comparison of two dump entries; yields (subpath, a_leaf, b_leaf) for differing leaves;
    a leaf is {'sym'..} / {'py'..} / scalar text; a structural difference is reported as one leaf"""
    if a == b:
        return
    if isinstance(a, dict) and isinstance(b, dict) and set(a) == set(b):
        if "t" in a and "sym" in a:
            yield prefix, a, b
            return
        for k in a:
            yield from _entries_differ(a[k], b[k], f"{prefix}.{k}")
        return
    if isinstance(a, list) and isinstance(b, list) and len(a) == len(b):
        for i, (x, y) in enumerate(zip(a, b)):
            yield from _entries_differ(x, y, f"{prefix}[{i}]")
        return
    yield prefix, a, b


class TableChecker:
    def __init__(self, ses, name, prefix, function=None, replay=None):
        self.ses = ses
        self.name = name
        self.prefix = prefix
        self.function = function
        self.replay = replay
        self.table = load_table(name)
        self._decls = None

    def decls(self, extra_terms=()):
        if self._decls is None:
            self._decls = known_decls()
        decls_of_terms(list(extra_terms), self._decls)
        return self._decls

    def overlap(self, P_when, path, T, hyps):
        """'same' | 'disjoint' | ('overlap', [z3 conds of T])"""
        tw = T["when"]
        if set(P_when) == set(tw):
            return "same", []
        neg = lambda s: s[5:-1] if s.startswith("(not ") else f"(not {s})"  # noqa: E731
        if any(neg(c) in tw for c in P_when):
            return "disjoint", []
        conds = [parse_term(c, self.decls(path.pc)) for c in tw]
        s = z3.Solver()
        s.set("rlimit", 4_500_000)  # deterministic budget (about 3 s idle); the wall-clock limit is a safety net only
        s.set("timeout", 180_000)
        for h in hyps:
            if not z3.is_quantifier(h):
                s.add(h)
        for c in conds:
            s.add(c)
        if s.check() == z3.unsat:
            return "disjoint", []
        return "overlap", conds

    def check_path(self, pi, r, dump, hyps, only=None, sliced=False):
        """compare one explored path (PathResult r with its dump or exception) against the table"""
        ses, fn = self.ses, self.function
        P_when = [canon_sexpr(c) for c in fork_conditions(r.path)]
        pid = f"{self.prefix}/path{pi}"
        matched = 0
        cases = list(enumerate(self.table["cases"]))
        same = [(ti, T) for ti, T in cases if set(T["when"]) == set(P_when)]
        if same:
            cases = same[:1]  # the table's cases partition the inputs: an identical condition set is the only overlap
        for ti, T in cases:
            kind, conds = self.overlap(P_when, r.path, T, hyps)
            if kind == "disjoint":
                continue
            matched += 1
            tid = f"{pid}~case{ti}"
            got_outcome = "return" if r.outcome == "return" else "raise"
            same_outcome = got_outcome == T["outcome"] and (got_outcome == "return" or type(r.exc).__name__ == T.get("exc"))
            ses.decided(f"{tid}/outcome", same_outcome, function=fn, replay=self.replay,
                        detail={"got": got_outcome if got_outcome == "return" else "raise " + exc_text(r.exc),
                                "spec": T["outcome"] + (" " + T.get("exc", "") if T["outcome"] == "raise" else ""),
                                "when": P_when[:6]})
            if not same_outcome or got_outcome != "return":
                if kind == "same":
                    break
                continue
            spec = T["dump"]
            for loc in sorted(set(spec) | set(dump)):
                if only is not None and not only.search(loc):
                    continue
                oid = f"{tid}{loc if loc.startswith('/') else '/' + loc}"
                if loc not in dump:
                    ses.decided(oid, False, function=fn, replay=self.replay, kind="table",
                                detail={"problem": "output location required by the specification is missing", "spec": spec[loc]})
                    continue
                if loc not in spec:
                    ses.decided(oid, False, function=fn, replay=self.replay, kind="table",
                                detail={"problem": "output location not in the specification", "got": dump[loc]})
                    continue
                if dump[loc] == spec[loc]:
                    ses.decided(oid, True, function=fn, kind="table", backend="term-identity")
                    continue
                diffs = list(_entries_differ(dump[loc], spec[loc]))
                ok_all = True
                for sub, a, b in diffs:
                    if isinstance(a, str) and isinstance(b, str) and sub.endswith(".len"):
                        a, b = {"sym": "int", "t": a}, {"sym": "int", "t": b}  # symbolic lengths are stored as bare terms
                    if not (isinstance(a, dict) and isinstance(b, dict) and "t" in a and "t" in b and a.get("sym") == b.get("sym")):
                        ses.decided(oid + sub, False, function=fn, replay=self.replay, kind="table",
                                    detail={"problem": "structure or concrete value differs", "got": a, "spec": b})
                        ok_all = False
                        continue
                    try:
                        ta = parse_term(a["t"], self.decls(r.path.pc))
                        tb = parse_term(b["t"], self.decls())
                    except ValueError as e:
                        ses.decided(oid + sub, False, function=fn, replay=self.replay, kind="table",
                                    detail={"problem": f"term differs from the specification and cannot be compared semantically ({e})",
                                            "got": a, "spec": b})
                        continue
                    goal = _same_value(ta, tb)
                    ses.prove(oid + sub, list(hyps) + list(conds), goal, function=fn, kind="table", replay=self.replay,
                              detail={"got": a["t"][:400], "spec": b["t"][:400]}, sliced=sliced)
            if kind == "same":
                break
        if matched == 0:
            ses.decided(f"{pid}/covered-by-specification", False, function=fn, replay=self.replay,
                        detail={"problem": "no case of the specification applies to this path", "when": P_when[:8],
                                "outcome": r.outcome, "exc": repr(r.exc)[:200]})


def _same_value(a, b):
    # SMT equality: for floating point this is identity of the datum (NaN = NaN, -0.0 != +0.0)
    return a == b
