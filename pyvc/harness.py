"""pyvc.harness — glue between symbolic exploration and the VC session; parallel case runner."""
from __future__ import annotations

import multiprocessing as mp
import os
import time
import traceback

import z3

from .core import PathLimit, Undecided, explore
from .vc import Obligation, Session


def path_hyps(path, extra=()):
    """everything known on a path: hypotheses (quantified facts, preconditions), path condition, extras"""
    from . import ops

    return list(path.hyps) + list(path.pc) + list(extra) + list(ops.STR_FACTS)


def explore_checked(ses, oid, run, hyps, *, function=None, allowed_exc=(), timeout_ms=2000, max_paths=64,
                    replay=None, limit_group="getitem", on_limit=None):
    """Explore all paths of run(path) and turn engine-level outcomes into obligations:
      * a path that ends `undecided`            -> undecided obligation (engine limit, not a violation)
      * a path that raises an unexpected exception -> obligation "this path is infeasible" (pc ⇒ False)
    Returns the list of paths that returned normally (PathResult)."""
    try:
        results = explore(run, hyps=hyps, timeout_ms=timeout_ms, max_paths=max_paths)
    except PathLimit as e:
        ses.engine_limit(f"{oid}/paths", f"path limit: {e}", function=function, group=limit_group)
        return []
    ok = []
    n_raise = 0
    for r in results:
        if r.outcome == "return":
            ok.append(r)
        elif r.outcome == "undecided":
            ses.engine_limit(f"{oid}/supported", f"{type(r.exc).__name__}: {r.exc}", function=function, group=limit_group)
            if on_limit is not None:
                on_limit(r)  # what the path did before it left the verified subset (ghost logs) can still be inspected
        else:
            if allowed_exc and isinstance(r.exc, allowed_exc):
                ok.append(r)
                continue
            n_raise += 1
            # the path must be infeasible
            from .core import exc_text

            exc_txt = exc_text(r.exc, 200)
            ob = ses.prove(
                f"{oid}/no-exception",
                path_hyps(r.path),
                z3.BoolVal(False),
                function=function,
                kind="safety",
                replay=replay,
                detail={"exception": exc_txt},
            )
            if ob.status == "failed" and not (ob.replay or {}).get("confirmed_on_real_code"):
                # the explored paths over-approximate the feasible ones (branches are taken unless refuted): an exception
                # path that is neither refuted nor reproduced on the real code is an engine limit, decided by the stand-in
                ob.status = "engine-limit"
                ob.detail = {"reason": f"exception path neither refuted nor reproduced: {exc_txt}", "group": limit_group}
                ob.replay = None
    if not results:
        ses.undecided(f"{oid}/paths", "no path explored", function=function)
    return ok


# -------------------------------------------------------------------------------------------------
# parallel cases
# -------------------------------------------------------------------------------------------------
def _worker(args):
    prop, tier, seed, modname, fname, case = args
    t = time.time()
    budget = int(float(os.environ.get("PYVC_CASE_BUDGET", 1800 if tier == "quick" else 3600)))
    # A case whose exploration ends with an engine limit (a solver budget exhausted on a pruning query, and whatever follows
    # from exploring the path that was not pruned) is explored again with another solver seed, while the time spent on the case
    # is below PYVC_RETRY_WITHIN seconds (200; a case of the unchanged tree takes less than 130 s with every core oversubscribed): z3's non-linear arithmetic varies from run to run, every attempt is a complete exploration
    # with all its obligations, so any attempt in which every obligation is discharged is a proof. Refutations (failed
    # obligations) are never retried. The attempts are recorded in the notes of the evidence.
    attempts = int(os.environ.get("PYVC_CASE_ATTEMPTS", 3))
    history = []
    for attempt in range(attempts):
        if attempt:
            z3.set_param("smt.random_seed", 17 * attempt)
            z3.set_param("sat.random_seed", 17 * attempt)
        sub = _run_case_once(prop, tier, seed, modname, fname, case, max(60, budget - int(time.time() - t)))
        limits = [o.id for o in sub.obligations if o.status == "engine-limit"]
        failed = [o.id for o in sub.obligations if o.status == "failed"]
        history.append({"attempt": attempt + 1, "engine_limits": limits[:5], "seconds": round(time.time() - t, 1)})
        if not limits or failed or sub.crashed or time.time() - t > float(os.environ.get("PYVC_RETRY_WITHIN", 200)):
            break
    if len(history) > 1:
        sub.notes.append(f"case {case!r}: {len(history)} exploration attempts (solver seeds), earlier ones ended with engine limits: {history}")
    return sub.export(), time.time() - t


def _run_case_once(prop, tier, seed, modname, fname, case, budget):
    import importlib

    import signal

    sub = Session(prop, tier=tier, seed=seed)

    class _Budget(KeyboardInterrupt):
        pass

    def _on_alarm(signum, frame):
        raise _Budget()

    old = None
    try:
        old = signal.signal(signal.SIGALRM, _on_alarm)
        signal.alarm(budget)
    except (ValueError, OSError):  # not the main thread of the process: no budget
        old = None
    try:
        mod = importlib.import_module(modname)
        getattr(mod, fname)(sub, case)
    except _Budget:
        # on the unchanged tree every case finishes well inside the budget
        sub.engine_limit(f"{prop}/{fname}/{'-'.join(map(str, case))}/within-verified-subset",
                         f"time budget of {budget}s exceeded while interpreting this case", function=f"{modname}.{fname}",
                         group={"case_post_init": "post_init", "case_load": "load"}.get(fname, "getitem"))
    except Exception:
        sub.crashed = f"case {case!r}: " + traceback.format_exc()
    finally:
        try:
            signal.alarm(0)
            if old is not None:
                signal.signal(signal.SIGALRM, old)
        except (ValueError, OSError):
            pass
    return sub


def run_cases(ses, modname, fname, cases, processes=None):
    """Run fname(sub_session, case) for every case in worker processes and merge the results."""
    processes = processes or min(len(cases), max(1, (os.cpu_count() or 2)))
    args = [(ses.prop, ses.tier, ses.seed, modname, fname, c) for c in cases]
    if processes <= 1 or len(cases) <= 1 or os.environ.get("PYVC_SERIAL"):
        outs = [_worker(a) for a in args]
    else:
        ctx = mp.get_context("fork")
        # one fresh process per case: the state of z3 (term numbering, learnt lemmas) at the start of a case does not depend on
        # which cases the pool happened to schedule on the same worker before
        with ctx.Pool(processes, maxtasksperchild=1) as pool:
            outs = pool.map(_worker, args, chunksize=1)
    for (exp, dt), c in zip(outs, cases):
        ses.absorb(exp)
    return outs


# -------------------------------------------------------------------------------------------------
# parallel path exploration: each path of a unit is run (and checked) in a worker process
# -------------------------------------------------------------------------------------------------
def _path_worker(args):
    modname, fname, payload, decisions = args
    import importlib
    import sys

    sys.setrecursionlimit(20000)
    t = time.time()
    try:
        mod = importlib.import_module(modname)
        export, final = getattr(mod, fname)(payload, list(decisions))
    except Exception:
        sub = Session(payload.get("prop", "?"), tier=payload.get("tier", "quick"))
        sub.crashed = f"path {decisions!r}: " + traceback.format_exc()
        export, final = sub.export(), list(decisions)
    return export, final, list(decisions), time.time() - t


def explore_parallel(ses, modname, fname, payload, processes=None, max_paths=300, budget_s=None):
    """Run fname(payload, decisions) -> (session export, final decision list) for every path of a unit.
    New prefixes are scheduled as soon as a path reports the forks it met."""
    processes = processes or max(1, (os.cpu_count() or 2))
    n_paths = 0
    budget_s = budget_s or float(os.environ.get("PYVC_UNIT_BUDGET", 1800 if ses.tier == "quick" else 3600))
    t_start = time.time()
    over = None
    if processes <= 1 or os.environ.get("PYVC_SERIAL"):
        stack = [[]]
        while stack:
            dec = stack.pop()
            export, final, _, _ = _path_worker((modname, fname, payload, dec))
            ses.absorb(export)
            n_paths += 1
            if n_paths > max_paths:
                ses.undecided(f"{payload.get('prop')}/{payload.get('unit')}/paths", f"more than {max_paths} paths")
                break
            for i in range(len(dec), len(final)):
                stack.append(final[:i] + [False])
        return n_paths
    ctx = mp.get_context("fork")
    with ctx.Pool(processes) as pool:
        pending = [pool.apply_async(_path_worker, ((modname, fname, payload, []),))]
        while pending:
            nxt = []
            progressed = False
            for job in pending:
                if not job.ready():
                    nxt.append(job)
                    continue
                progressed = True
                export, final, dec, _ = job.get()
                ses.absorb(export)
                n_paths += 1
                for i in range(len(dec), len(final)):
                    if n_paths + len(nxt) > max_paths:
                        break
                    nxt.append(pool.apply_async(_path_worker, ((modname, fname, payload, final[:i] + [False]),)))
            pending = nxt
            if time.time() - t_start > budget_s:
                over = f"time budget of {budget_s:.0f}s exceeded after {n_paths} paths"
                pool.terminate()
                break
            if n_paths + len(pending) > max_paths:
                over = f"more than {max_paths} paths"
                pool.terminate()
                break
            if not progressed:
                time.sleep(0.02)
    if over:
        # on the unchanged tree every unit is explored completely within these limits: exceeding them means the code
        # left the subset the verifier decides
        ses.engine_limit(f"{payload.get('prop')}/{payload.get('unit')}/within-verified-subset", over,
                         function=payload.get("unit"), group=payload.get("unit"))
    return n_paths


def explore_parallel_multi(ses, modname, fname, payloads, processes=None, max_paths=300, budget_s=None):
    """explore_parallel for several units at once (one pool): their path trees are independent, so the critical path of
    the whole run is the longest unit instead of the sum"""
    processes = processes or max(1, (os.cpu_count() or 2))
    if processes <= 1 or os.environ.get("PYVC_SERIAL") or len(payloads) == 1:
        return {p["unit"]: explore_parallel(ses, modname, fname, p, processes, max_paths, budget_s) for p in payloads}
    budget_s = budget_s or float(os.environ.get("PYVC_UNIT_BUDGET", 1800 if ses.tier == "quick" else 3600))
    t_start = time.time()
    counts = {p["unit"]: 0 for p in payloads}
    over = {}
    ctx = mp.get_context("fork")
    with ctx.Pool(processes) as pool:
        pending = [(p, pool.apply_async(_path_worker, ((modname, fname, p, []),))) for p in payloads]
        while pending:
            nxt = []
            progressed = False
            for p, job in pending:
                if not job.ready():
                    nxt.append((p, job))
                    continue
                progressed = True
                export, final, dec, _ = job.get()
                ses.absorb(export)
                counts[p["unit"]] += 1
                if p["unit"] in over:
                    continue
                for i in range(len(dec), len(final)):
                    nxt.append((p, pool.apply_async(_path_worker, ((modname, fname, p, final[:i] + [False]),))))
            pending = nxt
            for p in payloads:
                u = p["unit"]
                if u in over:
                    continue
                if time.time() - t_start > budget_s:
                    over[u] = f"time budget of {budget_s:.0f}s exceeded after {counts[u]} paths"
                elif counts[u] + sum(1 for q, _ in pending if q["unit"] == u) > max_paths:
                    over[u] = f"more than {max_paths} paths"
            if over and all(p["unit"] in over for p in payloads):
                pool.terminate()
                break
            if over:
                pending = [(q, j) for q, j in pending if q["unit"] not in over]
            if not progressed:
                time.sleep(0.02)
    for u, why in over.items():
        ses.engine_limit(f"{ses.prop}/{u}/within-verified-subset", why, function=u, group=u)
    return counts
