"""pyvc.models — call dispatch and contracts ("axioms") for non-repo callables on symbolic values.

Everything here is part of the trusted base (T2/T4/T5 in DESIGN.md §3): toolz, builtins, itertools, math on
symbolic sequences. On concrete structure the real library is executed by CPython; these models are used
only when an argument is symbolic. Each model states the library's behaviour as terms / quantified facts and
is differentially validated against the real library by `pyvc.selftest` (bounded, labelled).
"""
from __future__ import annotations

import builtins
import dataclasses
import inspect
import itertools
import math
import types

import toolz
import z3
from toolz import functoolz as _ft

from . import ops
from .core import (
    DeadPath,
    Sym,
    SymSeq,
    Undecided,
    Unmediated,
    Unsupported,
    fresh_int,
    fresh_name,
    is_concrete_int,
    z3_of,
)
from .ops import SymComplex, SymMethod, as_int_term, mk_bool, mk_int


class Registry:
    def __init__(self):
        self.calls = {}  # callable -> handler(it, a, k) -> value | NotImplemented
        self.methods = {}  # (type, name) -> handler(it, self, a, k)
        self.attr_load = {}
        self.attr_store = {}
        self.item_store = {}
        self.getitem = {}
        self.truth = {}
        self.iterate = {}
        self.contains = {}
        self.constructors = {}  # class -> handler(it, cls, a, k)

    def model(self, *fs):
        def deco(h):
            for f in fs:
                self.calls[f] = h
            return h

        return deco

    def method(self, typ, *names):
        def deco(h):
            for n in names:
                self.methods[(typ, n)] = h
            return h

        return deco


REGISTRY = Registry()
model = REGISTRY.model


def symbolic(v):
    return isinstance(v, (Sym, SymSeq, SymComplex)) or hasattr(v, "is_symbolic_value")


def any_symbolic(a, k=()):
    return any(symbolic(x) for x in a) or any(symbolic(x) for x in (k.values() if isinstance(k, dict) else k))


# ---------------------------------------------------------------------------------------------------
# curry / compose that dispatch through the interpreter
# ---------------------------------------------------------------------------------------------------
class Curried:
    def __init__(self, it, func, args, kwargs):
        self.it = it
        self.func = func
        self.args = tuple(args)
        self.keywords = dict(kwargs)
        self.__name__ = getattr(func, "__name__", "curried")

    def __call__(self, *a, **k):
        return dispatch_call(self.it, self, list(a), k)

    def __repr__(self):
        return f"<Curried {self.__name__} {len(self.args)} args>"


class Composed:
    def __init__(self, it, funcs):
        self.it = it
        self.funcs = list(funcs)
        self.__name__ = "composed"

    def __call__(self, *a, **k):
        return dispatch_call(self.it, self, list(a), k)


def _required_positional(it, func):
    """number of positional parameters without default, or None if unknown."""
    from .interp import BoundClosure, Closure

    if isinstance(func, Closure):
        args = func.node.args
        params = args.posonlyargs + args.args
        return len(params) - len(func.defaults), [p.arg for p in params], bool(args.vararg)
    if isinstance(func, BoundClosure):
        r = _required_positional(it, func.closure)
        return r[0] - 1, r[1][1:], r[2]
    if isinstance(func, types.FunctionType):
        from .interp import is_repo_func

        if is_repo_func(func):
            return _required_positional(it, it.shim(func))
    try:
        sig = inspect.signature(func)
    except (TypeError, ValueError):
        return None
    n = 0
    names = []
    var = False
    for p in sig.parameters.values():
        if p.kind in (p.POSITIONAL_ONLY, p.POSITIONAL_OR_KEYWORD):
            names.append(p.name)
            if p.default is p.empty:
                n += 1
        elif p.kind is p.VAR_POSITIONAL:
            var = True
    return n, names, var


def _call_complete(it, func, args, kwargs):
    r = _required_positional(it, func)
    if r is None:
        return True
    n, names, var = r
    have = len(args) + sum(1 for nm in names[len(args):] if nm in kwargs)
    req_names = names[:n]
    missing = [nm for i, nm in enumerate(req_names) if i >= len(args) and nm not in kwargs]
    return not missing


# ---------------------------------------------------------------------------------------------------
# dispatch
# ---------------------------------------------------------------------------------------------------
MUTATORS = {
    "append", "extend", "insert", "pop", "remove", "clear", "sort", "reverse", "update", "setdefault",
    "popitem", "add", "discard", "__setitem__", "__delitem__", "write", "write_text", "mkdir", "unlink",
}


def dispatch_call(it, f, a, k):
    from .interp import BoundClosure, Closure, StarSym, is_repo_func, _static_lookup

    has_star = any(isinstance(x, StarSym) for x in a)

    if type(f).__module__ == "construct.expr":
        return f(*a, **k)  # this.field(context): a lookup in the parsing context (any attribute of these objects is a Path)
    if isinstance(f, Closure):
        if has_star:
            raise Unsupported("*symbolic-sequence passed to an interpreted function")
        return it.call_closure(f, a, k)
    if isinstance(f, BoundClosure):
        if has_star:
            raise Unsupported("*symbolic-sequence passed to an interpreted method")
        return it.call_closure(f.closure, [f.obj, *a], k)
    if isinstance(f, SymMethod):
        return ops.call_sym_method(it, f, a, k)
    if isinstance(f, (Curried, _ft.curry)):
        func = it.wrap(f.func)
        args = list(f.args) + list(a)
        kw = dict(f.keywords or {})
        kw.update(k)
        if has_star or _call_complete(it, func, args, kw):
            return dispatch_call(it, func, args, kw)
        return Curried(it, func, args, kw)
    if isinstance(f, Composed):
        funcs = f.funcs
        v = dispatch_call(it, funcs[0], a, k)
        for g in funcs[1:]:
            v = dispatch_call(it, g, [v], {})
        return v
    if isinstance(f, _ft.Compose):
        funcs = [f.first, *f.funcs]
        v = dispatch_call(it, it.wrap(funcs[0]), a, k)
        for g in funcs[1:]:
            v = dispatch_call(it, it.wrap(g), [v], {})
        return v
    if hasattr(type(f), "sym_call"):
        return f.sym_call(it, a, k)

    if isinstance(f, types.FunctionType) and is_repo_func(f):
        if has_star:
            raise Unsupported("*symbolic-sequence passed to a repo function")
        return it.call_closure(it.shim(f), a, k)
    if isinstance(f, types.MethodType):
        if is_repo_func(f.__func__):
            return it.call_closure(it.shim(f.__func__), [f.__self__, *a], k)
        h = REGISTRY.methods.get((type(f.__self__), f.__name__))
        if h is not None:
            r = h(it, f.__self__, a, k)
            if r is not NotImplemented:
                return r
        if f.__name__ == "parse" and type(f.__self__).__module__.startswith("construct"):
            from . import layout as _layout

            r = _layout._construct_parse(it, f.__self__, a, k)
            if r is not NotImplemented:
                return r

    h = REGISTRY.calls.get(f) if _hashable(f) else None
    if h is not None:
        r = h(it, a, k)
        if r is not NotImplemented:
            return r
    if has_star:
        raise Unsupported(f"*symbolic-sequence passed to {getattr(f, '__name__', f)!r} (no model)")

    if isinstance(f, type):
        h = REGISTRY.constructors.get(f)
        if h is not None:
            r = h(it, f, a, k)
            if r is not NotImplemented:
                return r
        r = _construct(it, f, a, k)
        if r is not NotImplemented:
            return r

    # builtin bound methods: models keyed by (type of self, name)
    slf = getattr(f, "__self__", None)
    if slf is not None and not isinstance(slf, types.ModuleType):
        name = getattr(f, "__name__", None)
        h = REGISTRY.methods.get((type(slf), name))
        if h is not None:
            r = h(it, slf, a, k)
            if r is not NotImplemented:
                return r
        if name in MUTATORS:
            it.note_effect("call:" + name, slf)
    fmod = (getattr(f, "__module__", None) or type(f).__module__ or "").split(".")[0]
    if fmod == "numpy" and getattr(f, "__self__", None) is None and \
            any(symbolic(x) and not hasattr(type(x), "__array_ufunc__") for x in list(a) + list(k.values())):
        # numpy accepts any object (it wraps it into a 0-d / 1-d object array) instead of rejecting it: without a model the
        # result would be about the wrapper, not about the value
        raise Unsupported(f"numpy.{getattr(f, '__name__', f)} on a symbolic value (no model)")
    try:
        return f(*a, **k)
    except Unmediated:
        raise
    except (TypeError, AttributeError, ValueError) as e:
        # a native callable that was handed a symbolic value and rejected it: engine limit, not program behaviour
        if any(isinstance(x, (Sym, SymSeq)) or getattr(x, "is_symbolic_value", False) for x in list(a) + list(k.values())):
            raise Unsupported(f"native {getattr(f, '__qualname__', f)!r} rejected a symbolic argument: {type(e).__name__}: {e}"[:300])
        raise


def _hashable(f):
    try:
        hash(f)
        return True
    except Exception:
        return False


def _construct(it, cls, a, k):
    """Instantiate classes defined in /repo so that their __init__/__post_init__ are interpreted."""
    from .interp import _static_lookup, is_repo_func

    init = _static_lookup(cls, "__init__")
    if dataclasses.is_dataclass(cls) and not (isinstance(init, types.FunctionType) and is_repo_func(init)):
        mod = getattr(cls, "__module__", "")
        if not mod.startswith("ceos_alos2"):
            return NotImplemented
        obj = cls.__new__(cls)
        flds = [f for f in dataclasses.fields(cls)]
        init_flds = [f for f in flds if f.init]
        if len(a) > len(init_flds):
            raise TypeError(f"{cls.__name__}() takes {len(init_flds)} positional arguments but {len(a)} were given")
        vals = {}
        for f, v in zip(init_flds, a):
            vals[f.name] = v
        for name, v in k.items():
            if name in vals:
                raise TypeError(f"{cls.__name__}() got multiple values for argument {name!r}")
            if name not in {f.name for f in init_flds}:
                raise TypeError(f"{cls.__name__}() got an unexpected keyword argument {name!r}")
            vals[name] = v
        for f in flds:
            if f.name in vals:
                v = vals[f.name]
            elif f.default is not dataclasses.MISSING:
                v = f.default
            elif f.default_factory is not dataclasses.MISSING:
                v = f.default_factory()
            elif not f.init:
                continue
            else:
                raise TypeError(f"{cls.__name__}() missing required argument: {f.name!r}")
            object.__setattr__(obj, f.name, v)
        post = _static_lookup(cls, "__post_init__")
        if post is not None:
            if isinstance(post, types.FunctionType) and is_repo_func(post):
                it.call_closure(it.shim(post), [obj], {})
            else:
                post(obj)
        return obj
    if isinstance(init, types.FunctionType) and is_repo_func(init):
        obj = cls.__new__(cls)
        it.call_closure(it.shim(init), [obj, *a], k)
        return obj
    return NotImplemented


# ---------------------------------------------------------------------------------------------------
# helpers on sequences
# ---------------------------------------------------------------------------------------------------
def concrete_at(it, obj, i):
    """element i (possibly a symbolic index) of a native list/tuple"""
    if is_concrete_int(i):
        return obj[i]
    i = z3.simplify(z3_of(i))
    if z3.is_int_value(i):
        return obj[i.as_long()]
    n = len(obj)
    if n == 1:
        return obj[0]
    for j in range(n):
        if it.truth(mk_bool(i == j)):
            return obj[j]
    raise IndexError("index out of range")


def to_symseq(it, v):
    """View a native finite sequence as a SymSeq (concrete length)."""
    if isinstance(v, SymSeq):
        return v
    if hasattr(v, "as_symseq"):
        return v.as_symseq(it)
    items = list(it.iterate(v))
    return SymSeq(len(items), lambda i, o=items: concrete_at(it, o, i), list)


def symseq_attr(it, seq, name):
    return SeqMethod(seq, name)


class SeqMethod:
    def __init__(self, seq, name):
        self.seq = seq
        self.name = name

    def sym_call(self, it, a, k):
        if self.name in ("index", "count", "copy"):
            raise Unsupported(f"list.{self.name} on symbolic sequence")
        raise Unsupported(f"method {self.name} on symbolic sequence")


def in_bounds_or_raise(it, idx_term, len_term, exc=IndexError, msg="index out of range"):
    """fork: raise `exc` when idx is outside [0, len)."""
    ok = z3.And(idx_term >= 0, idx_term < len_term)
    if it.path.entails(ok):
        return
    if not it.truth(mk_bool(ok)):
        raise exc(msg)


def symseq_getitem(it, seq, key):
    n = seq.len_term()
    if isinstance(key, slice):
        if key.start is None and key.stop is None and key.step is None:
            return SymSeq(seq.length, seq.fn, seq.pycls)
        start, stop, step, count = ops.slice_bounds(it, key, seq.length)
        cnt = mk_int(count)
        if z3.is_int_value(step):
            sv = step.as_long()
            return SymSeq(cnt, lambda i: seq.at(mk_int(start + as_int_term(i) * sv)), seq.pycls)
        if it.truth(mk_bool(step < 0)):
            raise Unsupported("slice with symbolic negative step")
        at = ops.index_map(it, start, stop, step, count, n)
        return SymSeq(cnt, lambda i: seq.at(mk_int(at(as_int_term(i)))), seq.pycls)
    if isinstance(key, Sym) and key.pyt in (int, bool) or is_concrete_int(key):
        k = as_int_term(key)
        if is_concrete_int(key) and key < 0:
            idx = n + key
        elif is_concrete_int(key):
            idx = z3.IntVal(key)
        else:
            # python semantics: negative indices wrap
            if it.path.entails(k >= 0):
                idx = k
            elif it.truth(mk_bool(k < 0)):
                idx = k + n
            else:
                idx = k
        in_bounds_or_raise(it, idx, n, IndexError, f"{seq.pycls.__name__} index out of range")
        return seq.at(mk_int(idx))
    raise Unsupported(f"index {key!r} on symbolic sequence")


def symseq_binop(it, opname, l, r):
    if opname == "add":
        ls, rs = to_symseq(it, l), to_symseq(it, r)
        n1 = ls.len_term()
        total = mk_int(n1 + rs.len_term())

        def fn(i):
            ii = as_int_term(i)
            if it.path.entails(ii < n1):
                return ls.at(i)
            if it.path.entails(ii >= n1):
                return rs.at(mk_int(ii - n1))
            if it.truth(mk_bool(ii < n1)):
                return ls.at(i)
            return rs.at(mk_int(ii - n1))

        return SymSeq(total, fn, ls.pycls)
    raise Unsupported(f"{opname} on symbolic sequences")


# ---------------------------------------------------------------------------------------------------
# trial evaluation of a body at a fresh index (comprehensions / loops over symbolic-length sequences)
# ---------------------------------------------------------------------------------------------------
def trial_var(it):
    """canonical index variable for a trial evaluation at the current nesting depth (one per depth and path), so
    that repeated trials hit the per-sequence memo tables"""
    d = len(it.path.index_ctx)
    tv = it.path.__dict__.setdefault("_trial_vars", {})
    if d not in tv:
        tv[d] = z3.Int(f"ix@{d}")
    return tv[d]


class IndexContext:
    """context manager: push (index var, lo, hi) on the path for the duration of a body evaluation"""

    def __init__(self, it, iv, lo, hi):
        self.it, self.iv, self.lo, self.hi = it, iv, lo, hi

    def __enter__(self):
        self.it.path.index_ctx.append((self.iv, self.lo, self.hi))
        return self

    def __exit__(self, *exc):
        self.it.path.index_ctx.pop()
        return False


def eval_at_index(it, seq_len_term, index, thunk):
    """Evaluate thunk(index) for an index known/assumed to be in [0, len). If `index` is a fresh constant the
    range constraint is pushed as an index context; otherwise it must already follow from the path."""
    return thunk(index)


def symbolic_comprehension(it, e, env, kind, seq):
    """[elt for target in seq if ...] over a symbolic-length sequence.

    Semantics (exact, no bound): the result has one element per source element, element i obtained by
    evaluating the real element expression with the target bound to seq[i]. Filters and nested generators over
    symbolic sequences are not supported (-> undecided). The body is re-interpreted at every access, so
    index-dependent decisions are made for the index actually used."""
    import ast as _ast
    from .interp import Env

    gens = e.generators
    if len(gens) != 1:
        raise Unsupported("nested generators over a symbolic-length sequence")
    g = gens[0]
    if g.ifs:
        raise Unsupported("filter in a comprehension over a symbolic-length sequence")
    n = seq.len_term()

    def elem(i, which="elt"):
        env_i = Env(parent=env)
        it.assign(g.target, seq.at(i), env_i)
        if kind == "dict":
            return it.ev(e.key, env_i), it.ev(e.value, env_i)
        return it.ev(e.elt, env_i)

    stateful = StatefulTrial(it)
    # trial evaluation at a fresh index: discovers effects and makes index-dependent decisions uniformly
    iv = trial_var(it)
    with IndexContext(it, iv, 0, n):
        stateful.begin(iv, n)
        try:
            probe = elem(Sym(iv, int))
        except BaseException:
            stateful.end(failed=True)
            raise
        stateful.end()
    fn_elem = stateful.wrap(elem)

    if kind == "dict":
        kprobe, _ = probe
        if isinstance(kprobe, Sym) and kprobe.pyt is int:
            if it.path.entails(z3.Implies(z3.And(iv >= 0, iv < n), kprobe.term == iv)):
                return SymMap(seq.length, lambda i: i, lambda i: fn_elem(i)[1], key_is_index=True)
            src = getattr(seq, "note", None)
            return SymMap(seq.length, lambda i: fn_elem(i)[0], lambda i: fn_elem(i)[1], key_is_index=False,
                          distinct_from=seq)
        src = getattr(seq, "src", None)
        if src is not None and isinstance(kprobe, Sym) and not src.key_is_index:
            k0 = src.key_fn(Sym(iv, int))
            if isinstance(k0, Sym) and z3.eq(z3.simplify(k0.term), z3.simplify(kprobe.term)):
                # {key: f(value) for key, value in m.items()}: same keys in the same order
                out = SymMap(seq.length, src.key_fn, lambda i: fn_elem(i)[1], key_is_index=False)
                out.absent = getattr(src, "absent", frozenset())
                return out
        raise Unsupported("dict comprehension over symbolic sequence with non-integer symbolic keys")
    pycls = {"list": list, "gen": list, "set": set}[kind]
    if kind == "set":
        raise Unsupported("set comprehension over symbolic sequence")
    return SymSeq(seq.length, fn_elem, pycls)


class StatefulTrial:
    """Effects of a body evaluated once per element of a symbolic-length sequence.

    For abstract stateful objects registered with the interpreter (files), the state before iteration i is
    the fold of the per-iteration effect: pos(0) = pos0, pos(i+1) = pos(i) + advance(i). The fold is an
    uninterpreted function constrained by exactly these two facts (recurrence), added as hypotheses.
    The I/O events of one iteration are recorded with the index variable free and appended to the ghost
    log as one symbolic block."""

    def __init__(self, it):
        self.it = it
        self.files = list(it.state_objects)
        self.active = False

    def begin(self, iv, n):
        self.iv, self.n = iv, n
        self.files = list(self.it.state_objects)
        self.saved = [(f, f.snapshot()) for f in self.files]
        self.folds = {}
        self.log_mark = len(self.it.io_log)
        for f in self.files:
            f.begin_trial(iv)

    def end(self, failed=False):
        it = self.it
        if failed:
            # the body raised: leave the state as the raising iteration left it (exception path)
            for f in self.files:
                f._trial = None
            return
        events = it.io_log[self.log_mark:]
        del it.io_log[self.log_mark:]
        self.effectful = bool(events)
        for f, snap in self.saved:
            adv = f.end_trial(self.iv, self.n, snap)
            if adv is not None:
                self.folds[id(f)] = adv
                self.effectful = True
        if events:
            it.io_log.append(("block", self.iv, self.n, events))

    def wrap(self, elem):
        if not getattr(self, "effectful", False):
            return elem
        it = self.it

        def fn(i):
            # re-evaluate the body at index i with every stateful object placed in its state before iteration i
            saved = [(f, f.snapshot()) for f in self.files]
            mark = len(it.io_log)
            try:
                for f in self.files:
                    f.enter_iteration(i)
                return elem(i)
            finally:
                del it.io_log[mark:]
                for f, snap in saved:
                    f.restore(snap)

        return fn


class Poison:
    def __init__(self, why):
        self.why = why


def symbolic_for(it, s, seq, env):
    """for target in <symbolic-length sequence>: body — supported when the loop only accumulates into lists
    created before the loop (append/extend) and performs I/O; see DESIGN.md §2.2.5."""
    import ast as _ast
    from .interp import Env

    if s.orelse:
        raise Unsupported("for/else over a symbolic-length sequence")
    n = seq.len_term()
    # accumulators: native lists visible in the function scope
    acc_names = [name for name, v in env.vars.items() if isinstance(v, list)]
    # dict accumulators: empty dicts of the enclosing scope that the body fills with exactly one `d[key] = value` per element
    dict_names = [name for name, v in env.vars.items() if type(v) is dict and not v]
    assigned = {t.id for node in _ast.walk(_ast.Module(body=s.body, type_ignores=[])) for t in
                ([node] if isinstance(node, _ast.Name) and isinstance(node.ctx, _ast.Store) else [])}
    for tnode in _ast.walk(s.target):
        if isinstance(tnode, _ast.Name):
            assigned.add(tnode.id)

    def run_body(i, record):
        env_i = Env(parent=env)
        proxies = {}
        for name in acc_names:
            proxies[name] = AccList(env.vars[name], name)
            env_i.vars[name] = proxies[name]
        for name in dict_names:
            proxies[name] = AccDict(name)
            env_i.vars[name] = proxies[name]
        it.assign(s.target, seq.at(i), env_i)
        it.block(s.body, env_i)
        for name in acc_names + dict_names:
            if name in env_i.vars and env_i.vars[name] is not proxies[name]:
                raise Unsupported(f"accumulator {name} rebound inside a symbolic loop")
        return {name: p.events for name, p in proxies.items() if p.events}

    stateful = StatefulTrial(it)
    iv = trial_var(it)
    with IndexContext(it, iv, 0, n):
        stateful.begin(iv, n)
        try:
            probe = run_body(Sym(iv, int), True)
        except BaseException:
            stateful.end(failed=True)
            raise
        stateful.end()
    body_fn = stateful.wrap(lambda i: run_body(i, False))
    for name in assigned:
        if name not in acc_names and name not in dict_names:
            env.vars[name] = Poison(f"variable {name} assigned inside a loop over a symbolic-length sequence")
    for name, events in probe.items():
        if name in dict_names:
            # {key(i): value(i) for i in range(n)} — same semantics as the dict comprehension (later duplicates win is not
            # needed: the keys are required to be the element index or are treated as pairwise distinct by SymMap)
            if len(events) != 1 or events[0][0] != "setitem":
                raise Unsupported(f"dict accumulator {name}: more than one store per iteration of a symbolic loop")
            kprobe = events[0][1]
            key_is_index = isinstance(kprobe, Sym) and kprobe.pyt is int and \
                it.path.entails(z3.Implies(z3.And(iv >= 0, iv < n), kprobe.term == iv))
            if not (isinstance(kprobe, Sym) and kprobe.pyt is int):
                raise Unsupported(f"dict accumulator {name} with non-integer symbolic keys")
            env.vars[name] = SymMap(seq.length, (lambda i: i) if key_is_index else (lambda i, name=name: body_fn(i)[name][0][1]),
                                    lambda i, name=name: body_fn(i)[name][0][2], key_is_index=key_is_index)
            continue
        base = env.vars[name]
        if not base and len(events) == 1 and events[0][0] == "append":
            # exactly one append per element onto an empty list: the loop is a map — [value(i) for i in range(n)]
            env.vars[name] = SymSeq(seq.length, lambda i, name=name: body_fn(i)[name][0][1], list, note="map-loop")
            continue

        def contrib(i, name=name):
            evs = body_fn(i).get(name, [])
            parts = []
            for kind, v in evs:
                parts.append(SymSeq(1, lambda _j, v=v: v, list) if kind == "append" else to_symseq(it, v))
            if len(parts) == 1:
                return parts[0]
            if not parts:
                return SymSeq(0, lambda _j: None, list)
            out = parts[0]
            for p in parts[1:]:
                out = symseq_binop(it, "add", out, p)
            return out

        env.vars[name] = FlatSeq(it, seq.length, contrib, prefix=list(base), iv_probe=iv)


class AccList:
    """proxy for a list that a symbolic loop may only grow"""

    is_symbolic_value = True

    def __init__(self, base, name):
        self.base = base
        self.name = name
        self.events = []

    def sym_method(self, it, name, a, k):
        if name == "append" and len(a) == 1:
            self.events.append(("append", a[0]))
            return None
        if name == "extend" and len(a) == 1:
            self.events.append(("extend", a[0]))
            return None
        raise Unsupported(f"list.{name} on an accumulator inside a symbolic loop")


class AccDict:
    """proxy for an (initially empty) dict that a symbolic loop fills with one item per element"""

    is_symbolic_value = True

    def __init__(self, name):
        self.name = name
        self.events = []


def _accdict_store(it, obj, key, v):
    obj.events.append(("setitem", key, v))


REGISTRY.item_store[AccDict] = _accdict_store


def _acc_attr(it, obj, name):
    return BoundSymMethod(obj, name)


class BoundSymMethod:
    def __init__(self, obj, name):
        self.obj, self.name = obj, name

    def sym_call(self, it, a, k):
        return self.obj.sym_method(it, self.name, a, k)


REGISTRY.attr_load[AccList] = _acc_attr


class FlatSeq:
    """concatenation of `groups` many sequences: prefix + contrib(0) + contrib(1) + ...

    Position p of the flat sequence lies in group grp(p) at local index p - B(grp(p)), where B is the prefix
    sum of the group lengths (B(0) = len(prefix), B(g+1) = B(g) + len(contrib(g))); B is an uninterpreted
    function constrained by its recurrence. If a closed form X with the same recurrence is already known on the
    path (e.g. the run boundaries of groupby), B is identified with it (induction schema, trusted)."""

    is_symbolic_value = True

    def __init__(self, it, groups, contrib, prefix=(), iv_probe=None):
        self.it = it
        self.groups = groups
        self.contrib = contrib
        self.prefix = list(prefix)
        if self.prefix:
            raise Unsupported("symbolic loop extending a non-empty list")
        G = z3_of(groups)
        self.G = G
        g = fresh_int("g")
        with IndexContext(it, g, 0, G):
            ln = contrib(Sym(g, int)).len_term()
        self.len_at = lambda t: z3.substitute(ln, (g, t))
        closed = None
        for X in getattr(it.path, "prefix_closed_forms", []):
            # closed form supplied by the contract (a Python function of the group index): accepted when it satisfies
            # the recurrence of the prefix sums, X(0) = 0 and X(g+1) - X(g) = len(contrib(g)) — induction schema
            with IndexContext(it, g, 0, G):
                step_ok = it.path.entails_any(ln == X(g + 1) - X(g))
            if step_ok and it.path.entails_any(X(z3.IntVal(0)) == 0):
                closed = X
                it.path.__dict__.setdefault("notes", []).append("prefix sums identified with the contract's closed form")
                break
        for X in ([] if closed is not None else getattr(it.path, "prefix_functions", [])):
            if it.path.entails(z3.Implies(z3.And(g >= 0, g < G), ln == X(g + 1) - X(g))) and it.path.entails(X(0) == 0):
                closed = X
                break
        if closed is None:
            B = z3.Function(fresh_name("B"), z3.IntSort(), z3.IntSort())
            it.path.add_hyp(B(0) == 0)
            it.path.add_hyp(z3.ForAll([g], z3.Implies(z3.And(g >= 0, g < G), B(g + 1) == B(g) + ln), patterns=[B(g + 1)]))
            it.path.add_hyp(z3.ForAll([g], z3.Implies(z3.And(g >= 0, g < G), ln >= 0)))
            closed = B
            it.path.__dict__.setdefault("prefix_functions", []).append(B)
        self.B = closed
        self.total = mk_int(closed(G)) if not is_concrete_int(groups) else mk_int(z3.simplify(closed(G)))

    def as_symseq(self, it):
        def fn(p):
            pt = as_int_term(p)
            gp = fresh_int("grp")
            it.path.assume(z3.And(gp >= 0, gp < self.G, self.B(gp) <= pt, pt < self.B(gp + 1)))
            return self.contrib(Sym(gp, int)).at(mk_int(pt - self.B(gp)))

        return SymSeq(self.total, fn, list, note="flat")


def _flat_truth(it, v):
    return it.truth(mk_bool(as_int_term(v.total) != 0))


REGISTRY.truth[FlatSeq] = _flat_truth


class SymMap:
    """insertion-ordered mapping with a symbolic number of entries and pairwise distinct keys"""

    is_symbolic_value = True

    def __init__(self, n, key_fn, val_fn, key_is_index=False, distinct_from=None):
        self.n = n
        self.key_fn = key_fn
        self.val_fn = val_fn
        self.key_is_index = key_is_index

    def sym_getitem(self, it, key):
        if self.key_is_index:
            k = as_int_term(key)
            in_bounds_or_raise(it, k, z3_of(self.n), KeyError, "key not found")
            return self.val_fn(mk_int(k))
        raise Unsupported("lookup in a symbolic mapping with non-index keys")

    def items(self):
        s = SymSeq(self.n, lambda i: (self.key_fn(i), self.val_fn(i)), list, note="items")
        s.src = self
        return s

    def sym_contains(self, it, item):
        if isinstance(item, str) and item in getattr(self, "absent", ()):
            return False
        raise Unsupported("membership in a symbolic mapping")

    def values(self):
        return SymSeq(self.n, lambda i: self.val_fn(i), list, note="values")

    def keys(self):
        return SymSeq(self.n, lambda i: self.key_fn(i), list, note="keys")


def _symmap_attr(it, obj, name):
    if name in ("items", "values", "keys"):
        return BoundSymMethod(obj, name)
    if name == "get":
        return BoundSymMethod(obj, name)
    return NotImplemented


def _symmap_method(self, it, name, a, k):
    if name == "items":
        return self.items()
    if name == "values":
        return self.values()
    if name == "keys":
        return self.keys()
    if name == "get" and a and isinstance(a[0], str) and a[0] in getattr(self, "absent", ()):
        # a key the mapping is known (precondition) not to hold
        return a[1] if len(a) > 1 else k.get("default")
    raise Unsupported(f"dict.{name} on symbolic mapping")


SymMap.sym_method = _symmap_method
REGISTRY.attr_load[SymMap] = _symmap_attr
REGISTRY.truth[SymMap] = lambda it, v: it.truth(mk_bool(z3_of(v.n) != 0))


# ---------------------------------------------------------------------------------------------------
# builtins
# ---------------------------------------------------------------------------------------------------
@model(len)
def _len(it, a, k):
    (v,) = a
    if isinstance(v, SymSeq):
        return v.length
    if isinstance(v, FlatSeq):
        return v.total
    if isinstance(v, SymMap):
        return v.n
    if hasattr(type(v), "sym_len"):
        return v.sym_len(it)
    if isinstance(v, Sym):
        if v.pyt is str:
            return mk_int(ops.STR_LEN(v.term))
        raise TypeError(f"object of type {v.pyt} has no len()")
    from .interp import _static_lookup, is_repo_func

    ln = _static_lookup(type(v), "__len__")
    if isinstance(ln, types.FunctionType) and is_repo_func(ln):
        return it.call_closure(it.shim(ln), [v], {})
    return NotImplemented


_PYT_CLASSES = {
    "ratio": float,
    "date": object,
    "dt64": object,
    "td64": object,
}


@model(isinstance)
def _isinstance(it, a, k):
    v, t = a
    ts = t if isinstance(t, tuple) else (t,)
    if isinstance(v, Sym):
        if isinstance(v.tag, tuple) and v.tag and v.tag[0] == "enum":
            import construct as _C

            if any(x is _C.EnumIntegerString for x in ts):
                return True
        if isinstance(v.pyt, type) and getattr(v.pyt, "opaque_class", False):
            # a value of unknown class: the answer is an uninterpreted predicate of the value, the caller's branch forks
            names = ",".join(sorted(getattr(x, "__name__", str(x)) for x in ts))
            return Sym(z3.Function(f"isinstance[{names}]", v.term.sort(), z3.BoolSort())(v.term), bool)
        cls = v.pyt if isinstance(v.pyt, type) else _PYT_CLASSES.get(v.pyt, object)
        if cls is object:
            return False
        return any(isinstance(x, type) and issubclass(cls, x) for x in ts)
    if isinstance(v, SymSeq):
        return any(isinstance(x, type) and issubclass(v.pycls, x) for x in ts)
    if isinstance(v, FlatSeq):
        return any(x in (list, object) for x in ts)
    if isinstance(v, SymMap):
        return any(isinstance(x, type) and issubclass(dict, x) for x in ts)
    if isinstance(v, SymComplex):
        return any(x in (complex, object) for x in ts)
    if hasattr(type(v), "sym_isinstance"):
        return v.sym_isinstance(ts)
    return NotImplemented


@model(type)
def _type(it, a, k):
    if len(a) == 1:
        v = a[0]
        if isinstance(v, Sym) and isinstance(v.pyt, type):
            return v.pyt
        if isinstance(v, SymSeq):
            return v.pycls
        if symbolic(v):
            raise Unsupported("type() of symbolic value")
    return NotImplemented


def _seq_ctor(pycls):
    def h(it, a, k):
        if not a:
            return NotImplemented
        v = a[0]
        if isinstance(v, SymSeq):
            return SymSeq(v.length, v.fn, pycls, v.note)
        if isinstance(v, FlatSeq):
            s = v.as_symseq(it)
            return SymSeq(s.length, s.fn, pycls, s.note)
        if isinstance(v, SymMap):
            ks = v.keys()
            return SymSeq(ks.length, ks.fn, pycls)
        if isinstance(v, ops.SymSplit):
            raise Unsupported("list of symbolic split")
        return NotImplemented

    return h


REGISTRY.calls[list] = _seq_ctor(list)
REGISTRY.calls[tuple] = _seq_ctor(tuple)


@model(iter)
def _iter(it, a, k):
    if a and isinstance(a[0], SymSeq):
        return a[0]
    return NotImplemented


@model(enumerate)
def _enumerate(it, a, k):
    v = a[0]
    start = a[1] if len(a) > 1 else k.get("start", 0)
    if isinstance(v, (SymSeq, FlatSeq)):
        s = to_symseq(it, v)
        return SymSeq(s.length, lambda i: (mk_int(as_int_term(i) + as_int_term(start)), s.at(i)), list, "enumerate")
    return iter([(i, x) for i, x in enumerate(it.iterate(v), start)]) if not isinstance(start, Sym) else NotImplemented


@model(zip)
def _zip(it, a, k):
    from .interp import StarSym

    if len(a) == 1 and isinstance(a[0], StarSym):
        seq = a[0].seq
        # transpose: every element must be a tuple/list of the same (concrete) arity
        iv = trial_var(it)
        with IndexContext(it, iv, 0, seq.len_term()):
            probe = seq.at(Sym(iv, int))
        if not isinstance(probe, (tuple, list)):
            raise Unsupported("zip(*seq) with non-tuple elements")
        arity = len(probe)
        return iter([SymSeq(seq.length, (lambda i, j=j: seq.at(i)[j]), tuple, "transposed") for j in range(arity)])
    if any(isinstance(x, (SymSeq, FlatSeq)) for x in a):
        seqs = [to_symseq(it, x) for x in a]
        ln = seqs[0].len_term()
        for s in seqs[1:]:
            ln = z3.If(s.len_term() < ln, s.len_term(), ln)
        return SymSeq(mk_int(ln), lambda i: tuple(s.at(i) for s in seqs), list, "zip")
    return iter([tuple(xs) for xs in zip(*[it.iterate(x) for x in a])])


@model(map)
def _map(it, a, k):
    f, *seqs = a
    if len(seqs) == 1 and isinstance(seqs[0], (SymSeq, FlatSeq)):
        s = to_symseq(it, seqs[0])
        iv = trial_var(it)
        stateful = StatefulTrial(it)
        with IndexContext(it, iv, 0, s.len_term()):
            stateful.begin(iv, s.len_term())
            try:
                dispatch_call(it, f, [s.at(Sym(iv, int))], {})
            except BaseException:
                stateful.end(failed=True)
                raise
            stateful.end()
        fn = stateful.wrap(lambda i: dispatch_call(it, f, [s.at(i)], {}))
        return SymSeq(s.length, fn, list, "map")
    if any(isinstance(x, (SymSeq, FlatSeq)) for x in seqs):
        raise Unsupported("map over several symbolic sequences")
    lists = [it.iterate(x) for x in seqs]
    return iter([dispatch_call(it, f, list(xs), {}) for xs in zip(*lists)])


@model(filter)
def _filter(it, a, k):
    f, seq = a
    if isinstance(seq, (SymSeq, FlatSeq)):
        raise Unsupported("filter over symbolic sequence")
    out = []
    for x in it.iterate(seq):
        r = dispatch_call(it, f, [x], {}) if f is not None else x
        if it.truth(r):
            out.append(x)
    return iter(out)


@model(range)
def _range(it, a, k):
    if any(isinstance(x, Sym) for x in a):
        if len(a) == 1:
            n = as_int_term(a[0])
            ln = mk_int(it.path.pick(n > 0, n, z3.IntVal(0)))
            return SymSeq(ln, lambda i: i if is_concrete_int(i) else mk_int(as_int_term(i)), range, "range")
        start, stop = as_int_term(a[0]), as_int_term(a[1])
        step = as_int_term(a[2]) if len(a) == 3 else z3.IntVal(1)
        if not it.path.entails(step > 0):
            raise Unsupported("range with a symbolic step that is not known to be positive")
        span = z3.simplify(stop - start)
        if not it.truth(mk_bool(span > 0)):
            return SymSeq(0, lambda i: i, range, "range")
        if z3.is_int_value(z3.simplify(step)) and z3.simplify(step).as_long() == 1:
            ln = mk_int(span)
        else:
            # number of elements = ceil(span / step), named by the integer-ceiling constant of math.ceil's model
            ln = _ceil(it, [Sym(z3.ToReal(span) / z3.ToReal(step), "ratio", tag=(span, step))], {})
        return SymSeq(ln, lambda i: mk_int(z3.simplify(start + as_int_term(i) * step)), range, "range")
    return NotImplemented


@model(bool)
def _bool(it, a, k):
    if a and isinstance(a[0], Sym):
        return mk_bool(ops.truth_term_req(it, a[0]))
    if a and isinstance(a[0], (SymSeq,)):
        return mk_bool(a[0].len_term() != 0)
    return NotImplemented


IS_INT_TEXT = z3.Function("is_int_text", ops.StrSort, z3.BoolSort())
IS_FLOAT_TEXT = z3.Function("is_float_text", ops.StrSort, z3.BoolSort())


@model(int)
def _int(it, a, k):
    if a and isinstance(a[0], Sym):
        v = a[0]
        if v.pyt is int:
            return v
        if v.pyt is bool:
            return mk_int(as_int_term(v))
        if v.pyt is str:
            if not it.truth(mk_bool(IS_INT_TEXT(v.term))):
                raise ValueError("invalid literal for int()")
            return Sym(ops.PY_INT(v.term), int)
        if v.pyt is float:
            # truncation of a binary64: an uninterpreted function of the float (no claim that it inverts a text conversion:
            # int(float(text)) is NOT int(text) beyond 2**53). NaN / infinities raise in Python; finite values assumed here.
            return Sym(z3.Function("py_int_of_float", ops.F64, z3.IntSort())(v.term), int)
        raise Unsupported(f"int() of {v!r}")
    return NotImplemented


@model(float)
def _float(it, a, k):
    if a and isinstance(a[0], Sym):
        v = a[0]
        if v.pyt is float:
            return v
        if v.pyt in (int, bool):
            return Sym(ops.I2F(as_int_term(v)), float)
        if v.pyt is str:
            if not it.truth(mk_bool(IS_FLOAT_TEXT(v.term))):
                raise ValueError("could not convert string to float")
            return Sym(ops.PY_FLOAT(v.term), float)
        raise Unsupported(f"float() of {v!r}")
    return NotImplemented


@model(str)
def _str(it, a, k):
    if a and isinstance(a[0], Sym):
        v = a[0]
        if v.pyt is str:
            return v
        if v.pyt is int:
            return Sym(ops.STR_OF_INT(v.term), str)
        raise Unsupported(f"str() of {v!r}")
    return NotImplemented


@model(complex)
def _complex(it, a, k):
    if any(isinstance(x, Sym) for x in a):
        re = ops.as_f64_term(a[0])
        im = ops.as_f64_term(a[1]) if len(a) > 1 else z3.FPVal(0.0, ops.F64)
        return SymComplex(re, im)
    return NotImplemented


def _minmax(is_min):
    def h(it, a, k):
        key = k.get("key")
        if len(a) == 1 and isinstance(a[0], (SymSeq, FlatSeq)):
            s = to_symseq(it, a[0])
            n = s.len_term()
            if not it.truth(mk_bool(n > 0)):
                raise ValueError(("min" if is_min else "max") + "() arg is an empty sequence")
            keyf = (lambda x: x) if key is None else (lambda x: dispatch_call(it, key, [x], {}))
            j = fresh_int("j")
            with IndexContext(it, j, 0, n):
                vj = keyf(s.at(Sym(j, int)))
            if not (isinstance(vj, Sym) and vj.pyt is int or is_concrete_int(vj)):
                raise Unsupported("min/max over non-integer symbolic elements")
            tj = as_int_term(vj)
            m = fresh_int("min" if is_min else "max")
            w = fresh_int("w")
            # library contract of min/max: bound for every element + attained by some element (witness w)
            it.path.add_hyp(z3.ForAll([j], z3.Implies(z3.And(j >= 0, j < n), (m <= tj) if is_min else (m >= tj))))
            with IndexContext(it, w, 0, n):
                vw = keyf(s.at(Sym(w, int)))
            it.path.assume(z3.And(w >= 0, w < n, as_int_term(vw) == m))
            if key is not None:
                raise Unsupported("min/max with key over symbolic sequence")
            # instantiate-on-demand: the bound fact for a chosen element index
            def instance(jt, s=s, keyf=keyf, m=m, n=n):
                v = keyf(s.at(mk_int(jt)))
                return z3.Implies(z3.And(jt >= 0, jt < n), (m <= as_int_term(v)) if is_min else (m >= as_int_term(v)))

            it.path.__dict__.setdefault("minmax", {})[m.get_id()] = {"instance": instance, "witness": w, "n": n, "is_min": is_min}
            return Sym(m, int, tag=("minmax", m.get_id()))
        vals = list(a) if len(a) > 1 else None
        if vals is None:
            try:
                vals = list(it.iterate(a[0]))
            except Undecided:
                raise
        if any(isinstance(x, Sym) for x in vals):
            if key is not None:
                raise Unsupported("min/max with key on symbols")
            if not vals:
                raise ValueError("empty")
            cur = vals[0]
            for x in vals[1:]:
                c, xx = as_int_term(cur), as_int_term(x)
                cur = mk_int(z3.If((xx < c) if is_min else (xx > c), xx, c))
            return cur
        if len(a) > 1:
            return (min if is_min else max)(*vals, **({"key": key} if key else {}))
        return (min if is_min else max)(vals, **({"key": key} if key else {}))

    return h


REGISTRY.calls[min] = _minmax(True)
REGISTRY.calls[max] = _minmax(False)


@model(all, any)
def _allany(it, a, k):
    return NotImplemented


@model(sum)
def _sum(it, a, k):
    if a and isinstance(a[0], (SymSeq, FlatSeq)):
        raise Unsupported("sum over symbolic sequence")
    return NotImplemented


@model(abs)
def _abs(it, a, k):
    if a and isinstance(a[0], Sym):
        v = a[0]
        if v.pyt is int:
            return mk_int(z3.If(v.term >= 0, v.term, -v.term))
        if v.pyt is float:
            return Sym(z3.fpAbs(v.term), float)
    return NotImplemented


@model(builtins.super)
def _super(it, a, k):
    if a:
        return NotImplemented
    raise Unsupported("zero-argument super() outside a method")


@model(print)
def _print(it, a, k):
    return None


@model(math.ceil)
def _ceil(it, a, k):
    v = a[0]
    if isinstance(v, Sym):
        if v.pyt == "ratio":
            if isinstance(v.tag, tuple) and len(v.tag) == 2 and it.path.entails(v.tag[1] > 0):
                # ceil(a / b), b > 0, as an integer K with b*(K-1) < a <= b*K  (exact for |a|, |b| < 2**53: A-ceil)
                num, den = v.tag
                if it.path.entails(z3.And(num >= 1, num <= den)):
                    return 1
                memo = it.path.__dict__.setdefault("_ceil_memo", {})
                key = (z3.simplify(num).get_id(), z3.simplify(den).get_id())
                if key not in memo:
                    K = z3.Int(f"ceil!{len(memo)}")
                    memo[key] = (K, num, den)
                    it.path.assume(z3.And(den * (K - 1) < num, num <= den * K))
                return mk_int(memo[key][0])
            return mk_int(-z3.ToInt(-v.term))
        if v.pyt is int:
            return v
        raise Unsupported("ceil of symbolic float")
    return NotImplemented


@model(math.floor)
def _floor(it, a, k):
    v = a[0]
    if isinstance(v, Sym):
        if v.pyt == "ratio":
            return mk_int(z3.ToInt(v.term))
        if v.pyt is int:
            return v
        raise Unsupported("floor of symbolic float")
    return NotImplemented


@model(math.isnan)
def _isnan(it, a, k):
    v = a[0]
    if isinstance(v, Sym):
        if v.pyt in (int, bool):
            return False
        if v.pyt is float:
            return mk_bool(z3.fpIsNaN(v.term))
        raise TypeError("must be real number")
    return NotImplemented


# ---------------------------------------------------------------------------------------------------
# toolz
# ---------------------------------------------------------------------------------------------------
@model(toolz.pipe)
def _pipe(it, a, k):
    data, *funcs = a
    for f in funcs:
        data = dispatch_call(it, f, [data], {})
    return data


@model(toolz.curry, _ft.curry)
def _curry(it, a, k):
    f, *rest = a
    return Curried(it, f, rest, k)


@model(toolz.compose_left)
def _compose_left(it, a, k):
    return Composed(it, a)


@model(toolz.compose)
def _compose(it, a, k):
    return Composed(it, list(reversed(a)))


@model(toolz.identity)
def _identity(it, a, k):
    return a[0]


def _dict_items(it, d):
    if isinstance(d, SymMap):
        raise Unsupported("toolz dict function on symbolic mapping")
    from .interp import _static_lookup, is_repo_func

    return list(d.items())


@model(toolz.valmap)
def _valmap(it, a, k):
    f, d = a[0], a[1]
    factory = a[2] if len(a) > 2 else k.get("factory", dict)
    if isinstance(d, SymMap) and factory is dict:
        # pointwise on a mapping with a symbolic number of entries: the body is evaluated once on the generic entry (so that
        # its exceptions and effects surface), the result maps key i to f(value i)
        iv = trial_var(it)
        with IndexContext(it, iv, 0, z3_of(d.n)):
            dispatch_call(it, f, [d.val_fn(Sym(iv, int))], {})
        out = SymMap(d.n, d.key_fn, lambda i: dispatch_call(it, f, [d.val_fn(i)], {}), key_is_index=d.key_is_index)
        out.absent = getattr(d, "absent", frozenset())
        return out
    out = factory()
    for kk, v in _dict_items(it, d):
        out[kk] = dispatch_call(it, f, [v], {})
    return out


@model(toolz.keymap)
def _keymap(it, a, k):
    f, d = a[0], a[1]
    out = {}
    for kk, v in _dict_items(it, d):
        nk = dispatch_call(it, f, [kk], {})
        if isinstance(nk, Sym):
            raise Unsupported("keymap producing symbolic key")
        out[nk] = v
    return out


@model(toolz.keyfilter)
def _keyfilter(it, a, k):
    f, d = a[0], a[1]
    return {kk: v for kk, v in _dict_items(it, d) if it.truth(dispatch_call(it, f, [kk], {}))}


@model(toolz.valfilter)
def _valfilter(it, a, k):
    f, d = a[0], a[1]
    return {kk: v for kk, v in _dict_items(it, d) if it.truth(dispatch_call(it, f, [v], {}))}


@model(toolz.itemfilter)
def _itemfilter(it, a, k):
    f, d = a[0], a[1]
    return {kk: v for kk, v in _dict_items(it, d) if it.truth(dispatch_call(it, f, [(kk, v)], {}))}


@model(toolz.merge_with)
def _merge_with(it, a, k):
    from .interp import StarSym

    f, *dicts = a
    if len(dicts) == 1 and isinstance(dicts[0], StarSym):
        seq = dicts[0].seq
        n = seq.len_term()
        iv = trial_var(it)
        with IndexContext(it, iv, 0, n):
            probe = seq.at(Sym(iv, int))
        if not isinstance(probe, dict):
            raise Unsupported("merge_with(*seq): elements are not dicts")
        # merge_with over zero dicts yields {} — the key set below is the one of a non-empty sequence
        if not it.path.entails(n >= 1):
            if not it.truth(mk_bool(n >= 1)):
                return {}
        keys = list(probe.keys())
        out = {}
        for key in keys:
            col = SymSeq(seq.length, (lambda i, key=key: seq.at(i)[key]), list, f"column:{key}")
            out[key] = dispatch_call(it, f, [col], {})
        return out
    if len(dicts) == 1 and not isinstance(dicts[0], dict):
        dicts = list(it.iterate(dicts[0]))
    result = {}
    for d in dicts:
        for kk, v in d.items():
            result.setdefault(kk, []).append(v)
    return {kk: dispatch_call(it, f, [vs], {}) for kk, vs in result.items()}


@model(toolz.first)
def _first(it, a, k):
    v = a[0]
    if isinstance(v, (SymSeq, FlatSeq)):
        s = to_symseq(it, v)
        if not it.truth(mk_bool(s.len_term() > 0)):
            raise StopIteration()
        return s.at(0)
    return NotImplemented


@model(toolz.second)
def _second(it, a, k):
    v = a[0]
    if isinstance(v, (SymSeq, FlatSeq)):
        s = to_symseq(it, v)
        if not it.truth(mk_bool(s.len_term() > 1)):
            raise StopIteration()
        return s.at(1)
    return NotImplemented


@model(toolz.cons)
def _cons(it, a, k):
    x, seq = a
    if isinstance(seq, (SymSeq, FlatSeq)):
        s = to_symseq(it, seq)
        return symseq_binop(it, "add", SymSeq(1, lambda _i: x, list), s)
    return NotImplemented


@model(toolz.get)
def _get(it, a, k):
    ind, seq = a[0], a[1]
    has_default = len(a) > 2 or "default" in k
    if isinstance(seq, (SymSeq, FlatSeq)) or isinstance(ind, (SymSeq, FlatSeq)) or (
        isinstance(ind, list) and any(isinstance(x, Sym) for x in ind)
    ) or isinstance(ind, Sym):
        if has_default:
            raise Unsupported("get with default on symbolic")
        s = to_symseq(it, seq) if not isinstance(seq, dict) else None
        if s is None:
            raise Unsupported("get on dict with symbolic key")
        if isinstance(ind, (list, SymSeq, FlatSeq)):
            idx = to_symseq(it, ind)
            # operator.itemgetter(*ind)(seq): plain subscripting, negative indices wrap, IndexError outside
            return SymSeq(idx.length, lambda p: symseq_getitem(it, s, idx.at(p)), tuple, "get")
        return symseq_getitem(it, s, ind)
    return NotImplemented


@model(toolz.concat)
def _concat(it, a, k):
    seqs = a[0]
    if isinstance(seqs, (SymSeq,)):
        if seqs.concrete_len() is not None:
            parts = [to_symseq(it, x) for x in it.iterate(seqs)]
            if not parts:
                return iter([])
            out = parts[0]
            for p in parts[1:]:
                out = symseq_binop(it, "add", out, p)
            return out
        return FlatSeq(it, seqs.length, lambda i: to_symseq(it, seqs.at(i)))
    items = list(it.iterate(seqs))
    if any(isinstance(x, (SymSeq, FlatSeq)) for x in items):
        parts = [to_symseq(it, x) for x in items]
        out = parts[0]
        for p in parts[1:]:
            out = symseq_binop(it, "add", out, p)
        return out
    return iter([y for x in items for y in it.iterate(x)])


@model(toolz.partition_all)
def _partition_all(it, a, k):
    n, seq = a
    if isinstance(seq, (SymSeq, FlatSeq)) or isinstance(n, Sym):
        s = to_symseq(it, seq)
        c = as_int_term(n)
        L = s.len_term()
        if not it.path.entails(c >= 1):
            if not it.truth(mk_bool(c >= 1)):
                raise Unsupported("partition_all with non-positive size")
        count = mk_int(ops.floordiv_term(L + c - 1, c, it))

        def part(kk):
            kt = as_int_term(kk)
            lo = kt * c
            ln = mk_int(it.path.pick(lo + c <= L, c, L - lo))
            return SymSeq(ln, lambda j: s.at(mk_int(lo + as_int_term(j))), tuple, "part")

        return SymSeq(count, part, list, "partition_all")
    return NotImplemented


@model(toolz.groupby)
def _groupby(it, a, k):
    key, seq = a
    if not isinstance(seq, (SymSeq, FlatSeq)):
        items = list(it.iterate(seq))
        keys = [dispatch_call(it, key, [x], {}) if callable(key) or hasattr(type(key), "sym_call") else x[key] for x in items]
        if not any(isinstance(kk, Sym) for kk in keys):
            out = {}
            for kk, x in zip(keys, items):
                out.setdefault(kk, []).append(x)
            return out
        seq = SymSeq(len(items), lambda i, o=items: concrete_at(it, o, i), list)
    s = to_symseq(it, seq)
    L = s.len_term()
    p = fresh_int("p")

    def key_at(i):
        v = dispatch_call(it, key, [s.at(i)], {})
        if not (isinstance(v, Sym) and v.pyt is int or is_concrete_int(v)):
            raise Unsupported("groupby with non-integer symbolic key")
        return as_int_term(v)

    with IndexContext(it, p, 0, L):
        kp = key_at(Sym(p, int))
    K = z3.Function(fresh_name("K"), z3.IntSort(), z3.IntSort())
    it.path.add_hyp(z3.ForAll([p], z3.Implies(z3.And(p >= 0, p < L), K(p) == kp), patterns=[K(p)]))
    # precondition of this model: the key sequence is monotone (non-decreasing), so groups are contiguous runs
    mono = z3.Implies(z3.And(p >= 0, p + 1 < L), K(p) <= K(p + 1))
    if not it.path.entails(mono):
        raise Unsupported("groupby model needs a non-decreasing key sequence (could not prove it)")
    it.path.add_hyp(z3.ForAll([p], mono, patterns=[K(p + 1)]))
    G = fresh_int("G")
    bnd = z3.Function(fresh_name("bnd"), z3.IntSort(), z3.IntSort())
    g = fresh_int("g")
    H = it.path.add_hyp
    h = fresh_int("h")
    H(G >= 0)
    H((L == 0) == (G == 0))
    H(G <= L)
    H(bnd(0) == 0)
    H(bnd(G) == L)
    # run boundaries: strictly increasing positions in [0, L]  (loop-free triggers)
    H(z3.ForAll([g], z3.Implies(z3.And(g >= 0, g <= G), z3.And(bnd(g) >= 0, bnd(g) <= L)), patterns=[bnd(g)]))
    H(z3.ForAll([g], z3.Implies(z3.And(g >= 0, g < G), bnd(g) < L), patterns=[bnd(g)]))
    H(z3.ForAll([g, h], z3.Implies(z3.And(g >= 0, g < h, h <= G), bnd(g) < bnd(h)),
                patterns=[z3.MultiPattern(bnd(g), bnd(h))]))
    # all members of a run share the key of its first element; keys of successive runs strictly increase
    H(z3.ForAll([g, p], z3.Implies(z3.And(g >= 0, g < G, bnd(g) <= p, p < bnd(g + 1)), K(p) == K(bnd(g))),
                patterns=[z3.MultiPattern(bnd(g), K(p))]))
    H(z3.ForAll([g, h], z3.Implies(z3.And(g >= 0, g < h, h < G), K(bnd(g)) < K(bnd(h))),
                patterns=[z3.MultiPattern(K(bnd(g)), K(bnd(h)))]))
    it.path.__dict__.setdefault("prefix_functions", []).append(bnd)
    it.path.__dict__.setdefault("groupby_models", []).append({"G": G, "bnd": bnd, "K": K, "L": L, "key_at": key_at})

    def key_of_run(gi):
        gt = as_int_term(gi)
        # instance of the definition of K at the first position of run g
        it.path.assume(z3.Implies(z3.And(gt >= 0, gt < G), z3.And(K(bnd(gt)) == key_at(mk_int(bnd(gt))), bnd(gt) >= 0, bnd(gt) < L)))
        return Sym(K(bnd(gt)), int)

    def val(gi):
        gt = as_int_term(gi)
        lo = bnd(gt)
        ln = bnd(gt + 1) - lo
        it.path.assume(z3.Implies(z3.And(gt >= 0, gt < G), z3.And(lo >= 0, ln >= 1, bnd(gt + 1) <= L)))

        def member(q):
            qt = as_int_term(q)
            pos = lo + qt
            # ground instances of the run axioms for this member (instantiate-on-access)
            it.path.assume(z3.Implies(z3.And(gt >= 0, gt < G, qt >= 0, qt < ln),
                                      z3.And(pos >= 0, pos < L, K(pos) == K(lo), K(pos) == key_at(mk_int(pos)))))
            return s.at(mk_int(pos))

        return SymSeq(mk_int(ln), member, list, "run")

    return SymMap(mk_int(G), key_of_run, val, key_is_index=False)


@model(itertools.accumulate)
def _accumulate(it, a, k):
    seq = a[0]
    func = a[1] if len(a) > 1 else k.get("func")
    initial = k.get("initial")
    if isinstance(seq, (SymSeq, FlatSeq)):
        if func is not None:
            raise Unsupported("accumulate with a function over symbolic sequence")
        s = to_symseq(it, seq)
        n = s.len_term()
        j = fresh_int("j")
        with IndexContext(it, j, 0, n):
            xj = as_int_term(s.at(Sym(j, int)))
        if initial is not None:
            for X in getattr(it.path, "prefix_closed_forms", []):
                # the contract's closed form of the running sums: accepted when it satisfies the recurrence
                with IndexContext(it, j, 0, n):
                    ok = it.path.entails_any(xj == X(j + 1) - X(j))
                if ok and it.path.entails_any(X(z3.IntVal(0)) == as_int_term(initial)):
                    it.path.__dict__.setdefault("notes", []).append("running sums identified with the contract's closed form")
                    return SymSeq(mk_int(n + 1), lambda i, X=X: mk_int(X(as_int_term(i))), list, "accumulate")
        S = z3.Function(fresh_name("acc"), z3.IntSort(), z3.IntSort())
        if initial is not None:
            it.path.add_hyp(S(0) == as_int_term(initial))
            it.path.add_hyp(z3.ForAll([j], z3.Implies(z3.And(j >= 0, j < n), S(j + 1) == S(j) + xj), patterns=[S(j + 1)]))
            it.path.__dict__.setdefault("accumulate_models", []).append({"S": S, "n": n, "x": xj, "j": j, "initial": initial})
            return SymSeq(mk_int(n + 1), lambda i: Sym(S(as_int_term(i)), int), list, "accumulate")
        raise Unsupported("accumulate without initial over symbolic sequence")
    if isinstance(seq, (list, tuple)) and (any(isinstance(x, Sym) for x in seq) or isinstance(initial, Sym)) and func is None:
        out = []
        acc = initial
        for x in seq:
            if acc is None:
                acc = x
            else:
                out.append(acc) if not out and initial is not None else None
                acc = it.binop("add", acc, x)
            out.append(acc)
        if not seq and initial is not None:
            out.append(initial)
        return out
    return NotImplemented


# dict / list methods with symbolic arguments -----------------------------------------------------------
def _dict_get(it, d, a, k):
    key = a[0]
    default = a[1] if len(a) > 1 else None
    if isinstance(key, Sym):
        import ast as _ast

        for kk in d:
            c = ops.compare(it, _ast.Eq(), key, kk)
            if c is False:
                continue
            if it.truth(c):
                return it.wrap(d[kk])
        return default
    return NotImplemented


REGISTRY.methods[(dict, "get")] = _dict_get


def _str_join(it, sep, a, k):
    (parts,) = a
    if isinstance(parts, ops.SymSplit):
        return Sym(ops.SPLIT_JOIN(ops.str_const(sep), parts.s.term), str)
    items = list(it.iterate(parts)) if not isinstance(parts, (list, tuple)) else list(parts)
    if any(isinstance(x, Sym) for x in items):
        terms = []
        for i, x in enumerate(items):
            if i and sep:
                terms.append(ops.str_const(sep))
            terms.append(ops.as_str_term(x))
        return Sym(ops.concat_terms(terms), str)
    return sep.join(items)


REGISTRY.methods[(str, "join")] = _str_join


def _list_extend(it, lst, a, k):
    (other,) = a
    if isinstance(other, (SymSeq, FlatSeq)):
        s = to_symseq(it, other)
        n = s.concrete_len()
        if n is None:
            raise Unsupported("extending a concrete list with a symbolic-length sequence")
        it.note_effect("call:extend", lst)
        lst.extend(s.at(i) for i in range(n))
        return None
    return NotImplemented


REGISTRY.methods[(list, "extend")] = _list_extend


class SymMapFn:
    """mapping given by a domain predicate and a value function (keys are integers)"""

    is_symbolic_value = True

    def __init__(self, dom, val):
        self.dom = dom
        self.val = val

    def sym_getitem(self, it, key):
        k = as_int_term(key)
        d = self.dom(k)
        if not it.path.entails(d):
            if not it.truth(mk_bool(d)):
                raise KeyError(key)
        return self.val(k)


# ---------------------------------------------------------------------------------------------------
# datetime (integer microsecond model, see ops.py)
# ---------------------------------------------------------------------------------------------------
import datetime as _dt  # noqa: E402

SEC2US = z3.Function("seconds_to_us", ops.F64, z3.IntSort())  # timedelta(seconds=float): rounding to µs (uninterpreted)


def _datetime_ctor(it, cls, a, k):
    if not any(isinstance(x, Sym) for x in list(a) + list(k.values())):
        return NotImplemented
    names = ["year", "month", "day", "hour", "minute", "second", "microsecond"]
    vals = dict(zip(names, a))
    vals.update(k)
    y = vals.get("year")
    m, d = vals.get("month"), vals.get("day")
    if isinstance(m, Sym) or isinstance(d, Sym) or any(isinstance(vals.get(n), Sym) for n in names[3:]):
        raise Unsupported("datetime() with symbolic month/day/time")
    if (m, d) != (1, 1) or any(vals.get(n, 0) for n in names[3:]):
        raise Unsupported("datetime() with symbolic year and a date other than 1 January 00:00")
    return Sym(ops.JAN1(as_int_term(y)) * ops.US_PER_DAY, _dt.datetime)


REGISTRY.constructors[_dt.datetime] = _datetime_ctor


def _timedelta_ctor(it, cls, a, k):
    if not any(isinstance(x, Sym) for x in list(a) + list(k.values())):
        return NotImplemented
    names = ["days", "seconds", "microseconds", "milliseconds", "minutes", "hours", "weeks"]
    vals = dict(zip(names, a))
    vals.update(k)
    scale = {"days": ops.US_PER_DAY, "seconds": 10**6, "microseconds": 1, "milliseconds": 1000,
             "minutes": 60 * 10**6, "hours": 3600 * 10**6, "weeks": 7 * ops.US_PER_DAY}
    total = z3.IntVal(0)
    for n, v in vals.items():
        if isinstance(v, Sym) and v.pyt is float or isinstance(v, float):
            if n != "seconds":
                raise Unsupported("timedelta with float " + n)
            total = total + SEC2US(ops.as_f64_term(v))
        else:
            total = total + as_int_term(v) * scale[n]
    return Sym(z3.simplify(total), _dt.timedelta)


REGISTRY.constructors[_dt.timedelta] = _timedelta_ctor


@model(_dt.datetime.combine)
def _combine(it, a, k):
    d, t = a[0], a[1]
    if isinstance(d, Sym) and d.pyt == "date":
        if t != _dt.time.min:
            raise Unsupported("datetime.combine with a time other than midnight")
        return Sym(d.term, _dt.datetime)
    return NotImplemented


@model(_dt.datetime.strptime)
def _strptime(it, a, k):
    s, fmt = a
    if isinstance(s, Sym):
        return Sym(ops.STRPTIME(s.term, ops.str_const(fmt)), _dt.datetime)
    return NotImplemented
