"""pyvc.dump — canonical, JSON-able form of a symbolic result (Group / Variable / attrs / sequences / terms).

The dump is what record contracts (spec tables) are stated over: a flat mapping  location -> entry  where an entry is
  {"py": repr}                       concrete Python scalar
  {"sym": <sort tag>, "t": <s-expr>} term over the file bytes (ascii_text / be_uint / ... applications)
  {"list"|"tuple": [entry...]}       concrete-length sequence
  {"seq": cls, "len": s-expr, "elem": entry}   symbolic-length sequence, element given at the canonical index K<d>
  {"nd": dtype, "len": ..., "elem": entry}     numpy array given elementwise
  {"dict": {key: entry}}
Locations: "<group path>/@attr", "<group path>/<var>#dims|#data|#dtype", "<group path>/<var>@attr",
"<group path>#children" (ordered names).
"""
from __future__ import annotations

import datetime as _dt

import numpy as np
import z3

from .core import Sym, SymSeq, Unsupported, canon, canon_sexpr, is_concrete_int
from .models import FlatSeq, IndexContext, SymMap
from .ops import SymComplex, as_int_term


def sort_tag(v):
    p = v.pyt
    return p if isinstance(p, str) else getattr(p, "__name__", str(p))


def sx(t):
    return canon_sexpr(t) if z3.is_expr(t) else repr(t)


def canon_index(depth):
    return z3.Int(f"K{depth}")


class Dumper:
    def __init__(self, it):
        self.it = it
        self.terms = []  # every z3 term that occurs in the dump (for dependency sets)
        self.term_ctx = []  # (term, ((index var, length term), ...)) — the element-index ranges the term is stated under
        self.ctx = []

    def defs(self):
        """named constants introduced by the engine (quotients, ceilings) -> their defining applications"""
        if getattr(self, "_defs", None) is None:
            from .ops import FDIV

            pairs = []
            for F, a, b in getattr(self.it.path, "_fdiv_memo", {}).values():
                pairs.append((F, FDIV(a, b)))
            CEIL = z3.Function("ceil_div", z3.IntSort(), z3.IntSort(), z3.IntSort())
            for K, a, b in getattr(self.it.path, "_ceil_memo", {}).values():
                pairs.append((K, CEIL(a, b)))
            self._defs = pairs
        return self._defs

    def term(self, t):
        d = self.defs()
        if d:
            for _ in range(3):  # definitions may mention earlier constants
                t2 = z3.substitute(t, *d)
                if z3.eq(t2, t):
                    break
                t = t2
        t = canon(t)
        self.terms.append(t)
        self.term_ctx.append((t, tuple(self.ctx)))
        return t.sexpr()

    def value(self, v, depth=0):
        from .absobj import SymBytes, SymBytesOpaque, SymNd, SymNdOpaque

        it = self.it
        if isinstance(v, Sym):
            return {"sym": sort_tag(v), "t": self.term(v.term)}
        if isinstance(v, SymComplex):
            return {"complex": [self.term(v.re), self.term(v.im)]}
        if v is None or isinstance(v, (bool, int, str, bytes)):
            return {"py": repr(v)}
        if isinstance(v, float):
            return {"py": repr(v)}
        if isinstance(v, complex):
            return {"py": repr(v)}
        if isinstance(v, (_dt.datetime, _dt.date, _dt.timedelta)):
            return {"py": repr(v)}
        if isinstance(v, np.dtype):
            return {"py": f"dtype({v.str})"}
        if isinstance(v, np.generic):
            return {"np": str(v.dtype), "data": repr(v.tolist())}
        if isinstance(v, np.ndarray):
            return {"np": str(v.dtype), "shape": list(v.shape), "data": repr(v.tolist())}
        if isinstance(v, (list, tuple)):
            kind = "tuple" if isinstance(v, tuple) else "list"
            return {kind: [self.value(x, depth) for x in v]}
        if isinstance(v, dict):
            return {"dict": {str(k): self.value(x, depth) for k, x in v.items()}}
        if isinstance(v, FlatSeq):
            v = v.as_symseq(it)
        if isinstance(v, SymSeq):
            if is_concrete_int(v.length):
                return {"list" if v.pycls is not tuple else "tuple": [self.value(v.at(i), depth) for i in range(v.length)]}
            K = canon_index(depth)
            n = v.len_term()
            self.ctx.append((K, n))
            try:
                with IndexContext(it, K, 0, n):
                    e = self.value(v.at(Sym(K, int)), depth + 1)
            finally:
                self.ctx.pop()
            return {"seq": getattr(v.pycls, "__name__", str(v.pycls)), "len": self.term(n), "elem": e}
        if isinstance(v, SymNdOpaque):
            if v.scalar:
                return {"nd0": str(v.dtype_req), "elem": self.value(v.elem(it, 0), depth)}
            ln = v.length()
            if is_concrete_int(ln):
                return {"nd": str(v.dtype_req), "list": [self.value(v.elem(it, i), depth) for i in range(ln)]}
            K = canon_index(depth)
            n = as_int_term(ln)
            self.ctx.append((K, n))
            try:
                with IndexContext(it, K, 0, n):
                    e = self.value(v.elem(it, Sym(K, int)), depth + 1)
            finally:
                self.ctx.pop()
            return {"nd": str(v.dtype_req), "len": self.term(n), "elem": e}
        if isinstance(v, SymBytes):
            return {"bytes": [self.term(z3.IntVal(v.fid) if isinstance(v.fid, int) else v.fid),
                              self.term(as_int_term(v.off)), self.term(as_int_term(v.length))]}
        if isinstance(v, SymBytesOpaque):
            return {"bytes_term": self.term(v.term)}
        if isinstance(v, SymNd):
            return {"ndarray": str(v.dtype), "shape": [self.value(s, depth) for s in v.shape], "note": v.note}
        tname = type(v).__name__
        if tname == "Array" and type(v).__module__ == "ceos_alos2.array":
            out = {}
            for f in ("url", "shape", "dtype", "type_code", "records_per_chunk", "byte_ranges"):
                out[f] = self.value(getattr(v, f), depth)
            fs = getattr(v, "fs", None)
            out["fs"] = {"py": repr(getattr(fs, "describe", lambda: type(fs).__name__)())}
            return {"Array": out}
        raise Unsupported(f"dump of {type(v).__name__}")

    def group(self, g, out=None, prefix=""):
        """flatten a ceos_alos2.hierarchy.Group (children are Groups or Variables)"""
        out = {} if out is None else out
        for k, v in g.attrs.items():
            out[f"{prefix}/@{k}"] = self.value(v)
        out[f"{prefix}#children"] = {"py": repr(list(g.data))}
        out[f"{prefix}#path"] = self.value(g.path)
        out[f"{prefix}#url"] = self.value(g.url)
        for name, item in g.data.items():
            if type(item).__name__ == "Group":
                self.group(item, out, f"{prefix}/{name}")
            elif type(item).__name__ == "Variable":
                self.variable(item, out, f"{prefix}/{name}")
            else:
                out[f"{prefix}/{name}#raw"] = self.value(item)
        return out

    def variable(self, var, out, loc):
        out[f"{loc}#dims"] = self.value(var.dims)
        out[f"{loc}#data"] = self.value(var.data)
        for k, v in var.attrs.items():
            out[f"{loc}@{k}"] = self.value(v)
        out[f"{loc}#attrs"] = {"py": repr(list(var.attrs))}


def definitional_equalities(path):
    """engine-named constants (quotients, ceilings) = their defining applications, as hypotheses for comparisons"""
    from .ops import FDIV

    out = []
    for F, a, b in getattr(path, "_fdiv_memo", {}).values():
        out.append(F == FDIV(a, b))
    CEIL = z3.Function("ceil_div", z3.IntSort(), z3.IntSort(), z3.IntSort())
    for K, a, b in getattr(path, "_ceil_memo", {}).values():
        out.append(K == CEIL(a, b))
    return out


def dump_result(it, v):
    """dump of an arbitrary result: Group -> flat locations; tuple/list/dict of results -> prefixed"""
    d = Dumper(it)
    out = {}

    def rec(x, prefix):
        tn = type(x).__name__
        if tn == "Group":
            d.group(x, out, prefix)
        elif tn == "Variable":
            d.variable(x, out, prefix)
        elif isinstance(x, tuple) and any(type(y).__name__ in ("Group", "Variable") for y in x):
            for i, y in enumerate(x):
                rec(y, f"{prefix}[{i}]")
        elif isinstance(x, dict) and any(type(y).__name__ in ("Group", "Variable") for y in x.values()):
            for k, y in x.items():
                rec(y, f"{prefix}/{k}")
        else:
            out[prefix or "/"] = d.value(x)

    rec(v, "")
    it.__dict__["dump_term_ctx"] = d.term_ctx
    return out, d.terms
