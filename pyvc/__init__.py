"""pyvc — a small deductive verifier for the Python subset used by ceos_alos2 (see DESIGN.md §2)."""
from . import core, ops, models, absobj  # noqa: F401  (registers the library models)
