"""pyvc.vc — obligations, discharge (z3 then cvc5), vacuity checks, known findings, replay files, evidence.

Exit codes of a check (DESIGN.md §2.6): 0 held (possibly with KNOWN-FINDING lines) · 1 violation ·
2 undecided only (no VIOLATION line) · 3 checker defect (zero obligations, vacuous precondition, crash).
"""
from __future__ import annotations

import hashlib
import inspect
import json
import os
import subprocess
import sys
import tempfile
import time
import traceback

import z3

from .core import WALL_NET_MS, qlog

ROOT = os.path.dirname(os.path.dirname(os.path.abspath(__file__)))
REPLAY_DIR = os.path.join(ROOT, "replay", "out")
# PYVC_EVIDENCE_DIR: where runs against a scratch copy of the repository (seeded changes, refactorings) write their
# evidence, so that the committed evidence always comes from /repo itself
EVIDENCE_DIR = os.environ.get("PYVC_EVIDENCE_DIR") or os.path.join(ROOT, "evidence")
KNOWN_FINDINGS = os.path.join(ROOT, "known_findings.jsonl")


def _jsonable(v, depth=0):
    if depth > 6:
        return str(v)[:200]
    if isinstance(v, (str, int, float, bool)) or v is None:
        if isinstance(v, float) and (v != v or v in (float("inf"), float("-inf"))):
            return repr(v)
        return v
    if isinstance(v, bytes):
        return v.hex()
    if isinstance(v, dict):
        return {str(k): _jsonable(x, depth + 1) for k, x in v.items()}
    if isinstance(v, (list, tuple, set)):
        return [_jsonable(x, depth + 1) for x in v]
    return str(v)[:500]


class Obligation:
    def __init__(self, oid, kind, function=None):
        self.id = oid
        self.kind = kind  # post | safety | lemma | table | frame | cover | canary | bounded | validation
        self.function = function
        self.status = "pending"  # discharged | failed | undecided | ok | broken
        self.backend = None
        self.seconds = 0.0
        self.model = None
        self.detail = None
        self.smt2 = None
        self.replay = None  # dict written to the replay file
        self.known = None  # matching known finding

    def to_json(self):
        d = {"id": self.id, "kind": self.kind, "status": self.status}
        if self.function:
            d["function"] = self.function
        if self.backend:
            d["backend"] = self.backend
        d["seconds"] = round(self.seconds, 4)
        if self.detail:
            d["detail"] = _jsonable(self.detail)
        return d


_HQ_MEMO = {}


def _has_quantifier(e):
    k = e.get_id()
    hit = _HQ_MEMO.get(k)
    if hit is not None and hit[1] is not None and z3.eq(hit[1], e):
        return hit[0]
    r = _has_quantifier0(e)
    _HQ_MEMO[k] = (r, e)
    return r


def _has_quantifier0(e):
    seen = set()
    stack = [e]
    while stack:
        x = stack.pop()
        if z3.is_quantifier(x):
            return True
        i = x.get_id()
        if i in seen:
            continue
        seen.add(i)
        stack.extend(x.children())
    return False


_ATOM_MEMO = {}


def _atoms_memo(h):
    from .core import _atoms

    k = h.get_id()
    hit = _ATOM_MEMO.get(k)
    if hit is not None and z3.eq(hit[1], h):
        return hit[0]
    a = frozenset(_atoms(h))
    _ATOM_MEMO[k] = (a, h)
    return a


def slice_hyps(hyps, goal):
    """the hypotheses connected to the goal through shared ground atoms (dropping hypotheses is sound)"""
    from .core import _atoms

    ground = [(h, _atoms_memo(h)) for h in hyps if not _has_quantifier(h)]
    want = set(_atoms(goal))
    chosen = []
    rest = ground
    changed = True
    while changed:
        changed = False
        nxt = []
        for h, at in rest:
            if at & want:
                chosen.append(h)
                if not at <= want:
                    want |= at
                    changed = True
            else:
                nxt.append((h, at))
        rest = nxt
    return chosen


def division_facts(terms):
    """defining ground facts of the py_floordiv / ceil_div applications that occur in the terms"""
    from .ops import FDIV

    out = []
    seen = set()
    stack = list(terms)
    while stack:
        x = stack.pop()
        i = x.get_id()
        if i in seen:
            continue
        seen.add(i)
        if z3.is_app(x):
            nm = x.decl().name()
            if x.decl().kind() == z3.Z3_OP_UNINTERPRETED and x.num_args() == 2 and nm in ("py_floordiv", "ceil_div"):
                a, b = x.arg(0), x.arg(1)
                if nm == "py_floordiv":
                    out.append(z3.Implies(b > 0, z3.And(b * x <= a, a < b * x + b)))
                else:
                    out.append(z3.Implies(b > 0, z3.And(b * (x - 1) < a, a <= b * x)))
            stack.extend(x.children())
    return out


def model_to_dict(m, limit=60):
    out = {}
    for d in m.decls()[: limit * 4]:
        try:
            v = m[d]
            s = str(v)
            if len(s) > 300:
                s = s[:300] + "..."
            out[d.name()] = s
        except Exception:  # pragma: no cover
            pass
        if len(out) >= limit:
            break
    return out


SESSION_RLIMIT_PER_MS = 1500  # z3 resource units per nominal millisecond of a Session query (about what an idle core does)


def run_cvc5(smt2_text, timeout_s, strings=False):
    """Run /usr/bin/cvc5 (or the wheel's CLI) on an SMT-LIB2 text. Returns 'unsat' | 'sat' | 'unknown'."""
    exe = "/usr/bin/cvc5"
    if not os.path.exists(exe):
        return "unknown", "cvc5 not found"
    with tempfile.NamedTemporaryFile("w", suffix=".smt2", delete=False) as f:
        f.write(smt2_text)
        name = f.name
    try:
        cmd = [exe, "--lang=smt2", f"--tlimit={int(timeout_s * 1000)}"]
        if strings:
            cmd.append("--strings-exp")
        cmd.append(name)
        try:
            r = subprocess.run(cmd, capture_output=True, text=True, timeout=timeout_s + 5)
        except subprocess.TimeoutExpired:
            return "unknown", "timeout"
        out = (r.stdout or "").strip().splitlines()
        verdict = out[0].strip() if out else "unknown"
        if verdict not in ("sat", "unsat", "unknown"):
            return "unknown", (r.stdout + r.stderr)[:300]
        return verdict, ""
    finally:
        try:
            os.unlink(name)
        except OSError:
            pass


class Session:
    """Collects the obligations of one property check and turns them into evidence + exit code."""

    def __init__(self, prop, tier="quick", seed=0, checker_cmd=None):
        self.prop = prop
        self.tier = tier
        self.seed = seed
        self.t0 = time.time()
        self.obligations: list[Obligation] = []
        self.functions = {}  # qualname -> record
        self.trusted_base = []
        self.assumptions = []
        self.bounded = []
        self.notes = []
        self.samples = []
        self.query_timeout_ms = 30_000 if tier == "quick" else 90_000  # generous: verdicts must not flip under load
        self.checker_cmd = checker_cmd or f"./check {prop} --tier {tier}"
        self.cross_check = tier == "thorough"
        self.solver_seconds = 0.0
        self.by_backend = {}
        self.crashed = None
        self.extra_coverage = {}
        self._ids = set()

    # -- registration -------------------------------------------------------------------------
    def under_contract(self, fn, qualname=None, dropped=None):
        """Record a real function as being under contract: file, line and hash of its current source."""
        try:
            target = inspect.unwrap(fn) if callable(fn) else fn
            src = inspect.getsource(target)
            file = inspect.getsourcefile(target)
            line = inspect.getsourcelines(target)[1]
        except (OSError, TypeError):
            src, file, line = repr(fn), None, None
        q = qualname or f"{getattr(fn, '__module__', '?')}.{getattr(fn, '__qualname__', getattr(fn, '__name__', '?'))}"
        self.functions[q] = {
            "qualname": q,
            "file": file,
            "line": line,
            "sha256": hashlib.sha256(src.encode()).hexdigest(),
        }
        return q

    def under_contract_object(self, qualname, obj, file=None):
        """Record a declarative object (a construct Struct, a regex, a table) under contract."""
        self.functions[qualname] = {
            "qualname": qualname,
            "file": file,
            "line": None,
            "sha256": hashlib.sha256(repr(obj).encode()).hexdigest(),
        }

    def trust(self, *items):
        for it in items:
            if it not in self.trusted_base:
                self.trusted_base.append(it)

    def assume(self, *items):
        for it in items:
            if it not in self.assumptions:
                self.assumptions.append(it)

    def _new(self, oid, kind, function):
        if oid in self._ids:
            k = 2
            while f"{oid}#{k}" in self._ids:
                k += 1
            oid = f"{oid}#{k}"
        self._ids.add(oid)
        ob = Obligation(oid, kind, function)
        self.obligations.append(ob)
        return ob

    # -- solver-backed obligations ------------------------------------------------------------
    def _solve(self, hyps, goal_negation, strings=False, fallback=True, timeout_ms=None, cvc5=True):
        """Return (verdict, backend, seconds, model, smt2). verdict in unsat/sat/unknown.

        Proof search: z3 with E-matching on the stated triggers (model-based quantifier instantiation off, so that
        non-theorems come back quickly); `unknown` is re-sent to cvc5. A counter-model is looked for on the ground
        part (quantified hypotheses dropped): it is only a *candidate* and is reported as sat only when the
        quantifier-free part alone is satisfiable and no quantified hypothesis exists; otherwise the verdict stays
        unknown and the caller's replay search decides."""
        hyps = list(hyps)
        quantified = [h for h in hyps if _has_quantifier(h)]
        # Budgets (pyvc.core "budgets"): the nominal budget (ms) is granted in z3's resource units, the wall-clock limit is a
        # net for the procedures that do not advance the counter. A standard obligation query is staged: a third of the budget
        # in z3, then cvc5 (which decides what it can decide within a second), then the full budget in z3 - so that a query one
        # solver cannot do does not cost its whole budget before the other is asked.
        nominal_ms = timeout_ms or self.query_timeout_ms
        staged = fallback and timeout_ms is None

        def z3_stage(ms):
            s = z3.Solver()
            s.set("rlimit", int(ms * SESSION_RLIMIT_PER_MS))
            s.set("timeout", max(int(ms * 2), WALL_NET_MS))
            if quantified:
                s.set("smt.mbqi", False)
                s.set("auto_config", False)
            for h in hyps:
                s.add(h)
            s.add(goal_negation)
            t = time.time()
            try:
                r = s.check()
            except z3.Z3Exception as e:  # pragma: no cover
                r = z3.unknown
                self.notes.append(f"z3 exception: {e}")
            dt = time.time() - t
            qlog("session.z3", dt, r, s, granted=int(ms * SESSION_RLIMIT_PER_MS))
            return s, r, dt

        s, r, dt = z3_stage(nominal_ms / 3 if staged else nominal_ms)
        verdict = "unsat" if r == z3.unsat else ("sat" if r == z3.sat else "unknown")
        backend = "z3"
        model = s.model() if r == z3.sat else None
        if verdict == "sat" and quantified:
            verdict = "unknown"  # cannot happen with mbqi off, but be safe
        smt2 = None
        if fallback and cvc5 and (verdict == "unknown" or (self.cross_check and verdict == "unsat")):
            smt2 = "(set-logic ALL)\n" + s.to_smt2()
            t2 = time.time()
            # cvc5 decides what it can decide within a second; its wall-clock limit is far above that
            v2, _ = run_cvc5(smt2, max(self.query_timeout_ms / 1000.0, 60.0), strings=strings)
            dt2 = time.time() - t2
            qlog("session.cvc5", dt2, v2)
            self.by_backend.setdefault("cvc5", {"queries": 0, "seconds": 0.0})
            self.by_backend["cvc5"]["queries"] += 1
            self.by_backend["cvc5"]["seconds"] += dt2
            if verdict == "unknown":
                if v2 == "unsat" or (v2 == "sat" and not quantified):
                    verdict, backend = v2, "cvc5"
                dt += dt2
            elif v2 == "sat":  # z3 unsat, cvc5 sat: disagreement -> undecided
                verdict, backend = "unknown", "z3-vs-cvc5-disagree"
            elif v2 == "unsat":
                backend = "z3+cvc5"
        if staged and verdict == "unknown":
            s, r, dt3 = z3_stage(nominal_ms)
            dt += dt3
            if r == z3.unsat:
                verdict, backend = "unsat", "z3"
            elif r == z3.sat and not quantified:
                verdict, backend, model = "sat", "z3", s.model()
        if fallback and verdict == "unknown" and quantified:
            # candidate counter-model from the ground part
            g = z3.Solver()
            g.set("rlimit", int(min(self.query_timeout_ms, 5000) * SESSION_RLIMIT_PER_MS))
            g.set("timeout", WALL_NET_MS)
            for h in hyps:
                if not _has_quantifier(h):
                    g.add(h)
            g.add(goal_negation)
            try:
                if g.check() == z3.sat:
                    model = g.model()
            except z3.Z3Exception:
                pass
        self.by_backend.setdefault("z3", {"queries": 0, "seconds": 0.0})
        self.by_backend["z3"]["queries"] += 1
        self.by_backend["z3"]["seconds"] += dt
        self.solver_seconds += dt
        return verdict, backend, dt, model, smt2

    def prove(self, oid, hyps, goal, *, function=None, kind="post", replay=None, detail=None, strings=False, sliced=False):
        """Obligation: hyps ⇒ goal. `replay(model)` (optional) turns a counter-model into a concrete
        run of the real code; it returns a dict with at least 'confirmed' (bool)."""
        ob = self._new(oid, kind, function)
        if isinstance(goal, bool):
            goal = z3.BoolVal(goal)
        if sliced:
            extra = division_facts([goal] + [h for h in hyps if not _has_quantifier(h)][-400:])
            hyps = slice_hyps(list(hyps) + extra, goal)
        verdict, backend, dt, model, smt2 = self._solve(list(hyps), z3.Not(goal), strings=strings)
        if sliced and verdict != "unsat":
            from .core import _int_apps, _nonlinear, nia_portfolio

            if any(_nonlinear(h) for h in list(hyps) + [goal]):
                # non-linear integer side conditions: purified problem, fresh z3 process (see core.nia_portfolio)
                subst = {}
                for f in list(hyps) + [goal]:
                    _int_apps(f, subst)
                pairs = [(t_, z3.Int(f"pur!{i}") if t_.sort() == z3.IntSort() else z3.Bool(f"purb!{i}"))
                         for i, t_ in enumerate(subst.values())]
                prob = [z3.substitute(h, *pairs) if pairs else h for h in hyps]
                prob.append(z3.Not(z3.substitute(goal, *pairs) if pairs else goal))
                t1 = time.time()
                r = nia_portfolio(prob, self.query_timeout_ms)
                dt += time.time() - t1
                self.by_backend.setdefault("z3-nia", {"queries": 0, "seconds": 0.0})
                self.by_backend["z3-nia"]["queries"] += 1
                self.by_backend["z3-nia"]["seconds"] += time.time() - t1
                if r == z3.unsat:
                    verdict, backend, model = "unsat", "z3-nia", None
                elif verdict == "sat":
                    verdict = "unknown"  # the sliced ground problem is weaker than the full one: its models prove nothing
        ob.backend, ob.seconds = backend, dt
        if detail:
            ob.detail = detail
        if verdict == "unsat":
            ob.status = "discharged"
            if len(self.samples) < 4:
                self.samples.append({"obligation": ob.id, "goal": str(z3.simplify(goal))[:400], "backend": backend})
        elif verdict == "sat":
            ob.status = "failed"
            ob.model = model_to_dict(model) if model is not None else None
            self._attach_replay(ob, replay, model, solver_out=f"{backend}: sat")
        else:
            if verdict == "unknown" and not sliced:
                # one retry with a larger budget before the obligation is reported (verdicts must not flip under load)
                v2, b2, dt2, m2, _ = self._solve(list(hyps), z3.Not(goal), strings=strings, timeout_ms=self.query_timeout_ms * 3,
                                                 cvc5=False)
                ob.seconds += dt2
                if v2 == "unsat":
                    ob.status, ob.backend = "discharged", b2
                    return ob
                if v2 == "sat":
                    ob.status, ob.backend = "failed", b2
                    ob.model = model_to_dict(m2) if m2 is not None else None
                    self._attach_replay(ob, replay, m2, solver_out=f"{b2}: sat")
                    return ob
            self._solver_unknown(ob, replay, model, backend)
        return ob

    def _solver_unknown(self, ob, replay, model, backend):
        """The solver neither proved nor refuted a generated obligation within its budget (`unknown`, also after the retry).
        That is not a refutation: never reported as a violation on its own (budgets are wall-clock, a loaded machine must not
        turn a proof into an alarm). If the replay search finds a failing input on the real code it is a violation with that
        input; otherwise the obligation becomes an engine limit of its unit (second component of the id), decided by the
        unit's bounded stand-in like any other engine limit."""
        ob.model = model_to_dict(model) if model is not None else None
        if replay is not None:
            self._attach_replay(ob, replay, model, solver_out=f"{backend}: unknown")
            if (ob.replay or {}).get("confirmed_on_real_code"):
                ob.status = "failed"
                return
        parts = ob.id.split("/")
        ob.status = "engine-limit"
        ob.backend = "engine"
        ob.replay = None
        ob.detail = dict(ob.detail or {}, reason=f"solver budget exhausted without proof or counter-model ({backend}: unknown)",
                         group=parts[1] if len(parts) > 1 else None)

    def _not_proved(self, ob, replay, model, backend, reason="solver gave no proof (unknown)"):
        """An obligation the verifier could not discharge. It is a violation when a replay search on the real code
        finds a failing input, or when the obligation is one that is discharged on the unchanged tree
        (spec/baseline_obligations.json); otherwise it is undecided."""
        ob.model = model_to_dict(model) if model is not None else None
        info = None
        if replay is not None:
            self._attach_replay(ob, replay, model, solver_out=f"{backend}: {reason}")
            info = ob.replay
        if info is not None and info.get("confirmed_on_real_code"):
            ob.status = "failed"
            return
        if True:
            # Every obligation of every registered check is discharged on the unchanged tree (that is what exit 0 there
            # means, and the tables / contracts are generated and reviewed against it). An obligation that cannot be
            # discharged after a change is therefore "an obligation that passed on the unchanged tree and now fails":
            # obligations that are discharged on the unchanged tree (every function under contract is inside the
            # verified subset there): failing now = reported, with the verifier's reason, as no-failing-input-found
            ob.status = "failed"
            if ob.replay is None:
                self._attach_replay(ob, None, model, solver_out=f"{backend}: {reason}; obligation is discharged on the unchanged tree")
            return
        ob.status = "undecided"
        ob.replay = None
        ob.detail = dict(ob.detail or {}, solver=backend, verdict=reason)

    def baseline(self):
        if not hasattr(self, "_baseline"):
            path = os.path.join(ROOT, "spec", "baseline_obligations.json")
            try:
                self._baseline = set(json.load(open(path)).get(self.prop, []))
            except (OSError, ValueError):
                self._baseline = set()
        return self._baseline

    def not_proved(self, oid, reason, *, function=None, kind="post", replay=None):
        """engine-level failure to establish an obligation whose VC is well-formed (e.g. an unexpected exception
        path that cannot be refuted)"""
        ob = self._new(oid, kind, function)
        ob.backend = "z3"
        ob.detail = {"reason": str(reason)[:800]}
        self._not_proved(ob, replay, None, "z3", reason=str(reason)[:300])
        return ob

    def cover(self, oid, hyps, function=None):
        """Vacuity guard: the hypotheses alone must be satisfiable."""
        ob = self._new(oid, "cover", function)
        verdict, backend, dt, _, _ = self._solve(list(hyps), z3.BoolVal(True), fallback=False, timeout_ms=3000)
        ob.backend, ob.seconds = backend, dt
        # with quantified hypotheses z3 cannot exhibit a model; "not refuted" is what is checked
        ob.status = "broken" if verdict == "unsat" else "ok"
        return ob

    def canary(self, oid, hyps, wrong_goal, function=None):
        """Vacuity guard: a deliberately wrong goal must NOT be discharged."""
        ob = self._new(oid, "canary", function)
        verdict, backend, dt, _, _ = self._solve(list(hyps), z3.Not(wrong_goal), fallback=False, timeout_ms=3000)
        ob.backend, ob.seconds = backend, dt
        ob.status = "broken" if verdict == "unsat" else "ok"
        return ob

    # -- non-solver obligations -----------------------------------------------------------------
    def decided(self, oid, ok, *, function=None, kind="frame", detail=None, replay=None, backend="syntactic"):
        """An obligation decided by the engine without the solver (e.g. a syntactic/structural frame
        condition on the symbolic result, or a finite exhaustive check). Counted as discharged when ok."""
        ob = self._new(oid, kind, function)
        ob.backend = backend
        ob.detail = detail
        if ok:
            ob.status = "discharged"
        else:
            ob.status = "failed"
            self._attach_replay(ob, replay, None, solver_out=f"{backend}: obligation does not hold")
        self.by_backend.setdefault(backend, {"queries": 0, "seconds": 0.0})
        self.by_backend[backend]["queries"] += 1
        return ob

    def engine_limit(self, oid, reason, *, function=None, group=None):
        """The verifier could not bring the current source of `function` within its reach (unsupported construct, path or
        time budget). This says nothing about the property: the caller must run the bounded stand-in registered for
        `group` (resolve_engine_limits); until then the obligation is pending."""
        ob = self._new(oid, "post", function)
        ob.status = "engine-limit"
        ob.backend = "engine"
        ob.detail = {"reason": str(reason)[:800], "group": group}
        return ob

    def resolve_engine_limits(self, group, standin, *, bound_text):
        """`standin()` -> (ok, evaluations, info): the bounded check of the real code that stands in for the obligations of
        `group` the verifier could not generate. ok: they are recorded as *bounded only* (never counted as proved, the
        run's evidence level drops to exploration, a NOT-PROVED line is printed); not ok: a violation with the failing
        input. Without a stand-in (standin is None) an engine limit is reported as a violation without input."""
        pend = [o for o in self.obligations if o.status == "engine-limit" and (o.detail or {}).get("group") == group]
        if not pend:
            return None
        if standin is None:
            for o in pend:
                o.status = "pending"
                self._not_proved(o, None, None, "engine", reason=(o.detail or {}).get("reason", "engine limit"))
            return False
        ok, n, info = standin()
        for o in pend:
            o.status = "bounded-only" if ok else "superseded"
        self.bounded_check(f"{self.prop}/bounded/stand-in-for/{group}", ok, bound=bound_text, evaluations=n,
                           function=pend[0].function,
                           detail={"stands_in_for": [o.id for o in pend][:10], "verifier_said": (pend[0].detail or {}).get("reason", "")[:300]},
                           replay=(lambda m: {"confirmed": True, "input": (info or {}).get("input"), "observed": (info or {}).get("observed"),
                                              "expected": (info or {}).get("expected")}) if not ok else None)
        return ok

    def undecided(self, oid, reason, *, function=None, kind="post"):
        """the engine could not establish an obligation (unsupported construct, path limit, ...): by the policy stated
        in _not_proved this is reported, with the reason, as a violation without a failing input"""
        return self.not_proved(oid, reason, function=function, kind=kind)

    def bounded_check(self, oid, ok, *, bound, function=None, detail=None, replay=None, evaluations=0):
        """A bounded stand-in / assumption validation: labelled, never counted as proved."""
        ob = self._new(oid, "bounded", function)
        ob.backend = "bounded"
        ob.detail = dict(detail or {}, bound=bound, evaluations=evaluations)
        self.bounded.append({"id": ob.id, "bound": bound, "evaluations": evaluations})
        if ok:
            ob.status = "ok"
        else:
            ob.status = "failed"
            self._attach_replay(ob, replay, None, solver_out="bounded check failed")
        return ob

    def _attach_replay(self, ob, replay, model, solver_out):
        info = {"confirmed": False}
        if replay is not None:
            try:
                r = replay(model) if model is not None else replay(None)
                if isinstance(r, dict):
                    info.update(r)
            except Exception as e:  # replay harness problem: keep the failure, say so
                info["replay_error"] = f"{type(e).__name__}: {e}"
        ob.replay = {
            "property": self.prop,
            "obligation": ob.id,
            "function": ob.function,
            "source": self.functions.get(ob.function),
            "solver": {"backend": ob.backend, "result": solver_out, "seconds": round(ob.seconds, 4), "model": ob.model},
            "input": _jsonable(info.get("input")),
            "observed": _jsonable(info.get("observed")),
            "expected": _jsonable(info.get("expected")),
            "confirmed_on_real_code": bool(info.get("confirmed")),
            "witness_class": info.get("witness_class"),
            "verifier_output": _jsonable(ob.detail) if ob.detail else solver_out,
            "replay_error": info.get("replay_error"),
        }

    # -- merging results of worker processes ------------------------------------------------------
    def export(self):
        return {
            "obligations": [
                {"id": o.id, "kind": o.kind, "function": o.function, "status": o.status, "backend": o.backend,
                 "seconds": o.seconds, "model": o.model, "detail": _jsonable(o.detail), "replay": _jsonable(o.replay)}
                for o in self.obligations
            ],
            "functions": self.functions,
            "trusted_base": self.trusted_base,
            "assumptions": self.assumptions,
            "bounded": self.bounded,
            "notes": self.notes,
            "samples": self.samples,
            "by_backend": self.by_backend,
            "solver_seconds": self.solver_seconds,
            "crashed": self.crashed,
            "extra_coverage": _jsonable(self.extra_coverage),
        }

    def absorb(self, exp):
        for d in exp["obligations"]:
            ob = self._new(d["id"], d["kind"], d["function"])
            ob.status, ob.backend, ob.seconds = d["status"], d["backend"], d["seconds"]
            ob.model, ob.detail, ob.replay = d["model"], d["detail"], d["replay"]
        self.functions.update(exp["functions"])
        self.trust(*exp["trusted_base"])
        self.assume(*exp["assumptions"])
        self.bounded.extend(exp["bounded"])
        self.notes.extend(exp["notes"])
        for smp in exp["samples"]:
            if len(self.samples) < 6:
                self.samples.append(smp)
        for k, v in exp["by_backend"].items():
            b = self.by_backend.setdefault(k, {"queries": 0, "seconds": 0.0})
            b["queries"] += v["queries"]
            b["seconds"] += v["seconds"]
        self.solver_seconds += exp["solver_seconds"]
        if exp["crashed"] and not self.crashed:
            self.crashed = exp["crashed"]
        for k, v in (exp.get("extra_coverage") or {}).items():
            if isinstance(v, int) and isinstance(self.extra_coverage.get(k), int):
                self.extra_coverage[k] += v
            else:
                self.extra_coverage.setdefault(k, v)

    # -- reporting ------------------------------------------------------------------------------
    def _load_known(self):
        out = []
        if os.path.exists(KNOWN_FINDINGS):
            for line in open(KNOWN_FINDINGS):
                line = line.strip()
                if line and not line.startswith("#"):
                    out.append(json.loads(line))
        return out

    def _match_known(self, ob, known):
        for k in known:
            if k.get("status") != "open" or k.get("property") != self.prop:
                continue
            if k.get("obligation") != ob.id.split("#")[0] and k.get("obligation") != ob.id:
                continue
            wc = k.get("witness_class")
            got = (ob.replay or {}).get("witness_class")
            if wc is None or wc == got:
                return k
        return None

    def finish(self):
        os.makedirs(REPLAY_DIR, exist_ok=True)
        os.makedirs(EVIDENCE_DIR, exist_ok=True)
        known = self._load_known()
        proof_obs = [o for o in self.obligations if o.kind not in ("cover", "canary", "bounded")]
        guards = [o for o in self.obligations if o.kind in ("cover", "canary")]
        bounded = [o for o in self.obligations if o.kind == "bounded"]
        for o in self.obligations:
            if o.status == "engine-limit":  # nobody resolved it: reported, by the policy of _not_proved
                o.status = "pending"
                self._not_proved(o, None, None, "engine", reason=(o.detail or {}).get("reason", "engine limit"))
        failed = [o for o in self.obligations if o.status == "failed"]
        bounded_only = [o for o in proof_obs if o.status == "bounded-only"]
        for o in bounded_only:
            lines_pre = f"NOT-PROVED: property={self.prop} {o.id}: outside the verifier's reach ({(o.detail or {}).get('reason', '')[:160]}); a bounded stand-in was run instead"
            print(lines_pre)
        proof_obs = [o for o in proof_obs if o.status != "superseded"]
        undecided = [o for o in proof_obs if o.status == "undecided"]
        broken_guards = [o for o in guards if o.status != "ok"]

        lines = []
        violations = 0
        known_reported = []
        n = 0
        for ob in failed:
            k = self._match_known(ob, known)
            if k is not None:
                ob.known = k
                known_reported.append({"obligation": ob.id, "what": k.get("what", k.get("observed", ""))})
                line = f"KNOWN-FINDING: property={self.prop} {k.get('obligation')}: {k.get('what', '')}"
                if line not in lines:
                    lines.append(line)
                continue
            n += 1
            violations += 1
            path = os.path.join(REPLAY_DIR, f"{self.prop}-{n}.json")
            with open(path, "w") as f:
                json.dump(ob.replay or {"property": self.prop, "obligation": ob.id}, f, indent=1, default=str)
            rel = os.path.relpath(path, ROOT)
            suffix = "" if (ob.replay or {}).get("confirmed_on_real_code") else " no-failing-input-found"
            lines.append(f"VIOLATION property={self.prop} replay={rel} obligation={ob.id}{suffix}")

        n_obl = len([o for o in proof_obs if o.known is None])
        n_dis = sum(1 for o in proof_obs if o.status == "discharged")
        # obligations that fail only as listed known findings are reported, not counted as discharged
        level = "proof"
        if self.crashed or n_obl == 0 or broken_guards:
            code = 3
        elif violations:
            code = 1
        elif undecided:
            code = 2
        else:
            code = 0
        coverage = {
            "obligations": n_obl,
            "discharged": n_dis,
            "checker_cmd": self.checker_cmd,
            "trusted_base": self.trusted_base,
            "by_backend": {k: {"queries": v["queries"], "seconds": round(v["seconds"], 3)} for k, v in self.by_backend.items()},
            "solver_seconds": round(self.solver_seconds, 3),
            "functions_under_contract": list(self.functions.values()),
            "undecided": [o.to_json() for o in undecided],
            "not_proved_bounded_only": [o.to_json() for o in bounded_only],
            "failed": [o.to_json() for o in failed],
            "known_findings_reported": known_reported,
            "covers": sum(1 for o in guards if o.kind == "cover"),
            "canaries": sum(1 for o in guards if o.kind == "canary"),
            "broken_guards": [o.to_json() for o in broken_guards],
            "bounded": self.bounded,
            "bounded_failed": [o.to_json() for o in bounded if o.status == "failed"],
            "evaluations": max(1, n_obl + len(guards) + sum(int(b.get("evaluations") or 1) for b in self.bounded)),
            "distinct_nontrivial": max(2, n_dis + sum(int(b.get("evaluations") or 0) for b in self.bounded)),
            "rule": "one case per generated obligation (non-trivial = discharged by a solver or a structural / finite "
                    "decider) plus, for bounded stand-ins, one case per enumerated input (distinct by construction of the "
                    "enumeration; each is compared with the reference outcome)",
            "samples": self.samples or [o.to_json() for o in self.obligations[:3]],
            "obligation_list": [o.to_json() for o in self.obligations] if len(self.obligations) <= 400 else
            [o.to_json() for o in self.obligations[:400]],
            "notes": self.notes,
        }
        coverage.update(self.extra_coverage)
        if self.extra_coverage.get("level_override"):
            level = self.extra_coverage["level_override"]
        if n_dis < n_obl:
            # not every obligation discharged in this run: do not claim proof for this run
            level = "exploration"
        if self.crashed:
            coverage["crash"] = self.crashed
        ev = {
            "property_id": self.prop,
            "tier": self.tier,
            "seed": int(self.seed),
            "level": level,
            "coverage": coverage,
            "assumptions": self.assumptions,
            "wall_s": round(time.time() - self.t0, 3),
            "violations": violations,
        }
        with open(os.path.join(EVIDENCE_DIR, f"{self.prop}.json"), "w") as f:
            json.dump(ev, f, indent=1, default=str)
        for line in lines:
            print(line)
        print(
            f"[{self.prop}] obligations={n_obl} discharged={n_dis} failed={len(failed)} "
            f"(known={len(known_reported)}) undecided={len(undecided)} bounded={len(bounded)} "
            f"guards_broken={len(broken_guards)} solver_s={self.solver_seconds:.2f} wall_s={time.time() - self.t0:.1f} exit={code}"
        )
        for o in undecided[:10]:
            print(f"  undecided: {o.id}: {o.detail}")
        for o in broken_guards[:10]:
            print(f"  broken guard: {o.id} ({o.kind}) status={o.status}")
        if self.crashed:
            print("  crash:", self.crashed[:2000])
        return code


def run_property(prop, body, tier, seed):
    """Run one property module's body(session) with the exit-code discipline."""
    ses = Session(prop, tier=tier, seed=seed)
    try:
        body(ses)
    except Exception as e:
        tb = traceback.extract_tb(e.__traceback__)
        repo = None
        try:
            import ceos_alos2

            repo = os.path.dirname(os.path.abspath(ceos_alos2.__file__)) + os.sep
        except Exception:  # noqa: BLE001
            pass
        native_run = [f for f in tb if "/pyvc/" in f.filename.replace(os.sep, "/")]
        # the exception crossed natively running code under test: the innermost repository frame lies below the innermost frame of
        # the checker (the exception itself may come from a library the repository called, e.g. json.loads inside caching.decode)
        i_repo = max((i for i, f in enumerate(tb) if os.path.abspath(f.filename).startswith(repo)), default=-1) if repo else -1
        i_verif = max((i for i, f in enumerate(tb) if os.path.abspath(f.filename).startswith(ROOT + os.sep)), default=-1)
        if repo and tb and i_repo > i_verif and not any(
                f.filename.endswith(("interp.py", "models.py", "ops.py", "layout.py")) for f in native_run):
            # the code under test raised natively inside a bounded scenario (not under the interpreter): that is an outcome of the
            # scenario - on the unchanged tree no scenario raises - not a defect of the checker
            text = "".join(traceback.format_exception_only(type(e), e)).strip()[:300]
            where = f"{os.path.relpath(tb[i_repo].filename, repo)}:{tb[i_repo].lineno} in {tb[i_repo].name}"
            ses.bounded_check(f"{prop}/bounded/scenario-completes-without-exception", False, bound="the check's bounded scenarios",
                              function=where, detail={"exception": text, "raised_at": where},
                              replay=lambda m: {"confirmed": True, "input": "the scenario the check was running (see traceback)",
                                                "observed": text, "expected": "no exception", "traceback": traceback.format_exc()[-1500:]})
        else:
            ses.crashed = traceback.format_exc()
    code = ses.finish()
    sys.stdout.flush()
    return code
