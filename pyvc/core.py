"""pyvc.core — symbolic value domain, path conditions and path exploration.

Values handled by the interpreter (see DESIGN.md §2.2.2):
  * native Python objects (operated on by CPython itself),
  * Sym(term, pyt)            — scalar unknown, a z3 term tagged with the Python type it stands for,
  * SymSeq(length, fn, pycls) — sequence of (possibly) symbolic length; element k is fn(k) where k is a
                                z3 Int term or a Python int; elements may be native structures with Sym leaves,
  * SymBytes                  — a window [off, off+len) onto an uninterpreted byte function,
  * stateful abstract objects (SymFile, ...) live in models.py.

`Sym` deliberately has no usable operators: if *native* code branches on, hashes, compares, iterates or does
arithmetic with one, `Unmediated` is raised and the obligation becomes undecided — never silently concretised.
"""
from __future__ import annotations

import itertools
import z3


class Undecided(Exception):
    """The engine cannot decide (unsupported syntax/library use, unknown from the solver, ...)."""


class Unsupported(Undecided):
    pass


class ContractRefuted(Undecided):
    """a contract supplied for the code under proof (a loop invariant) is refuted by the solver: there is a state that satisfies
    the invariant and the path condition and from which the loop body leaves it. Unlike Unsupported this speaks about the
    code; `model` is the solver's counter-model as text."""

    def __init__(self, what, model=""):
        super().__init__(what)
        self.model = model


class Unmediated(Undecided):
    """native code tried to inspect a symbolic value"""


class PathLimit(Undecided):
    pass


_counter = itertools.count()
import os as _os

_DEBUG = bool(_os.environ.get("PYVC_DEBUG"))
_QLOG = _os.environ.get("PYVC_QLOG")  # debugging aid: one JSON line per solver query (where, seconds, verdict, reason, rlimit used)


_QLAST = {}

# -- budgets ------------------------------------------------------------------------------------------------------------------
# A verdict should not depend on the load of the machine. What ends a hopeless query is, first of all, z3's resource counter
# (`rlimit`): the same query stops at about the same point on an idle and on an overloaded machine. Two reservations, both
# measured on the unchanged tree (PYVC_QLOG):
#  * z3's non-linear arithmetic is chaotic from process to process - the same pruning query took 11 000 units in one run and
#    300 000 in the next, the most expensive *decisive* (`unsat`) path query of a check varied between 230 000 and 790 000 - so
#    no limit is a guarantee; an exploration that ends with an engine limit is therefore repeated with other solver seeds
#    (harness.run_cases), each attempt being a complete exploration with all its obligations;
#  * a larger limit is not simply better: with 1 800 000 units the path solver reaches nlsat / Groebner calls that neither
#    advance the counter nor honour the wall-clock timeout (one query ran 491 s against a 40 s timeout), so the limit of the path
#    solver stays at the value all seeded changes and refactorings were validated with.
# The wall-clock limits are a net for the procedures that do not advance the counter. They are sized from the slowest decisive
# query seen with every core oversubscribed 4.5 times (path solver 6.5 s, obligation queries 15 s), not from the idle machine:
# the first build's nets (4-7.5 s for the path solver, 30 s + 20 s for an obligation) turned a proof into `unknown` when the
# machine was slower than that (cold restore).
WALL_NET_MS = int(_os.environ.get("PYVC_WALL_NET_MS", "40000"))
PATH_RLIMIT_FULL = 600_000      # E-matching on the stated triggers + arithmetic; about 1-2 s idle
PATH_RLIMIT_GROUND = 300_000    # only `unsat` of the ground solver is used (sat / unknown both go on to the full solver)
PATH_WALL_GROUND_MS = 15_000
NIA_RLIMIT_PER_S = 1_000_000    # z3 binary, non-linear integer problems: resource units granted per second of nominal budget


def qlog(where, seconds, verdict, solver=None, **extra):
    if not _QLOG:
        return
    import json as _json

    rec = {"where": where, "s": round(seconds, 4), "verdict": str(verdict), "pid": _os.getpid()}
    if solver is not None:
        try:
            if str(verdict) == "unknown":
                rec["reason"] = solver.reason_unknown()
            st = solver.statistics()
            if "rlimit count" in st.keys():
                tot = st.get_key_value("rlimit count")
                # the counter is cumulative and shared by all solvers of the (main) context of this process
                rec["rlimit"] = tot - _QLAST.get("tot", 0)
                _QLAST["tot"] = tot
        except Exception:  # noqa: BLE001
            pass
    rec.update(extra)
    with open(_QLOG, "a") as fh:
        fh.write(_json.dumps(rec) + "\n")


def fresh_name(prefix):
    return f"{prefix}!{next(_counter)}"


def fresh_int(prefix="k"):
    return z3.Int(fresh_name(prefix))


# uninterpreted sorts for opaque text / bytes-as-text and floats that are only moved around
StrSort = z3.DeclareSort("PyStr")
F64 = z3.Float64()
F32 = z3.Float32()
RNE = z3.RNE()


def _unmediated(name):
    def method(self, *a, **k):
        raise Unmediated(f"native {name} on {self!r}")

    return method


class Sym:
    __slots__ = ("term", "pyt", "tag")

    def __init__(self, term, pyt, tag=None):
        self.term = term
        self.pyt = pyt
        self.tag = tag  # free-form provenance (e.g. leaf path), never used for semantics

    def __repr__(self):
        t = str(self.term)
        if len(t) > 120:
            t = t[:117] + "..."
        return f"Sym<{t}:{getattr(self.pyt, '__name__', self.pyt)}>"

    def __deepcopy__(self, memo):
        return self

    def __copy__(self):
        return self

    def __reduce__(self):
        raise Unmediated("pickle of Sym")

    for _n in (
        "__bool__ __hash__ __eq__ __ne__ __lt__ __le__ __gt__ __ge__ __add__ __radd__ __sub__ __rsub__ "
        "__mul__ __rmul__ __truediv__ __rtruediv__ __floordiv__ __rfloordiv__ __mod__ __rmod__ __neg__ "
        "__iter__ __len__ __index__ __int__ __float__ __getitem__ __contains__ __call__ __format__ __str__ "
        "__or__ __ror__ __and__ __rand__ __abs__ __complex__"
    ).split():
        locals()[_n] = _unmediated(_n)
    del _n


def is_sym(v):
    return isinstance(v, Sym)


def z3_of(v):
    """z3 term of a scalar interpreter value (Sym or native int/bool/float)."""
    if isinstance(v, Sym):
        return v.term
    if isinstance(v, bool):
        return z3.BoolVal(v)
    if isinstance(v, int):
        return z3.IntVal(v)
    if isinstance(v, float):
        return z3.FPVal(v, F64)
    if z3.is_expr(v):
        return v
    raise Unsupported(f"no z3 term for {type(v).__name__}: {v!r}")


def is_concrete_int(v):
    return isinstance(v, int) and not isinstance(v, bool)


class SymSeq:
    """A sequence with (possibly symbolic) length; elements are produced on demand by `fn(index)`.

    `fn` may re-interpret a comprehension body, so evaluating an element can add path conditions.
    pycls records which Python class the sequence stands for (list, tuple, ListContainer, range, ...),
    used by the isinstance model.
    """

    __slots__ = ("length", "fn", "pycls", "note", "memo", "src")

    def __init__(self, length, fn, pycls=list, note=None):
        self.length = length
        self.fn = fn
        self.pycls = pycls
        self.note = note
        self.memo = {}
        self.src = None  # the symbolic mapping this sequence is the items() of, if any

    def at(self, k):
        """element k; evaluations are memoised per index term (deterministic, facts only grow on a path)"""
        if isinstance(k, Sym):
            key = ("t", z3.simplify(k.term).get_id())
            kk = k
        elif z3.is_expr(k):
            key = ("t", z3.simplify(k).get_id())
            kk = Sym(k, int)
        else:
            key = ("c", k)
            kk = k
        hit = self.memo.get(key)
        if hit is not None:
            return hit[0]
        v = self.fn(kk)
        self.memo[key] = (v, k)
        return v

    def len_term(self):
        return z3_of(self.length)

    def concrete_len(self):
        return self.length if is_concrete_int(self.length) else None

    def __repr__(self):
        return f"SymSeq<len={self.length!r}, {getattr(self.pycls, '__name__', self.pycls)}{', ' + self.note if self.note else ''}>"

    def __deepcopy__(self, memo):
        return self

    def __copy__(self):
        return self

    for _n in "__bool__ __hash__ __eq__ __iter__ __len__ __getitem__ __contains__ __add__".split():
        locals()[_n] = _unmediated(_n)
    del _n


class Path:
    """One execution path: a prefix of forced decisions, the path condition collected so far,
    hypotheses (quantified library facts / preconditions) and bookkeeping for index contexts."""

    def __init__(self, decisions=(), hyps=(), timeout_ms=3000, max_decisions=400):
        self.decisions = list(decisions)
        self.pos = 0
        self.pc = []  # list of z3 BoolRef (ground facts assumed/decided on this path)
        self.hyps = list(hyps)  # preconditions + quantified axioms
        self.timeout_ms = timeout_ms
        self.max_decisions = max_decisions
        self.index_ctx = []  # stack of (index_var, lo, hi) for lazily evaluated comprehension bodies
        self.notes = []
        self.solver_seconds = 0.0
        self.solver_calls = 0
        self.assumed_feasible = 0  # decisions where the solver said unknown and we explored anyway
        self.trial_generalised = []  # (decision position, polarity) generalised over an index context
        self.trial_raised = set()  # decision positions whose path left the trial by an exception
        self.fork_positions = {}  # decision position -> index-context depth at the time of the fork

    # -- solver helpers -----------------------------------------------------------------------
    def _solvers(self):
        """two persistent incremental solvers: ground (path condition only) and full (+ hypotheses)"""
        if getattr(self, "_full", None) is None:
            self._full = z3.Solver()
            # the deterministic resource limit below is what ends a hopeless query; the wall-clock timeout is a
            # safety net only (see "budgets" at the top of this module)
            self._full.set("timeout", max(self.timeout_ms * 5, WALL_NET_MS))
            # entailment-only use: proofs come from E-matching on the stated triggers; model-based quantifier
            # instantiation is switched off so that non-theorems give "unknown" quickly instead of searching a model
            self._full.set("smt.mbqi", False)
            self._full.set("auto_config", False)
            self._full.set("rlimit", PATH_RLIMIT_FULL)
            self._full.set("smt.arith.nl.rounds", 64)
            self._ground = z3.Solver()
            self._ground.set("timeout", max(min(self.timeout_ms, 1000) * 5, PATH_WALL_GROUND_MS))
            self._ground.set("rlimit", PATH_RLIMIT_GROUND)
            self._n_hyps = 0
            self._n_pc = 0
            self._n_str = 0
        while self._n_hyps < len(self.hyps):
            self._full.add(self.hyps[self._n_hyps])
            self._n_hyps += 1
        from . import ops as _ops

        while self._n_str < len(_ops.STR_FACTS):
            self._full.add(_ops.STR_FACTS[self._n_str])
            self._ground.add(_ops.STR_FACTS[self._n_str])
            self._n_str += 1
        if self._n_pc > len(self.pc):  # pc was truncated (merged conditional): rebuild
            self._full = None
            return self._solvers()
        while self._n_pc < len(self.pc):
            self._full.add(self.pc[self._n_pc])
            self._ground.add(self.pc[self._n_pc])
            self._n_pc += 1
        return self._ground, self._full

    def _ctx(self):
        out = list(getattr(self, "temp", ()))
        for iv, lo, hi in self.index_ctx:
            out.append(iv >= lo)
            out.append(iv < hi)
        return out

    def _check(self, s, *extra):
        import time

        t = time.time()
        r = s.check(*extra)
        self.solver_seconds += time.time() - t
        self.solver_calls += 1
        if _QLOG:
            qlog("path.ground" if s is getattr(self, "_ground", None) else "path.full", time.time() - t, r, s,
                 cond=str(extra[0])[:400].replace("\n", " ") if extra else None, npc=len(self.pc))
        return r

    def feasible(self, cond):
        """sat / unsat / unknown for pc ∧ hyps ∧ cond"""
        g, f = self._solvers()
        ctx = self._ctx()
        if self._check(g, cond, *ctx) == z3.unsat:
            return z3.unsat
        return self._check(f, cond, *ctx)

    def refute(self, cond, timeout_ms=15000):
        """a counter-model (text) of  pc ∧ quantifier-free hypotheses ∧ index bounds ⇒ cond,  or None. Only `sat` counts:
        unknown and unsat give None. Quantified hypotheses are left out, so the caller must only use this for conditions
        whose proof does not rest on them (definitions of quotient / ceiling constants are in the path condition)."""
        def quantified(e):
            todo, seen = [e], set()
            while todo:
                x = todo.pop()
                if x.get_id() in seen:
                    continue
                seen.add(x.get_id())
                if z3.is_quantifier(x):
                    return True
                todo.extend(x.children())
            return False
        facts = list(self.pc) + [h for h in self.hyps if not quantified(h)] + self._ctx() + [z3.Not(cond)]
        s = z3.Solver()
        s.set("rlimit", int(timeout_ms * 1500))  # deterministic budget; wall-clock limit as safety net ("budgets" above)
        s.set("timeout", max(timeout_ms * 2, WALL_NET_MS))
        s.add(facts)
        import time

        t = time.time()
        r = s.check()
        self.solver_seconds += time.time() - t
        self.solver_calls += 1
        if r == z3.sat:
            m = s.model()
            return ", ".join(f"{d.name()}={m[d]}" for d in sorted(m.decls(), key=lambda d: d.name()) if d.arity() == 0)[:1500]
        if r == z3.unknown and nia_portfolio(facts, timeout_ms) == z3.sat:
            return "(model not printed: decided by the z3 binary)"
        return None

    def assume(self, cond):
        self.pc.append(cond)

    def add_hyp(self, cond):
        self.hyps.append(cond)

    def entails(self, cond):
        """True iff pc ∧ hyps ⇒ cond is proved (unsat of the negation)."""
        cond = z3.simplify(cond)
        if z3.is_true(cond):
            return True
        if z3.is_false(cond):
            return False
        key = cond.get_id()
        memo = self.__dict__.setdefault("_entail_memo", {})
        ctx_key = tuple(c.get_id() for c in self._ctx())
        stamp = (len(self.pc), len(self.hyps), ctx_key)
        if key in memo:
            r0, st0, _ = memo[key]
            # monotone: facts only grow along a path; temporary assumptions must be a prefix of the current ones
            if r0 is True and st0[2] == ctx_key[: len(st0[2])]:
                return True
            if st0 == stamp:
                return r0
        r = self.feasible(z3.Not(cond)) == z3.unsat
        memo[key] = (r, stamp, cond)
        return r

    def entails_any(self, cond):
        """entailment by the incremental solvers, else by the sliced / purified non-linear procedure"""
        return self.entails(cond) or self.entails_sliced(cond)

    def entails_sliced(self, cond, timeout_ms=12000):
        import time

        facts = [f for f in list(self.hyps) + list(self.pc) + self._ctx() if not z3.is_quantifier(f)]
        atoms_of = [(_atoms(f), f) for f in facts]
        want = set(_atoms(cond))
        chosen = []
        changed = True
        rest = atoms_of
        while changed:
            changed = False
            nxt = []
            for at, f in rest:
                if at & want:
                    chosen.append(f)
                    if not at <= want:
                        want |= at
                        changed = True
                else:
                    nxt.append((at, f))
            rest = nxt
        # purification: integer-valued applications of uninterpreted functions become constants, so that the
        # non-linear arithmetic procedure sees polynomials over variables (weakening: sound for entailment)
        subst = {}
        for f in chosen + [cond]:
            _int_apps(f, subst)
        pairs = [(t_, z3.Int(f"pur!{i}") if t_.sort() == z3.IntSort() else z3.Bool(f"purb!{i}"))
                 for i, t_ in enumerate(subst.values())]
        goal = [z3.substitute(f, *pairs) if pairs else f for f in chosen]
        goal.append(z3.Not(z3.substitute(cond, *pairs) if pairs else cond))
        t = time.time()
        r = nia_portfolio(goal, timeout_ms)
        self.solver_seconds += time.time() - t
        self.solver_calls += 1
        s = z3.Solver()
        s.add(goal)
        if _DEBUG:
            print(f"[sliced] {len(chosen)}/{len(facts)} facts -> {r} {time.time() - t:.2f}s")
            if r != z3.unsat:
                open("/tmp/sliced.smt2", "w").write(s.to_smt2())
        return r == z3.unsat

    def pick(self, cond, a, b):
        """context-aware ite: choose a branch when the path decides the condition, else build If"""
        cond = z3.simplify(cond)
        if z3.is_true(cond):
            return a
        if z3.is_false(cond):
            return b
        if self.entails(cond):
            return a
        if self.entails(z3.Not(cond)):
            return b
        return z3.If(cond, a, b)

    def decide(self, cond):
        """Return the truth value of a symbolic condition on this path, forking if both are possible."""
        cond = z3.simplify(cond)
        if z3.is_true(cond):
            return True
        if z3.is_false(cond):
            return False
        # entailment-only: a branch is explored unless it is refuted (over-approximation of feasibility)
        must_t = self.entails(cond)
        must_f = (not must_t) and self.entails(z3.Not(cond))
        if not must_t and not must_f and not getattr(self, "_local", False) and _nonlinear(cond):
            # second attempt for arithmetic side conditions: only the facts connected to the condition through
            # shared ground terms, in a fresh solver (dropping hypotheses is sound for entailment)
            must_t = self.entails_sliced(cond)
            must_f = (not must_t) and self.entails_sliced(z3.Not(cond))
        if must_t and self.entails(z3.Not(cond)):
            raise DeadPath()
        can_t, can_f = not must_f, not must_t
        if can_t and can_f:
            if self.pos < len(self.decisions):
                d = self.decisions[self.pos]
            else:
                if len(self.decisions) >= self.max_decisions:
                    raise PathLimit("too many decisions on one path")
                d = True
                self.decisions.append(True)
            self.fork_positions[self.pos] = len(self.index_ctx)
            self.pos += 1
            forked = True
        else:
            d = can_t
            forked = False
        if getattr(self, "_local", False):
            self.__dict__.setdefault("temp", []).append(cond if d else z3.Not(cond))
        else:
            self.pc.append(cond if d else z3.Not(cond))
            if forked:
                self.__dict__.setdefault("forks", []).append(cond if d else z3.Not(cond))
        return d

    def local_paths(self, thunk, max_paths=8, catch=False):
        """Explore the paths of a small pure computation locally (conditions kept as temporary assumptions) so
        that the caller can merge the results into one if-then-else term instead of forking the whole path.
        Returns [(conditions, value)]; any exception of the computation propagates (caller falls back to forking)."""
        temp = self.__dict__.setdefault("temp", [])
        outer = (self.decisions, self.pos, getattr(self, "_local", False), dict(self.fork_positions))
        results = []
        stack = [[]]
        try:
            while stack:
                dec = stack.pop()
                self.decisions = list(dec)
                self.pos = 0
                self._local = True
                mark = len(temp)
                try:
                    try:
                        v = thunk()
                    except Undecided:
                        raise
                    except Exception as e:
                        if not catch:
                            raise
                        v = LocalRaise(e)
                    results.append((list(temp[mark:]), v))
                finally:
                    del temp[mark:]
                for i in range(len(dec), len(self.decisions)):
                    stack.append(self.decisions[:i] + [False])
                if len(results) > max_paths:
                    raise PathLimit("too many local paths to merge")
        finally:
            self.decisions, self.pos, self._local, self.fork_positions = outer
        return results


def exc_text(e, limit=300):
    """text of an exception whose arguments may be symbolic"""
    try:
        return f"{type(e).__name__}: {e}"[:limit]
    except Undecided:
        return f"{type(e).__name__}: {e.args!r}"[:limit]


_COMMUTATIVE = None
_CANON_MEMO = {}


def canon(t):
    """simplified term with the operands of commutative operators in a canonical order (by their printed form).
    z3's simplifier orders such operands by internal term ids, which depend on what the process did before: printed
    terms would differ from run to run. Sound: only operands of +, *, and, or, =, distinct, fp.add, fp.mul, fp.eq,
    fp.min/max are permuted."""
    global _COMMUTATIVE
    if _COMMUTATIVE is None:
        _COMMUTATIVE = {z3.Z3_OP_ADD, z3.Z3_OP_MUL, z3.Z3_OP_AND, z3.Z3_OP_OR, z3.Z3_OP_EQ, z3.Z3_OP_DISTINCT, z3.Z3_OP_IFF}
        _FP2 = {z3.Z3_OP_FPA_ADD, z3.Z3_OP_FPA_MUL}
        _COMMUTATIVE_FP = _FP2
        globals()["_COMMUTATIVE_FP"] = _FP2
    t = z3.simplify(t)
    return _canon(t)


def _canon(t):
    if not z3.is_app(t) or t.num_args() == 0:
        return t
    key = t.get_id()
    hit = _CANON_MEMO.get(key)
    if hit is not None and z3.eq(hit[0], t):
        return hit[1]
    ch = [_canon(c) for c in t.children()]
    k = t.decl().kind()
    if k in _COMMUTATIVE:
        ch = sorted(ch, key=_sort_key)
    elif k in globals()["_COMMUTATIVE_FP"] and len(ch) == 3:
        ch = [ch[0]] + sorted(ch[1:], key=_sort_key)
    try:
        out = t.decl()(*ch)
    except z3.Z3Exception:
        out = t
    if len(_CANON_MEMO) > 200000:
        _CANON_MEMO.clear()
    _CANON_MEMO[key] = (t, out)
    return out


_KEY_MEMO = {}


def _sort_key(t):
    k = t.get_id()
    hit = _KEY_MEMO.get(k)
    if hit is not None and z3.eq(hit[0], t):
        return hit[1]
    s = t.sexpr()
    if len(_KEY_MEMO) > 200000:
        _KEY_MEMO.clear()
    _KEY_MEMO[k] = (t, s)
    return s


def canon_sexpr(t):
    return canon(t).sexpr()


class LocalRaise:
    """outcome of a local path that raised (see Path.local_paths(catch=True))"""

    def __init__(self, exc):
        self.exc = exc


def _atoms(t):
    """ids of the uninterpreted constants / applications occurring in t (applications are atoms: not descended)"""
    out = set()
    seen = set()
    stack = [t]
    while stack:
        x = stack.pop()
        i = x.get_id()
        if i in seen:
            continue
        seen.add(i)
        if z3.is_app(x) and x.decl().kind() == z3.Z3_OP_UNINTERPRETED:
            out.add(i)
            if x.num_args() and x.sort() == z3.IntSort() and all(z3.is_int_value(c) for c in x.children()):
                continue
            if x.num_args() == 0:
                continue
            continue
        if z3.is_app(x):
            stack.extend(x.children())
    return out


def nia_portfolio(assertions, budget_ms=4000):
    """unsat / sat / unknown for a quantifier-free non-linear integer problem. z3's non-linear procedure is
    sensitive to term order and seeds: several short attempts (fresh context, different seeds) are made; any
    `unsat` is a proof (each attempt is a complete run of the solver on the same assertions)."""
    import time

    t0 = time.time()
    # z3's non-linear integer procedure is sensitive to the state of the process (term numbering, earlier queries):
    # the same problem is instant in a fresh process and times out inside a long-running one. The problem is therefore
    # printed and decided by the z3 command-line binary of the same version, one fresh process per query.
    import subprocess
    import sys
    import tempfile

    s0 = z3.Solver()
    s0.add(assertions)
    text = s0.to_smt2()
    exe = None
    for cand in (_os.path.join(_os.path.dirname(sys.executable), "z3"), "/usr/local/bin/z3-new", "/usr/bin/z3"):
        if _os.path.exists(cand):
            exe = cand
            break
    if exe is not None:
        with tempfile.NamedTemporaryFile("w", suffix=".smt2", delete=False) as fh:
            fh.write(text)
            name = fh.name
        try:
            # two complete attempts with different seeds; each is bounded by the deterministic resource counter (the nominal
            # budget in seconds times NIA_RLIMIT_PER_S), the wall-clock limit is the safety net
            nominal_s = budget_ms / 2000.0 + 1
            rlimit = int(nominal_s * NIA_RLIMIT_PER_S)
            wall_s = max(int(nominal_s * 4), WALL_NET_MS // 1000)
            for seed in (0, 7):
                t1 = time.time()
                try:
                    out = subprocess.run([exe, f"-T:{wall_s}", "-st", f"rlimit={rlimit}", f"smt.random_seed={seed}", name],
                                         capture_output=True, text=True, timeout=wall_s + 5).stdout.strip().splitlines()
                except subprocess.TimeoutExpired:
                    out = []
                verdict = out[0].strip() if out else "unknown"
                if _DEBUG:
                    print(f"[nia] {exe} seed={seed} -> {verdict} {time.time() - t0:.2f}s")
                if _QLOG:
                    used = [ln.split()[-1].rstrip(")") for ln in out if "rlimit-count" in ln]
                    qlog("nia", time.time() - t1, verdict, seed=seed, rlimit=int(used[0]) if used else None, granted=rlimit)
                if verdict == "unsat":
                    return z3.unsat
                if verdict == "sat":
                    return z3.sat
        finally:
            try:
                _os.unlink(name)
            except OSError:
                pass
    return z3.unknown


def _int_apps(t, out):
    """maximal applications (with arguments) of uninterpreted functions of sort Int in t, by id"""
    seen = set()
    stack = [t]
    while stack:
        x = stack.pop()
        i = x.get_id()
        if i in seen:
            continue
        seen.add(i)
        if z3.is_app(x):
            if x.decl().kind() == z3.Z3_OP_UNINTERPRETED and x.num_args() > 0 and x.sort() in (z3.IntSort(), z3.BoolSort()):
                out[i] = x
                continue
            stack.extend(x.children())
    return out


def _nonlinear(t):
    seen = set()
    stack = [t]
    while stack:
        x = stack.pop()
        i = x.get_id()
        if i in seen:
            continue
        seen.add(i)
        if z3.is_app(x):
            if x.decl().kind() == z3.Z3_OP_MUL and sum(1 for c in x.children() if not z3.is_int_value(c)) >= 2:
                return True
            stack.extend(x.children())
    return False


class DeadPath(Exception):
    """The current path condition is unsatisfiable."""


class PathResult:
    __slots__ = ("path", "outcome", "value", "exc", "extra")

    def __init__(self, path, outcome, value=None, exc=None, extra=None):
        self.path = path
        self.outcome = outcome  # 'return' | 'raise' | 'undecided'
        self.value = value
        self.exc = exc
        self.extra = extra


def explore(run, hyps=(), timeout_ms=3000, max_paths=256, max_decisions=400):
    """Enumerate all paths of `run(path)` by re-execution with decision prefixes.

    run(path) returns a value, raises a Python exception (the interpreted program's exception),
    or raises Undecided. Returns a list of PathResult.
    """
    results = []
    stack = [[]]
    while stack:
        if len(results) >= max_paths:
            raise PathLimit(f"more than {max_paths} paths")
        dec = stack.pop()
        p = Path(dec, hyps=hyps, timeout_ms=timeout_ms, max_decisions=max_decisions)
        extra = {}
        try:
            v = run(p, extra) if run.__code__.co_argcount >= 2 else run(p)
            res = PathResult(p, "return", value=v, extra=extra)
        except DeadPath:
            res = None
        except Undecided as e:
            res = PathResult(p, "undecided", exc=e, extra=extra)
        except RecursionError as e:
            res = PathResult(p, "undecided", exc=Undecided(f"recursion limit: {e}"), extra=extra)
        except BaseException as e:  # the interpreted program raised
            if isinstance(e, (KeyboardInterrupt, SystemExit, MemoryError)):
                raise
            res = PathResult(p, "raise", exc=e, extra=extra)
        if res is not None:
            results.append(res)
            if _DEBUG:
                print(f"[explore] path {len(results)}: {res.outcome} {res.exc!r:.150} decisions={p.decisions} "
                      f"solver={p.solver_calls} calls {p.solver_seconds:.1f}s", flush=True)
        for i in range(len(dec), len(p.decisions)):
            stack.append(p.decisions[:i] + [False])
    return results
