"""pyvc.layout — symbolic parse of the live `construct` declarations (DESIGN.md §2.3).

`sym_parse` walks the real construct objects imported from /repo (Struct.subcons, Renamed.name, Array.count,
FormatField.fmtstr/length, StringEncoded/FixedSized.length, Bytes.length, Enum.encmapping, Tell, Seek.at,
Computed.func) and produces what `Struct.parse(bytes)` would return — a construct Container whose leaves are
terms over the file bytes — together with the stream position after the record. Count/length expressions
(`this.a.b - (12 + this.n*120)`) are construct.expr trees and are translated node by node.

Trusted (T3): the atomic codecs (big-endian unsigned FormatField, PaddedString = fixed width, trailing NULs
stripped, ASCII) and the combinators (Struct = sequential, Array(count) = count repetitions, Tell/Seek/Computed)
have the semantics implemented here. The repo's own Adapter subclasses are NOT trusted: their `_decode` bodies are
interpreted by pyvc on the symbolic raw value. The model is validated against the real library on random records
(`native/layoutcheck.py`, bounded).
"""
from __future__ import annotations

import operator

import construct as C
import z3
from construct.expr import BinExpr, ExprMixin, Path as ExprPath, UniExpr

from . import ops
from .absobj import SymBytes
from .core import Sym, SymSeq, Unsupported, fresh_int, is_concrete_int, z3_of
from .models import IndexContext
from .ops import BEU, TXT, as_int_term, mk_bool, mk_int

OPNAMES = {operator.add: "add", operator.sub: "sub", operator.mul: "mul", operator.floordiv: "floordiv",
           operator.truediv: "truediv", operator.mod: "mod"}


class Stream:
    """the bytes being parsed: window of file `fid` starting at file offset `base`, `limit` bytes long"""

    def __init__(self, fid, base, limit):
        self.fid = fid
        self.base = base
        self.limit = limit


class Leaf:
    """bookkeeping record of one atomic field (for tables, tiling checks and dependency sets)"""

    __slots__ = ("path", "pos", "width", "codec", "chain", "off", "value")

    def __init__(self, path, pos, width, codec, chain, off=None, value=None):
        self.path, self.pos, self.width, self.codec, self.chain = path, pos, width, codec, chain
        self.off, self.value = off, value


class Parser:
    def __init__(self, it, stream, record_leaves=True, enum_mode="known", enum_other=None):
        self.it = it
        self.stream = stream
        self.leaves = []
        self.record_leaves = record_leaves
        self.enum_mode = enum_mode  # "known": precondition code ∈ table (assumed) · "fork": explore the other-code case
        self.enum_other = enum_other  # path of the one enum field whose code is assumed NOT to be in the table
        self.enum_fields = []
        self.unchecked = 0  # > 0 while inside a fixed-size Struct whose total size was already checked

    # -- helpers ----------------------------------------------------------------------------------
    def note_leaf(self, leaf):
        self.leaves.append(leaf)
        self.it.__dict__.setdefault("all_leaves", []).append(leaf)

    def note_span(self, path, start, end, con):
        self.it.__dict__.setdefault("spans", []).append((path, self.file_off(start), self.file_off(end), con))

    def add(self, a, b):
        if is_concrete_int(a) and is_concrete_int(b):
            return a + b
        return mk_int(as_int_term(a) + as_int_term(b))

    def file_off(self, pos):
        return self.add(self.stream.base, pos)

    def tr(self, e, ctx):
        """translate a construct expression (this.a.b, BinExpr, int, callable) on a symbolic context"""
        if isinstance(e, BinExpr):
            name = OPNAMES.get(e.op)
            if name is None:
                raise Unsupported(f"construct expression operator {e.op}")
            return self.it.binop(name, self.tr(e.lhs, ctx), self.tr(e.rhs, ctx))
        if isinstance(e, ExprPath):
            chain = []
            p = e
            while p is not None and getattr(p, "_Path__parent") is not None:
                chain.append(getattr(p, "_Path__field"))
                p = getattr(p, "_Path__parent")
            v = ctx
            for f in reversed(chain):
                v = v[f]
            return v
        if isinstance(e, UniExpr):
            raise Unsupported("unary construct expression")
        if isinstance(e, (int,)):
            return e
        if callable(e):
            # a plain callable in a declaration (lambda ctx: ..., a helper function): repo code -> interpreted
            return self.it.call(self.it.wrap(e), [ctx], {})
        raise Unsupported(f"construct expression {type(e).__name__}")

    def need(self, pos, width, what):
        """a read of `width` bytes at stream position pos: StreamError unless it fits"""
        lim = self.stream.limit
        if lim is None or self.unchecked:
            return
        end = as_int_term(self.add(pos, width))
        ok = end <= as_int_term(lim)
        if getattr(self.it, "assume_available", False):
            # precondition of the run: the file holds the complete records (truncation is C18's subject)
            if not z3.is_true(z3.simplify(ok)):
                self.it.path.assume(ok)
                self.it.path.__dict__.setdefault("wf_assumptions", []).append(("file-long-enough", what, ok))
            return
        if not self.it.path.entails(ok):
            if not self.it.truth(mk_bool(ok)):
                raise C.StreamError(f"stream read less than specified amount ({what})")

    # -- main -------------------------------------------------------------------------------------
    def parse(self, con, pos, ctx, path=(), chain=()):
        """returns (value, new position)"""
        it = self.it
        if isinstance(con, C.Renamed):
            return self.parse(con.subcon, pos, ctx, path + ((con.name,) if con.name else ()), chain)
        if isinstance(con, C.Struct):
            pos0 = pos
            obj = C.Container()
            obj["_io"] = "<stream>"
            sub = C.Container()
            sub["_"] = ctx
            sub["_io"] = "<stream>"
            # a Struct of static size: one availability check for the whole struct (construct reads field by
            # field and raises StreamError at the first short field: same outcome, same set of inputs)
            static = None
            if not self.unchecked and self.stream.limit is not None:
                try:
                    static = con.sizeof()
                except Exception:
                    static = None
            if static is not None:
                self.need(pos, static, ".".join(map(str, path)) or "struct")
                self.unchecked += 1
            try:
                for sc in con.subcons:
                    v, pos = self.parse(sc, pos, sub, path, ())
                    name = getattr(sc, "name", None)
                    if name:
                        obj[name] = v
                        sub[name] = v
            finally:
                if static is not None:
                    self.unchecked -= 1
            if self.record_leaves and len(path) <= 2:
                self.note_span(path, pos0, pos, con)
            return obj, pos
        if isinstance(con, C.Array):
            return self.parse_array(con, pos, ctx, path)
        if isinstance(con, C.StringEncoded):
            fs = con.subcon
            if not isinstance(fs, C.FixedSized):
                raise Unsupported("StringEncoded over non-FixedSized")
            n = self.tr(fs.length, ctx) if isinstance(fs.length, ExprMixin) or callable(fs.length) else fs.length
            if not is_concrete_int(n):
                nt = as_int_term(n)
                if not it.path.entails(nt >= 0):
                    if it.truth(mk_bool(nt < 0)):
                        raise C.PaddingError("length cannot be negative")
            elif n < 0:
                raise C.PaddingError("length cannot be negative")
            self.need(pos, n, ".".join(map(str, path)))
            off = self.file_off(pos)
            v = Sym(TXT(z3_of(self.stream.fid), as_int_term(off), as_int_term(n)), str, tag=path)
            if self.record_leaves:
                self.note_leaf(Leaf(path, pos, n, "text:" + con.encoding, chain, off, v))
            return v, self.add(pos, n)
        if isinstance(con, C.Enum):
            v, pos2 = self.parse(con.subcon, pos, ctx, path, chain + (("Enum", dict(con.encmapping)),))
            self.enum_fields.append(path)
            return self.decode_enum(con, v, path), pos2
        if isinstance(con, C.Adapter):
            raw, pos2 = self.parse(con.subcon, pos, ctx, path, chain + ((type(con).__name__, _adapter_info(con)),))
            dec = it.getattr(con, "_decode")
            val = it.call_merged(dec, [raw, ctx, "(parsing)"], {}, wellformed=".".join(map(str, path)))
            if self.record_leaves:
                it.__dict__.setdefault("decoded", {})[path] = val
            return val, pos2
        if isinstance(con, C.FormatField):
            w = con.length
            if con.fmtstr not in (">B", ">H", ">L", ">Q", ">I"):
                raise Unsupported(f"FormatField {con.fmtstr}")
            self.need(pos, w, ".".join(map(str, path)))
            off = self.file_off(pos)
            t = BEU(z3_of(self.stream.fid), as_int_term(off), z3.IntVal(w))
            it.path.assume(z3.And(t >= 0, t < 2 ** (8 * w)))
            v = Sym(t, int, tag=path)
            if self.record_leaves:
                self.note_leaf(Leaf(path, pos, w, "uint:" + con.fmtstr, chain, off, v))
            hook = getattr(it, "on_leaf", None)
            if hook is not None:
                hook(path, v, off)
            return v, self.add(pos, w)
        if isinstance(con, C.Bytes):
            n = self.tr(con.length, ctx) if isinstance(con.length, ExprMixin) or callable(con.length) else con.length
            self.need(pos, n, ".".join(map(str, path)))
            if self.record_leaves:
                self.note_leaf(Leaf(path, pos, n, "bytes", chain, self.file_off(pos), None))
            return SymBytes(self.stream.fid, self.file_off(pos), n), self.add(pos, n)
        if con is C.Tell or isinstance(con, type(C.Tell)):
            return pos, pos
        if isinstance(con, C.Computed):
            f = con.func
            return (self.tr(f, ctx) if isinstance(f, ExprMixin) or callable(f) else f), pos
        if isinstance(con, C.Seek):
            at = self.tr(con.at, ctx) if isinstance(con.at, ExprMixin) or callable(con.at) else con.at
            if con.whence != 0 and not callable(con.whence):
                raise Unsupported("Seek with whence != 0")
            return at, at
        if isinstance(con, C.Pointer):
            # parse the subconstruct at an absolute stream position (negative: counted from the end of the stream), then
            # carry on where we were
            off = self.tr(con.offset, ctx) if isinstance(con.offset, ExprMixin) or callable(con.offset) else con.offset
            if is_concrete_int(off) and off < 0:
                if self.stream.limit is None:
                    raise Unsupported("Pointer from the end of a stream of unknown length")
                at = mk_int(z3.simplify(as_int_term(self.stream.limit) + off))
                if not self.it.path.entails(as_int_term(at) >= 0):
                    if not self.it.truth(mk_bool(as_int_term(at) >= 0)):
                        raise C.StreamError("seek before the start of the stream")
            elif is_concrete_int(off) or isinstance(off, Sym):
                at = off
            else:
                raise Unsupported(f"Pointer offset {off!r}")
            v, _ = self.parse(con.subcon, at, ctx, path, chain)
            return v, pos
        raise Unsupported(f"construct {type(con).__name__} at {path}")

    def parse_array(self, con, pos, ctx, path):
        it = self.it
        cnt = con.count
        cnt = self.tr(cnt, ctx) if not isinstance(cnt, Sym) and (isinstance(cnt, ExprMixin) or callable(cnt)) else cnt
        if is_concrete_int(cnt):
            out = C.ListContainer()
            pos0 = pos
            for i in range(cnt):
                v, pos = self.parse(con.subcon, pos, ctx, path + (i,), ())
                out.append(v)
            if self.record_leaves and len(path) <= 2:
                self.note_span(path, pos0, pos, con)
            return out, pos
        n = as_int_term(cnt)
        if not it.path.entails(n >= 0):
            if it.truth(mk_bool(n < 0)):
                raise C.RangeError(f"invalid count {cnt!r}")
        # element size: parse one element at a fresh index; it must not depend on the element's values
        k = fresh_int("el")
        e0 = fresh_int("elpos")
        sub = Parser(it, Stream(self.stream.fid, self.stream.base, None), record_leaves=False)
        with IndexContext(it, k, 0, n):
            _, end = sub.parse(con.subcon, Sym(e0, int), ctx, path + ("[k]",), ())
        size = z3.simplify(as_int_term(end) - e0)
        if not z3.is_int_value(size):
            hint = getattr(it, "elem_size_hint", None)
            with IndexContext(it, k, 0, n):
                ok = hint is not None and it.path.entails(size == hint)
            if not ok:
                raise Unsupported("array element of non-constant size")
            esize = hint  # every element has the same (symbolic) size, e.g. the declared record length
        else:
            esize = size.as_long()
        total = mk_int(n * esize)
        self.need(pos, total, ".".join(map(str, path)))
        if self.record_leaves:
            self.note_leaf(Leaf(path, pos, total, f"array[{esize if is_concrete_int(esize) else 'R'}]", (("count", cnt),), self.file_off(pos), None))
        outer = self

        def elem(i):
            p_i = mk_int(as_int_term(pos) + as_int_term(i) * esize)
            # elements at a concrete index (e.g. the single map projection record) are recorded leaf by leaf, so that their
            # spare areas are known; elements at a symbolic index are not (their areas are covered through the element terms)
            concrete = is_concrete_int(i) and outer.record_leaves and is_concrete_int(esize)  # fixed-size elements only
            prs = Parser(it, Stream(outer.stream.fid, outer.stream.base, None), record_leaves=concrete,
                         enum_mode=outer.enum_mode, enum_other=outer.enum_other)
            prs.unchecked = 1  # availability of the whole array was checked above
            v, _ = prs.parse(con.subcon, p_i, ctx, path + ((i,) if concrete else ("[k]",)), ())
            return v

        if self.record_leaves and len(path) <= 2:
            self.note_span(path, pos, self.add(pos, total), con)
        return SymSeq(cnt, elem, C.ListContainer, note="Array:" + ".".join(map(str, path))), self.add(pos, total)

    def decode_enum(self, con, v, path=()):
        """construct.Enum._decode: known codes -> EnumIntegerString, anything else passes through"""
        it = self.it
        dec = con.decmapping
        if not isinstance(v, Sym):
            try:
                return dec[v]
            except KeyError:
                return C.EnumInteger(v) if isinstance(v, int) else v
        # precondition of the main run: the stored code is one of the enumerated ones; the result is the name
        # (what utils.to_dict turns an EnumIntegerString into), as one ite term over the codes
        codes = [(code, str(name)) for code, name in dec.items() if isinstance(code, str) == (v.pyt is str)]
        if not codes:
            return v
        eqs = [(v.term == ops.str_const(c)) if v.pyt is str else (v.term == c) for c, _ in codes]
        known = z3.Or(*eqs)
        if self.enum_other is not None and tuple(self.enum_other) == tuple(path):
            it.path.assume(z3.Not(known))
            return v  # other code: passes through unchanged (EnumInteger / raw value)
        if self.enum_mode == "known":
            it.path.assume(known)  # precondition (recorded by the caller as an assumption of the run)
            if "!" not in str(known):
                # part of the record contract: the set of codes the reader admits must be the specified one
                it.path.__dict__.setdefault("wf_assumptions", []).append(("Enum", ".".join(map(str, path)), known))
        elif not it.path.entails(known):
            if not it.truth(mk_bool(known)):
                return v
        term = ops.str_const(codes[-1][1])
        for (c, nm), eq in zip(reversed(codes[:-1]), reversed(eqs[:-1])):
            term = z3.If(eq, ops.str_const(nm), term)
        return Sym(term, str, tag=("enum", tuple(c for c, _ in codes)))


def _adapter_info(con):
    info = {}
    for attr in ("factor", "attrs"):
        if hasattr(con, attr):
            info[attr] = getattr(con, attr)
    return info


def parse_record(it, con, fid=100, base=0, pos=0, limit=None, ctx=None, enum_mode="known", enum_other=None):
    """symbolic Struct.parse of one record; returns (container, end position, leaves)"""
    p = Parser(it, Stream(fid, base, limit), enum_mode=enum_mode, enum_other=enum_other)
    root = C.Container()
    root["_"] = ctx
    v, end = p.parse(con, pos, root if ctx is None else ctx)
    return v, end, p.leaves


# ---------------------------------------------------------------------------------------------------
# Construct.parse(<symbolic bytes>) in interpreted repo code -> symbolic parse of the live declaration
# ---------------------------------------------------------------------------------------------------
def _construct_parse(it, con, a, k):
    from .absobj import SymBytes

    data = a[0] if a else k.get("data")
    if not isinstance(data, SymBytes):
        return NotImplemented
    v, end, leaves = parse_record(it, con, fid=data.fid, base=data.off, pos=0, limit=data.length)
    it.__dict__.setdefault("parsed_records", []).append({"con": con, "base": data.off, "limit": data.length,
                                                         "end": end, "leaves": leaves, "value": v})
    return v
